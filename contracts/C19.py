"""C19 - client spec bunching preserves order and limits.

Target: hailtop.batch_client.aioclient.Batch._create_bunches (+ class SpecBytes: real __init__ then real n_bytes getter, the
filters in _submit_job_group_bunches / _submit_job_bunches, and the call site Batch._submit / Batch.submit: every sender gets
the bunches THIS call computed with THIS call's limits).

Top-level postcondition, from the property text, stated over boundaries (ghost array st, ghost count m):
  the result has m bunches; 0 = st[0] < st[1] < ... < st[m] = n where n = #job_group_specs + #job_specs;
  bunch j is exactly the specs ALL[st[j] .. st[j+1])  (=> concatenation is ALL, in order, groups before jobs);
  every bunch has at most max_bunch_size specs and at most max_bunch_bytesize bytes; no bunch is empty.
  ALL[i] is SpecBytes(orjson.dumps(job_group_specs[i]), JOB_GROUP) for i < #groups, else the JOB analogue.
"""
from __future__ import annotations

import ast
import json

import z3

from vc import core, pyvc
from vc.pyvc import Contract, Ghost, LoopSpec, to_z3

PATH = 'hail/python/hailtop/batch_client/aioclient.py'


def _mk_specbytes(eng, st, args, kw, node):
    f = eng.uf('mk_SpecBytes', ['U', 'U'], 'U')
    return f(to_z3(args[0], 'U'), to_z3(args[1], 'U'))


def _dumps(eng, st, args, kw, node):
    return eng.uf('dumps', ['U'], 'U')(to_z3(args[0], 'U'))


SPEC_FUNCS = {
    'mk_SpecBytes': (['U', 'U'], 'U'),
    'dumps': (['U'], 'U'),
    'attr_n_bytes': (['U'], 'int'),
    'attr_spec_bytes': (['U'], 'U'),
    'attr_typ': (['U'], 'U'),
    'len_U': (['U'], 'int'),
    'P': (['int'], 'int'),  # prefix sums of the byte sizes of ALL
    'W': (['int'], 'int'),  # byte size of the i-th spec of ALL
}

AXIOMS = [
    # class SpecBytes, as established by the contracts on SpecBytes.__init__ and SpecBytes.n_bytes below
    "forall('U', 'U', lambda b, t: attr_n_bytes(mk_SpecBytes(b, t)) == len_U(b) and attr_spec_bytes(mk_SpecBytes(b, t)) == b and attr_typ(mk_SpecBytes(b, t)) == t)",
    # definitional: W and its prefix sums P
    "forall(lambda i: implies(0 <= i < len(job_group_specs), W(i) == len_U(dumps(job_group_specs[i]))))",
    "forall(lambda i: implies(len(job_group_specs) <= i < len(job_group_specs) + len(job_specs), W(i) == len_U(dumps(job_specs[i - len(job_group_specs)]))))",
    "P(0) == 0",
    "forall(lambda i: implies(0 <= i < len(job_group_specs) + len(job_specs), P(i + 1) == P(i) + W(i)))",
]

BUNCH_J = (
    "forall(lambda j: implies(0 <= j < m, "
    "st[j] < st[j + 1] and len({B}[j]) == st[j + 1] - st[j] "
    "and len({B}[j]) <= max_bunch_size and P(st[j + 1]) - P(st[j]) <= max_bunch_bytesize))"
)
BUNCH_ELEMS = "forall(lambda j, t: implies(0 <= j < m and 0 <= t < st[j + 1] - st[j], {B}[j][t] == ALL[st[j] + t]))"

INV = [
    ('counts', "m == len(byte_specs_bunches) and m >= 0 and st[0] == 0 and st[m] == cs and 0 <= cs <= k"),
    ('current-nonempty', "implies(k > 0, cs < k)"),
    ('all-def', "len(ALL) == len(job_group_specs) + len(job_specs) and forall(lambda i: implies(0 <= i < len(ALL), attr_n_bytes(ALL[i]) == W(i)))"),
    ('current-is-slice', "len(bunch) == k - cs and forall(lambda t: implies(0 <= t < k - cs, bunch[t] == ALL[cs + t]))"),
    ('current-bytes', "bunch_n_bytes == P(k) - P(cs)"),
    ('current-limits', "len(bunch) <= max_bunch_size and bunch_n_bytes <= max_bunch_bytesize"),
    ('closed-bunches', BUNCH_J.format(B='byte_specs_bunches')),
    ('closed-elems', BUNCH_ELEMS.format(B='byte_specs_bunches')),
]

GHOST_CLOSE = "st = store(st, m + 1, k)\nm = m + 1\ncs = k"


def contract():
    return Contract(
        path=PATH,
        qualname='Batch._create_bunches',
        types={
            'self': 'U',
            'job_group_specs': 'List[U]',
            'job_specs': 'List[U]',
            'max_bunch_bytesize': 'int',
            'max_bunch_size': 'int',
            'byte_specs_bunches': 'List[List[U]]',
            'bunch': 'List[U]',
            'result': 'List[List[U]]',
            '.n_bytes': 'int',
            '.spec_bytes': 'U',
            '.typ': 'U',
        },
        spec_funcs=SPEC_FUNCS,
        axioms=AXIOMS,
        calls={'SpecBytes': _mk_specbytes, 'orjson.dumps': _dumps},
        ghost_init={'st': "store(ARR0, 0, 0)", 'm': '0', 'cs': '0', 'ALL': 'job_group_specs'},
        consts={'ARR0': z3.Const('st0', z3.ArraySort(z3.IntSort(), z3.IntSort()))},
        ghosts=[
            Ghost(anchor='for spec in [*job_group_byte_specs, *job_byte_specs]', where='before', code="ALL = [*job_group_byte_specs, *job_byte_specs]"),
            Ghost(anchor='byte_specs_bunches.append(bunch)', where='after', code=GHOST_CLOSE),
        ],
        loops={0: LoopSpec(index='k', invariants=INV)},
        raises={'AssertionError': "max_bunch_bytesize <= 0 or max_bunch_size <= 0 or exists(lambda i: 0 <= i < len(job_group_specs) + len(job_specs) and W(i) >= max_bunch_bytesize)"},
        ensures=[
            ('bunch-count', "len(result) == m and st[0] == 0 and st[m] == len(job_group_specs) + len(job_specs)"),
            ('bunches-are-adjacent-nonempty-slices-within-limits', BUNCH_J.format(B='result')),
            ('bunch-elements-are-the-specs-in-order', BUNCH_ELEMS.format(B='result')),
            (
                'groups-before-jobs-and-faithful',
                "len(ALL) == len(job_group_specs) + len(job_specs) and "
                "forall(lambda i: implies(0 <= i < len(job_group_specs), attr_spec_bytes(ALL[i]) == dumps(job_group_specs[i]) and attr_typ(ALL[i]) == SpecType.JOB_GROUP)) and "
                "forall(lambda i: implies(0 <= i < len(job_specs), attr_spec_bytes(ALL[len(job_group_specs) + i]) == dumps(job_specs[i]) and attr_typ(ALL[len(job_group_specs) + i]) == SpecType.JOB))",
            ),
            ('byte-size-is-real-length', "forall(lambda i: implies(0 <= i < len(ALL), attr_n_bytes(ALL[i]) == len_U(attr_spec_bytes(ALL[i]))))"),
        ],
        canaries=[
            ('bunches-could-be-one-larger', "forall(lambda j: implies(0 <= j < m, len(result[j]) < max_bunch_size))"),
            ('no-bunch-at-all', "m == 0"),
        ],
    )


def open_bunch_contract():
    """The same real function once more, with the part of the loop invariant that needs no quantifier stated on its own:
    the OPEN bunch (the one specs are still being added to) is within both limits after every iteration, whatever the sizes
    of the specs are (attr_n_bytes is left uninterpreted: no axiom about P / W is in scope here).  It is implied by
    `current-limits` above; it is stated separately because its verification conditions are quantifier-free, so that a loop
    body that lets a spec into the open bunch without comparing it against the byte limit is REFUTED with a counter-model
    in milliseconds instead of ending in `unknown` under the quantified prefix-sum axioms."""
    return Contract(
        path=PATH,
        qualname='Batch._create_bunches',
        label='Batch._create_bunches[open-bunch-limits]',
        types={
            'self': 'U',
            'job_group_specs': 'List[U]',
            'job_specs': 'List[U]',
            'max_bunch_bytesize': 'int',
            'max_bunch_size': 'int',
            'byte_specs_bunches': 'List[List[U]]',
            'bunch': 'List[U]',
            'result': 'List[List[U]]',
            '.n_bytes': 'int',
            '.spec_bytes': 'U',
            '.typ': 'U',
        },
        calls={'SpecBytes': _mk_specbytes, 'orjson.dumps': _dumps},
        loops={
            0: LoopSpec(
                index='k',
                invariants=[
                    ('open-bunch-within-count-limit', "len(bunch) <= max_bunch_size"),
                    ('open-bunch-within-byte-limit', "bunch_n_bytes <= max_bunch_bytesize"),
                    ('limits-positive', "max_bunch_bytesize > 0 and max_bunch_size > 0"),
                ],
            )
        },
        # when the function may refuse an input is the business of the main contract (it needs W); here every refusal is allowed
        raises={'AssertionError': True},
        ensures=[('limits-unchanged', "max_bunch_bytesize == old(max_bunch_bytesize) and max_bunch_size == old(max_bunch_size)")],
        canaries=[('no-bunch-at-all', "len(result) == 0")],  # over the result only: must stay evaluable at every return of a changed body
    )


def specbytes_contracts():
    init = Contract(
        path=PATH,
        qualname='SpecBytes.__init__',
        types={'spec_bytes': 'U', 'typ': 'U'},
        ensures=[('fields-are-the-arguments', "self.spec_bytes == spec_bytes and self.typ == typ")],
    )
    return [init]


SPECBYTES_REPLAY = r'''
import sys, json, os, ast, enum, typing
src = open(os.path.join(os.environ['VERIF_REPO'], 'hail/python/hailtop/batch_client/aioclient.py')).read()
tree = ast.parse(src)
keep = [n for n in tree.body if isinstance(n, ast.ClassDef) and n.name in ('SpecType', 'SpecBytes')]
ns = {k: getattr(typing, k) for k in typing.__all__}
ns.update({'Enum': enum.Enum, '__name__': 'replay'})
exec(compile(ast.Module(body=keep, type_ignores=[]), 'aioclient-extract', 'exec'), ns)
SpecBytes = ns['SpecBytes']; SpecType = ns['SpecType']
# what orjson.dumps puts on the wire is UTF-8 JSON text with non-ASCII characters NOT escaped
samples = ['{}', '{"name":"abc"}', '{"name":"Zo\u00eb"}', '{"name":"\u60a3\u8005"}', '{"name":"\U0001f9ec"}', '']
res = {'confirmed': False, 'tried': len(samples)}
for text in samples:
    wire = text.encode('utf-8')
    for typ in (SpecType.JOB_GROUP, SpecType.JOB):
        s = SpecBytes(wire, typ)
        probs = []
        if s.spec_bytes != wire: probs.append('spec_bytes is not the constructor argument')
        if s.typ is not typ: probs.append('typ is not the constructor argument')
        nb = s.n_bytes
        if nb != len(wire): probs.append('n_bytes == %r but %d bytes go on the wire' % (nb, len(wire)))
        if s.n_bytes != nb: probs.append('n_bytes changes between reads')
        if s.spec_bytes != wire: probs.append('reading n_bytes changed spec_bytes')
        if probs and not res['confirmed']:
            res = {'confirmed': True, 'what': '; '.join(probs), 'input': {'spec_bytes_utf8': text, 'n_wire_bytes': len(wire), 'typ': typ.name}}
print(json.dumps(res))
'''


def specbytes_class(ctx):
    """class SpecBytes under contract, as the composition that `_create_bunches` relies on (axiom 1 of AXIOMS): for EVERY
    spec_bytes b and typ t, the object that the REAL `SpecBytes.__init__(b, t)` leaves behind has `.spec_bytes == b`,
    `.typ == t` and its REAL `n_bytes` getter yields len(b) - the number of BYTES of what goes on the wire - on the first and
    on any later read, without changing spec_bytes / typ.  The constructor and the getter are executed symbolically by
    vc/pyclass.Inliner; every other @property of the class that the getter touches is executed the same way (discovered from
    the class body on every run, nothing about them is modelled by hand).  `bytes.decode` is the only library call given a
    meaning: an uninterpreted text whose length (characters) is between 0 and the number of bytes - UTF-8 needs one to four
    bytes per character - and NOT equal to it.
    Frame (scan): no statement of the module outside class SpecBytes assigns a field of a SpecBytes object."""
    from vc.pyclass import ClassIndex, Inliner

    cx = ClassIndex([PATH])
    if 'SpecBytes' not in cx.classes:
        raise core.Undecided('anchor-moved: class SpecBytes not found in %s' % PATH)
    cnode = cx.classes['SpecBytes']
    props = [n.name for n in cnode.body if isinstance(n, ast.FunctionDef) and any(ast.unparse(d) in ('property', 'functools.cached_property', 'cached_property') for d in n.decorator_list)]
    ctx.add(core.decided('SpecBytes/n_bytes-is-a-property', 'n_bytes' in props, 'properties of SpecBytes: %s' % props, kind='scan'))
    len_u = z3.Function('len_U', pyvc.U, z3.IntSort())
    dec = z3.Function('decode_utf8', pyvc.U, pyvc.U)

    def decode_model(eng, st, args, kw, node):
        b = to_z3(args[0], 'U')
        st.assume(z3.And(len_u(dec(b)) >= 0, len_u(dec(b)) <= len_u(b)))
        return dec(b)

    calls = {'.decode': decode_model}
    inl = Inliner(ctx, cx, calls=calls)
    for name in props:
        calls['property:' + name] = (lambda nm: lambda eng, st, args, kw, node: _prop(inl, nm, st, args[0], node))(name)
    inl.extra_calls = calls
    b = z3.Const('specbytes_b', pyvc.U)
    t = z3.Const('specbytes_t', pyvc.U)
    base_pc = [len_u(b) >= 0]

    def replay(model, obl):
        return core.run_native(SPECBYTES_REPLAY, {})

    def oblige(name, pc, goal):
        ctx.add(core.valid('SpecBytes/%s' % name, list(pc), goal), replay=replay)

    ctor = inl.run_ctor('SpecBytes', [b, t], pc=base_pc, label='SpecBytes.__init__[class]')
    ctx.under_contract(PATH, 'SpecBytes.__init__')
    ctx.under_contract(PATH, 'SpecBytes.n_bytes')
    reach = []
    n = 0
    for kind, rec, s1 in ctor:
        n += 1
        tag = '' if n == 1 else '#%d' % n
        oblige('ctor/does-not-raise' + tag, s1.pc, z3.BoolVal(kind == 'value'))
        if kind != 'value':
            continue
        for f, want in (('spec_bytes', b), ('typ', t)):
            has = isinstance(rec, pyvc.SRecord) and f in rec.fields
            oblige('ctor/field-%s-is-the-argument%s' % (f, tag), s1.pc, _same_u(rec.fields[f], want) if has else z3.BoolVal(False))
        # first read of n_bytes, then a second read on the object as the first read left it (a getter may cache)
        cur = [(rec, list(s1.pc))]
        for read in ('first-read', 'second-read'):
            nxt = []
            for r0, pc0 in cur:
                for k2, val, s2 in inl.run_method(r0, 'n_bytes', pc=pc0, label='SpecBytes.n_bytes[%s]#%d' % (read, len(nxt))):
                    m = len(nxt)
                    tg = tag + ('' if m == 0 else '.%d' % (m + 1))
                    oblige('n_bytes/%s/does-not-raise%s' % (read, tg), s2.pc, z3.BoolVal(k2 == 'value'))
                    if k2 != 'value':
                        continue
                    ok = isinstance(val, (int, z3.ExprRef)) and not isinstance(val, bool)
                    oblige('n_bytes/%s/is-the-byte-length-of-what-goes-on-the-wire%s' % (read, tg), s2.pc, (to_z3(val, 'int') == len_u(b)) if ok and (isinstance(val, int) or val.sort() == z3.IntSort()) else z3.BoolVal(False))
                    r2 = s2.env['self']
                    for f, want in (('spec_bytes', b), ('typ', t)):
                        has = isinstance(r2, pyvc.SRecord) and f in r2.fields
                        oblige('n_bytes/%s/leaves-%s-alone%s' % (read, f, tg), s2.pc, _same_u(r2.fields[f], want) if has else z3.BoolVal(False))
                    nxt.append((r2, list(s2.pc)))
                    if read == 'second-read':
                        reach.append(z3.And(*s2.pc))
            cur = nxt
    ctx.add(core.satisfiable('SpecBytes/vacuity/construct-then-read-n_bytes-twice-reachable', z3.Or(*reach) if reach else z3.BoolVal(False)))
    # canary: the same pipeline must refute "n_bytes is always 0"
    ctx.add(core.satisfiable('SpecBytes/canary/n_bytes-always-zero', z3.And(*(base_pc + [len_u(b) != 0])), kind='canary'))
    # frame: fields of SpecBytes objects are written by the class itself only
    tree = ast.parse(core.read_repo(PATH))
    fields = set()
    for kind, rec, s1 in ctor:
        if kind == 'value' and isinstance(rec, pyvc.SRecord):
            fields.update(rec.fields)
    inside = {id(x) for c_ in tree.body if isinstance(c_, ast.ClassDef) and c_.name == 'SpecBytes' for x in ast.walk(c_)}
    writers = []
    for x in ast.walk(tree):
        if isinstance(x, ast.Attribute) and isinstance(x.ctx, (ast.Store, ast.Del)) and x.attr in fields and id(x) not in inside:
            writers.append('L%d %s' % (x.lineno, ast.unparse(x)))
        if isinstance(x, ast.Call) and _dotted_name(x.func) in ('setattr', 'object.__setattr__') and id(x) not in inside and len(x.args) >= 2 and isinstance(x.args[1], ast.Constant) and x.args[1].value in fields:
            writers.append('L%d %s' % (x.lineno, ast.unparse(x)))
    ctx.add(core.decided('SpecBytes/frame/fields-written-by-the-class-only', not writers, 'fields %s; writers outside the class: %s' % (sorted(fields), writers), kind='scan'))


def _prop(inl, name, st, rec, node):
    """read of a @property of a SpecBytes record: the real getter is executed on the record; when the getter has several outcomes
    the engine re-executes the reading statement once per outcome (Fork) and the outcome decided for this node is handed back"""
    if node is not None and id(node) in st.decided:
        kind, payload = st.take_decided(node)
        if kind == 'raise':
            raise pyvc.PyRaise(payload)
        return payload
    if node is None:
        raise core.Undecided('property %s read where no statement can be re-executed' % name)
    return inl.call('SpecBytes', name, rec, [], {}, st, node)


def _same_u(v, want):
    return (v == want) if isinstance(v, z3.ExprRef) and v.sort() == pyvc.U else z3.BoolVal(False)


def _dotted_name(node):
    try:
        return ast.unparse(node)
    except Exception:
        return None


def _filters(ctx):
    """Type filters and submission order, decided syntactically on the real AST:
    every filter is `[spec.spec_bytes for spec in <bunch> if spec.typ == SpecType.X]` (an order-preserving filter),
    group bunches are submitted sequentially in bunch order, and all group bunches before any job bunch."""
    src = core.read_repo(PATH)
    tree = ast.parse(src)

    def comps(fn):
        node = pyvc.find_function(tree, 'Batch.' + fn)
        ctx.under_contract(PATH, 'Batch.' + fn)
        return node, [n for n in ast.walk(node) if isinstance(n, ast.ListComp) and 'spec_bytes' in ast.unparse(n)]

    def is_filter(c, src_name, typ):
        return (
            len(c.generators) == 1
            and ast.unparse(c.generators[0].iter) == src_name
            and [ast.unparse(i) for i in c.generators[0].ifs] == ['spec.typ == SpecType.%s' % typ]
            and ast.unparse(c.elt) == 'spec.spec_bytes'
            and ast.unparse(c.generators[0].target) == 'spec'
        )

    for fn, param, typs in (
        ('_submit_jobs', 'bunch', ['JOB']),
        ('_submit_job_groups', 'bunch', ['JOB_GROUP']),
        ('_create_fast', 'byte_specs_bunch', ['JOB', 'JOB_GROUP']),
        ('_update_fast', 'byte_specs_bunch', ['JOB', 'JOB_GROUP']),
    ):
        node, cs = comps(fn)
        ok = len(cs) == len(typs) and all(any(is_filter(c, param, t) for c in cs) for t in typs)
        ctx.add(core.decided('%s/type-filter-is-order-preserving' % fn, ok, '; '.join(ast.unparse(c) for c in cs), kind='scan'))
    node = pyvc.find_function(tree, 'Batch._submit_job_group_bunches')
    ctx.under_contract(PATH, 'Batch._submit_job_group_bunches')
    loops = [n for n in ast.walk(node) if isinstance(n, ast.For)]
    ok = (
        len(loops) == 1
        and ast.unparse(loops[0].iter) == 'byte_specs_bunches'
        and len(loops[0].body) == 1
        and ast.unparse(loops[0].body[0]).startswith('await self._submit_job_groups(update_id, %s,' % ast.unparse(loops[0].target))
    )
    ctx.add(core.decided('_submit_job_group_bunches/sequential-in-bunch-order', ok, ast.unparse(loops[0]) if loops else '', kind='scan'))
    node = pyvc.find_function(tree, 'Batch._submit_job_bunches')
    ctx.under_contract(PATH, 'Batch._submit_job_bunches')
    txt = ast.unparse(node)
    ok = 'functools.partial(self._submit_jobs, update_id, bunch, progress_task) for bunch in byte_specs_bunches' in txt
    ctx.add(core.decided('_submit_job_bunches/every-bunch-submitted-once', ok, '', kind='scan'))
    sub = pyvc.find_function(tree, 'Batch._submit')
    ctx.under_contract(PATH, 'Batch._submit')
    calls = [(n.lineno, n.func.attr) for n in ast.walk(sub) if isinstance(n, ast.Call) and isinstance(n.func, ast.Attribute) and n.func.attr in ('_submit_job_group_bunches', '_submit_job_bunches', '_create_bunches')]
    calls.sort()
    seq = [c for _, c in calls]
    ok = seq[:1] == ['_create_bunches'] and seq[1:] in (['_submit_job_group_bunches', '_submit_job_bunches'] * 2,)
    ctx.add(core.decided('_submit/groups-submitted-before-jobs', ok, repr(calls), kind='scan'))


def _submit_native():
    import os
    script = open(os.path.join(os.path.dirname(__file__), 'native', 'c19_submit_replay.py')).read()
    return core.run_native(script, {}, timeout=300)


def _bindings(fn, name):
    """every statement / expression of fn that binds the local `name` (parameters are not bindings)"""
    return [x for x in ast.walk(fn) if isinstance(x, ast.Name) and x.id == name and isinstance(x.ctx, (ast.Store, ast.Del))]


def _call_args(call, callee):
    """parameter name -> argument node of a `self.m(...)` call, by the REAL signature of m"""
    names = [a.arg for a in callee.args.posonlyargs + callee.args.args][1:]
    out = dict(zip(names, call.args))
    for k in call.keywords:
        if k.arg is not None:
            out[k.arg] = k.value
    if any(isinstance(a, ast.Starred) for a in call.args) or any(k.arg is None for k in call.keywords):
        return None
    return out


def _submit_call_site(ctx):
    """The clause of the property at the call site: every spec-carrying request of ONE `_submit(max_bunch_bytesize, max_bunch_size)`
    is built from bunches that THIS call computed with THIS call's limits from the pending specs.  Decided by def-use on the
    real AST of Batch._submit / Batch.submit (names of locals are irrelevant):
      - senders = the methods of Batch with a parameter annotated with SpecBytes (discovered); every sender call in `_submit`
        passes `v` or `v[<const>]` where the local v has exactly ONE binding in the whole function, a top-level
        (unconditional) statement that precedes every sender call, whose value - through plain copies - is the call
        `self._create_bunches(self._job_group_specs, self._job_specs, <p1>, <p2>)`;
      - p1 / p2 are parameters of `_submit`, never rebound, and go to `_create_bunches`' max_bunch_bytesize / max_bunch_size;
      - `submit` hands its own, never rebound, max_bunch_bytesize / max_bunch_size to those two parameters in every `_submit` call.
    A failure is replayed by contracts/native/c19_submit_replay.py (real Batch, recording client, failed submit then retry with
    other limits), which is also run as a BOUNDED stand-in on the unchanged tree."""
    tree = ast.parse(core.read_repo(PATH))
    cls = [n for n in tree.body if isinstance(n, ast.ClassDef) and n.name == 'Batch']
    if not cls:
        raise core.Undecided('anchor-moved: class Batch not found')
    methods = {n.name: n for n in cls[0].body if isinstance(n, (ast.FunctionDef, ast.AsyncFunctionDef))}
    for need in ('_submit', 'submit', '_create_bunches'):
        if need not in methods:
            raise core.Undecided('anchor-moved: Batch.%s not found' % need)
    sub, top, cb = methods['_submit'], methods['submit'], methods['_create_bunches']
    ctx.under_contract(PATH, 'Batch._submit')
    ctx.under_contract(PATH, 'Batch.submit')
    senders = {}
    for name, m in methods.items():
        if name == '_create_bunches':
            continue
        ps = [a.arg for a in m.args.posonlyargs + m.args.args + m.args.kwonlyargs if a.annotation is not None and 'SpecBytes' in ast.unparse(a.annotation)]
        if ps:
            senders[name] = ps
    params = [a.arg for a in sub.args.posonlyargs + sub.args.args + sub.args.kwonlyargs]
    problems = []
    seen = 0
    limit_params = None

    def origin(name, before, depth=0):
        """the `_create_bunches` call that the local `name` stands for, or a reason why not"""
        bs = _bindings(sub, name)
        if name in params:
            return None, '%s is a parameter of _submit, not computed by this call' % name
        if len(bs) != 1:
            return None, 'local %s has %d bindings in _submit (exactly one expected)' % (name, len(bs))
        stmt = [x for x in sub.body if isinstance(x, (ast.Assign, ast.AnnAssign)) and any(t is bs[0] for t in (x.targets if isinstance(x, ast.Assign) else [x.target]))]
        if not stmt:
            return None, 'the binding of %s (line %d) is not an unconditional top-level assignment of _submit' % (name, bs[0].lineno)
        if stmt[0].end_lineno >= before:
            return None, 'the binding of %s (line %d) does not precede the request at line %d' % (name, bs[0].lineno, before)
        v = stmt[0].value
        if isinstance(v, ast.Name) and depth < 8:
            return origin(v.id, stmt[0].lineno, depth + 1)
        if isinstance(v, ast.Call) and ast.unparse(v.func) == 'self._create_bunches':
            return v, None
        return None, '%s = %s (line %d) is not a call of self._create_bunches' % (name, ast.unparse(v)[:80] if v is not None else None, stmt[0].lineno)

    for x in ast.walk(sub):
        if not (isinstance(x, ast.Call) and isinstance(x.func, ast.Attribute) and isinstance(x.func.value, ast.Name) and x.func.value.id == 'self' and x.func.attr in senders):
            continue
        amap = _call_args(x, methods[x.func.attr])
        if amap is None:
            problems.append('line %d: star-arguments in %s' % (x.lineno, ast.unparse(x)[:80]))
            continue
        for pn in senders[x.func.attr]:
            seen += 1
            a = amap.get(pn)
            base = a.value if isinstance(a, ast.Subscript) and isinstance(a.slice, ast.Constant) else a
            if not isinstance(base, ast.Name):
                problems.append('line %d: %s gets %s, not a local computed by this call' % (x.lineno, x.func.attr, ast.unparse(a) if a is not None else None))
                continue
            call, why = origin(base.id, x.lineno)
            if call is None:
                problems.append('line %d: %s(%s): %s' % (x.lineno, x.func.attr, ast.unparse(a), why))
                continue
            cmap = _call_args(call, cb) or {}
            got = {k: ast.unparse(v) for k, v in cmap.items()}
            if got.get('job_group_specs') != 'self._job_group_specs' or got.get('job_specs') != 'self._job_specs':
                problems.append('line %d: bunches are not computed from the pending specs: %s' % (call.lineno, got))
            lp = (got.get('max_bunch_bytesize'), got.get('max_bunch_size'))
            for q in lp:
                if q not in params or _bindings(sub, q):
                    problems.append('line %d: limit argument %s of _create_bunches is not an unmodified parameter of _submit' % (call.lineno, q))
            if limit_params is None:
                limit_params = lp
            elif limit_params != lp:
                problems.append('line %d: limits %s differ from %s' % (call.lineno, lp, limit_params))
    # nothing else in _submit may reach the wire with specs: spec-carrying requests are made by the senders only
    for x in ast.walk(sub):
        if isinstance(x, ast.Attribute) and x.attr in ('_post', '_patch', '_submit_spec_bunch'):
            problems.append('line %d: _submit talks to the server directly (%s)' % (x.lineno, ast.unparse(x)))
    ok = not problems and seen > 0
    o = core.decided('_submit/spec-requests-are-built-from-bunches-of-this-call-with-this-calls-limits', ok, '; '.join(problems) or '%d sender arguments traced to one _create_bunches call with limits %s' % (seen, limit_params,), kind='scan')
    ctx.add(o)
    # submit -> _submit: the caller's limits arrive unchanged
    if limit_params is None:
        # the tracing above failed: which parameters of _submit are the limits is still read off its _create_bunches call(s)
        cands = set()
        for x in ast.walk(sub):
            if isinstance(x, ast.Call) and ast.unparse(x.func) == 'self._create_bunches':
                got = {k: ast.unparse(v) for k, v in (_call_args(x, cb) or {}).items()}
                cands.add((got.get('max_bunch_bytesize'), got.get('max_bunch_size')))
        if len(cands) == 1 and all(q in params for q in list(cands)[0]):
            limit_params = list(cands)[0]
    problems2 = []
    calls = [x for x in ast.walk(top) if isinstance(x, ast.Call) and ast.unparse(x.func) == 'self._submit']
    tparams = [a.arg for a in top.args.posonlyargs + top.args.args + top.args.kwonlyargs]
    for x in calls:
        amap = _call_args(x, sub) or {}
        for formal, actual in zip(limit_params or (None, None), ('max_bunch_bytesize', 'max_bunch_size')):
            if formal not in params:
                continue  # reported by the obligation above
            a = amap.get(formal)
            if not (isinstance(a, ast.Name) and a.id == actual and actual in tparams and not _bindings(top, actual)):
                problems2.append('line %d: _submit parameter %s gets %s, not submit\'s unmodified %s' % (x.lineno, formal, ast.unparse(a) if a is not None else None, actual))
    ok2 = bool(calls) and not problems2 and limit_params is not None
    o2 = core.decided('submit/limits-of-the-call-reach-_submit-unchanged', ok2, '; '.join(problems2) or '%d calls' % len(calls), kind='scan')
    ctx.add(o2)
    if not (ok and ok2):
        # replay on the real code: the obligations are decided on the AST; the failing input (if the scenarios reach one) goes into the evidence
        r = _submit_native()
        for ob in (o, o2):
            if ob.status == 'failed':
                ob.info['__replay__'] = r
        ctx.extra['submit_native_replay'] = r
    else:
        r = _submit_native()
        if 'error' in r:
            raise core.CheckerBug('c19_submit_replay.py failed: %s' % (r.get('stderr') or r.get('error'))[-400:])
        ctx.bounded_standin('submit-retry-scenarios', 'real Batch against a recording client: %s two-call scenarios (first call succeeds or is rejected on its first spec request, second call with other limits, 0..2 groups, 1..9 jobs, 4 limit pairs each)' % r.get('scenarios'), r.get('scenarios', 0), not r.get('confirmed'), json.dumps(r, default=str)[:600])


def make_replayer(eng):
    def replay(model, obl):
        if model is None:
            return None
        jg = pyvc.concretize(model, eng.inputs['job_group_specs'])
        js = pyvc.concretize(model, eng.inputs['job_specs'])
        if jg is None or js is None:
            return None
        W = eng.ufs.get('W')
        mb = pyvc.concretize(model, eng.inputs['max_bunch_bytesize'])
        ms = pyvc.concretize(model, eng.inputs['max_bunch_size'])
        sizes = []
        for i in range(len(jg) + len(js)):
            w = model.eval(W(i), model_completion=True)
            sizes.append(max(0, w.as_long()) if z3.is_int_value(w) else 1)
        payload = {'n_groups': len(jg), 'sizes': sizes, 'max_bytes': mb, 'max_size': ms}
        out = core.run_native(REPLAY, payload)
        out['input'] = payload
        return out

    return replay


REPLAY = r'''
import sys, json, os, ast, enum
p = json.load(sys.stdin)
src = open(os.path.join(os.environ['VERIF_REPO'], 'hail/python/hailtop/batch_client/aioclient.py')).read()
tree = ast.parse(src)
keep = []
for n in tree.body:
    if isinstance(n, ast.ClassDef) and n.name in ('SpecType', 'SpecBytes'):
        keep.append(n)
    if isinstance(n, ast.ClassDef) and n.name == 'Batch':
        n.body = [m for m in n.body if isinstance(m, ast.FunctionDef) and m.name == '_create_bunches']
        n.bases = []
        keep.append(n)
class _Orjson:
    @staticmethod
    def dumps(spec):
        # exactly spec['n'] bytes on the wire; 'utf8' fills with two-byte characters (orjson emits raw UTF-8, so real specs
        # with non-ASCII text have more bytes than characters)
        if spec.get('fill') == 'utf8':
            return ('\u00e9' * (spec['n'] // 2) + 'x' * (spec['n'] % 2)).encode('utf-8')
        return b'x' * spec['n']
import typing
ns = {k: getattr(typing, k) for k in typing.__all__}
ns.update({'Enum': enum.Enum, 'orjson': _Orjson, '__name__': 'replay'})
exec(compile(ast.Module(body=keep, type_ignores=[]), 'aioclient-extract', 'exec'), ns)
Batch = ns['Batch']; SpecType = ns['SpecType']
def check(p):
    sizes = p['sizes']; ng = p['n_groups']; fill = p.get('fill', 'ascii')
    groups = [{'n': s, 'i': i, 'fill': fill} for i, s in enumerate(sizes[:ng])]
    jobs = [{'n': s, 'i': ng + i, 'fill': fill} for i, s in enumerate(sizes[ng:])]
    try:
        bunches = Batch._create_bunches(None, groups, jobs, p['max_bytes'], p['max_size'])
    except AssertionError as e:
        legit = p['max_bytes'] <= 0 or p['max_size'] <= 0 or any(s >= p['max_bytes'] for s in sizes)
        return {'confirmed': not legit, 'raised': 'AssertionError', 'problems': [] if legit else ['AssertionError on an input that satisfies the documented preconditions']}
    flat = [s for b in bunches for s in b]
    problems = []
    if [len(s.spec_bytes) for s in flat] != sizes: problems.append('concatenation differs from the specs in order')
    if [s.typ for s in flat] != [SpecType.JOB_GROUP] * ng + [SpecType.JOB] * (len(sizes) - ng): problems.append('types/order wrong')
    for j, b in enumerate(bunches):
        if len(b) == 0: problems.append('bunch %d empty' % j)
        if len(b) > p['max_size']: problems.append('bunch %d has %d specs > %d' % (j, len(b), p['max_size']))
        if sum(len(s.spec_bytes) for s in b) > p['max_bytes']: problems.append('bunch %d has %d bytes > %d' % (j, sum(len(s.spec_bytes) for s in b), p['max_bytes']))
        if any(s.n_bytes != len(s.spec_bytes) for s in b): problems.append('n_bytes != len(spec_bytes)')
    return {'confirmed': bool(problems), 'problems': problems, 'bunch_sizes': [[len(s.spec_bytes) for s in b] for b in bunches]}
if p.get('search'):
    import itertools
    res = {'confirmed': False, 'searched': 0}
    n = 0
    done = False
    # sizes include specs AT and ABOVE every byte limit tried (5 and 8 against 4, 5, 7): an oversized spec must be refused with
    # the documented AssertionError wherever it stands, never packed; both fillings (bytes == characters, bytes > characters)
    for fill in ('ascii', 'utf8'):
        for L in range(0, 5):
            for sizes in itertools.product((0, 1, 2, 3, 5, 8), repeat=L):
                for ng in range(0, L + 1):
                    for mb in (4, 5, 7):
                        for ms in (1, 2, 3):
                            n += 1
                            q = {'n_groups': ng, 'sizes': list(sizes), 'max_bytes': mb, 'max_size': ms, 'fill': fill}
                            r = check(q)
                            if r['confirmed']:
                                r['input'] = q; r['searched'] = n; res = r; done = True
                            if done: break
                        if done: break
                    if done: break
                if done: break
            if done: break
        if done: break
    if not done: res['searched'] = n
else:
    res = check(p)
print(json.dumps(res))
'''


def native_witness(ctx):
    """concrete search on the real code, usable when the contracts no longer apply to a changed source (vc/check.py)"""
    return core.run_native(REPLAY, {'search': True})


def build(ctx):
    for c in specbytes_contracts():
        pyvc.Engine(ctx, c).run()
    specbytes_class(ctx)
    eng = pyvc.Engine(ctx, contract())
    eng.replayer = make_replayer(eng)
    eng.run()
    eng2 = pyvc.Engine(ctx, open_bunch_contract())
    eng2.replayer = make_replayer(eng2)
    eng2.run()
    ctx.witness_search = lambda: core.run_native(REPLAY, {'search': True})
    _filters(ctx)
    _submit_call_site(ctx)
    ctx.assume('orjson.dumps is an uninterpreted function of the spec (only the length of its result matters)')
    ctx.assume('class SpecBytes is modelled by a constructor UF whose axioms are exactly the postconditions proved for SpecBytes.__init__ and SpecBytes.n_bytes')
    ctx.assume('P and W are definitional spec functions (prefix sums of the byte sizes); their defining axioms are assumed, being a definition by recursion on naturals')
    ctx.assume('bytes.decode(utf-8) is an uninterpreted text whose number of characters is between 0 and the number of bytes (SpecBytes class contract)')
    ctx.assume('Batch._submit / Batch.submit: the call-site clause is decided by def-use on the AST (single unconditional binding, plain copies); aliasing through containers or attributes is rejected, not analysed')
    ctx.assume('meta-lemma L5: a list of adjacent slices [st[j], st[j+1]) with st[0]=0, st[m]=n concatenates to the original list')
