"""Native witness search for C13 on the real classes (run under /venv/bin/python by core.run_native; VERIF_REPO names the tree).
Stubs: batch.driver.billing_manager (its import pulls in the web stack; ProductVersions is only used by create()) and
hailtop.utils.filter_none (only used by create()); neither is exercised here.  Prints one JSON object: {'confirmed': bool, ...witness...}."""
import itertools, json, os, sys, types

repo = os.environ['VERIF_REPO']
sys.path[:0] = [os.path.join(repo, 'batch')]
for name in ('hailtop', 'hailtop.utils'):  # hailtop needs a generated version module and `rich`; only filter_none is imported (by create(), not exercised)
    m = types.ModuleType(name)
    m.__path__ = []
    sys.modules[name] = m
sys.modules['hailtop.utils'].filter_none = lambda xs: [x for x in xs if x is not None]
for name in ('batch.driver', 'batch.driver.billing_manager'):  # the real module imports the web stack (gear)
    m = types.ModuleType(name)
    m.__path__ = []
    sys.modules[name] = m
sys.modules['batch.driver.billing_manager'].ProductVersions = type('ProductVersions', (), {})
import inspect

import batch.cloud.azure.resources as AZ
import batch.cloud.gcp.resources as GC
from batch.cloud.azure.instance_config import AzureSlimInstanceConfig
from batch.cloud.gcp.instance_config import GCPSlimInstanceConfig
from batch.resources import DynamicSizedDiskResourceMixin, Resource


def concrete(mod):
    return [c for _, c in inspect.getmembers(mod, inspect.isclass) if issubclass(c, Resource) and c.__module__ == mod.__name__ and not inspect.isabstract(c) and '__init__' in c.__dict__]


def instances(cls):
    params = list(inspect.signature(cls.__init__).parameters.values())[1:]
    choices = []
    for p in params:
        if p.annotation is int:
            choices.append([0, 1, 2, 3, 375])
        elif 'Dict' in str(p.annotation):
            choices.append([{d.name: 'az/disk/%s/1' % d.name for d in AZ.azure_disks_by_disk_type['P']}])
        elif p.name == 'disk_type':
            choices.append(['P'])
        else:
            choices.append(['res/%s/1' % p.name])
    for combo in itertools.product(*choices):
        yield cls(*combo), combo


def q(res, job):
    r = res.to_quantified_resource(cpu_in_mcpu=job[0], memory_in_bytes=job[1], worker_fraction_in_1024ths=job[2], external_storage_in_gib=job[3])
    return r


JOBS = [(0, 0, 0, 0), (250, 1024 ** 3, 16, 0), (1000, 3 * 1024 ** 3 + 1024 ** 2, 64, 10), (4000, 15 * 1024 ** 3, 256, 375), (16000, 60 * 1024 ** 3, 1024, 0)]


def check_resources():
    for mod, dispatch in ((GC, GC.gcp_resource_from_dict), (AZ, AZ.azure_resource_from_dict)):
        for cls in concrete(mod):
            for inst, combo in instances(cls):
                d = inst.to_dict()
                try:
                    back = dispatch(json.loads(json.dumps(d)))
                except Exception as e:  # pylint: disable=broad-except
                    return {'confirmed': True, 'what': 'reload raises %r' % e, 'class': cls.__name__, 'ctor_args': repr(combo), 'serialized': d}
                if type(back) is not cls:
                    return {'confirmed': True, 'what': 'reload yields %s' % type(back).__name__, 'class': cls.__name__, 'serialized': d}
                for job in JOBS:
                    a, b = q(inst, job), q(back, job)
                    if a != b:
                        return {'confirmed': True, 'what': 'reloaded resource bills a different quantity', 'class': cls.__name__, 'ctor_args': repr(combo), 'serialized': d, 'job': job, 'original': a, 'reloaded': b}
                if issubclass(cls, DynamicSizedDiskResourceMixin):
                    for job in JOBS:
                        r = q(inst, job[:3] + (0,))
                        if r is not None:
                            return {'confirmed': True, 'what': 'external-storage resource billed without external storage', 'class': cls.__name__, 'job': job, 'billed': r}
                    continue
                for j1, j2 in itertools.product(JOBS, JOBS):
                    w = (j1[0] + j2[0], j1[1] + j2[1], j1[2] + j2[2], 0)
                    r1, r2, rw = q(inst, j1), q(inst, j2), q(inst, w)
                    tot = (r1['quantity'] if r1 else 0) + (r2['quantity'] if r2 else 0)
                    if rw is None or tot > rw['quantity'] or (r1 and r1['quantity'] < 0):
                        return {'confirmed': True, 'what': 'two jobs are billed more than the whole that contains them', 'class': cls.__name__, 'ctor_args': repr(combo), 'job1': j1, 'job2': j2, 'whole': w, 'billed1': r1, 'billed2': r2, 'billed_whole': rw}
    return None


class Probe(Resource):
    """records the arguments quantified_resources hands to a resource"""

    def __init__(self, name, ret):
        self.name = name
        self.ret = ret
        self.seen = []

    def to_quantified_resource(self, cpu_in_mcpu, memory_in_bytes, worker_fraction_in_1024ths, external_storage_in_gib):
        self.seen.append((cpu_in_mcpu, memory_in_bytes, worker_fraction_in_1024ths, external_storage_in_gib))
        return None if self.ret is None else {'name': self.name, 'quantity': self.ret}

    def to_dict(self):
        return {}


def check_fraction():
    from batch.instance_config import InstanceConfig

    class Cfg(InstanceConfig):
        create = worker_type = to_dict = region_for = instance_memory = None

        def __init__(self, cores, job_private, resources):
            self.cores, self.job_private, self.resources = cores, job_private, resources

    def frac(cores, private, cpu):
        p = Probe('p', 1)
        Cfg(cores, private, [p]).quantified_resources(cpu, 1024 * 1024, 0)
        return p.seen[0]

    for cores, private in [(c, False) for c in (1, 2, 4, 8, 16, 32, 64, 128, 256)] + [(c, True) for c in (1, 2, 3, 6, 12, 16, 22, 30, 44, 48, 60, 96, 176, 224, 360, 416)]:
        seen = frac(cores, private, cores * 1000)
        if seen != (cores * 1000, 1024 * 1024, 1024, 0):
            return {'confirmed': True, 'what': 'a job using the whole worker is not billed the whole worker (expected fraction 1024 and unchanged arguments)', 'cores': cores, 'job_private': private, 'arguments_seen_by_the_resource': seen}
        cpus = sorted({250, 500, 1000, 2000, 3000, cores * 250, cores * 500, cores * 1000})
        for a, b in itertools.product(cpus, cpus):
            if a + b <= cores * 1000:
                fa, fb, fab = frac(cores, private, a)[2], frac(cores, private, b)[2], frac(cores, private, a + b)[2]
                if fa < 0 or fa + fb > fab:
                    return {'confirmed': True, 'what': 'fractions of two jobs exceed the fraction of their sum', 'cores': cores, 'job_private': private, 'cpu1': a, 'cpu2': b, 'f1': fa, 'f2': fb, 'f_sum': fab}
    # every non-None quantity returned once, in order
    rs = [Probe('a', 1), Probe('b', None), Probe('c', 3), Probe('d', 0)]
    out = Cfg(4, False, rs).quantified_resources(1000, 1024 * 1024, 5)
    if out != [{'name': 'a', 'quantity': 1}, {'name': 'c', 'quantity': 3}, {'name': 'd', 'quantity': 0}]:
        return {'confirmed': True, 'what': 'quantified_resources does not return exactly the non-None quantities in order', 'returned': out}
    return None


def check_configs():
    gcp = GCPSlimInstanceConfig('n1-standard-8', True, True, 375, 10, False, [GC.GCPComputeResource('compute/n1-preemptible/1'), GC.GCPMemoryResource('memory/n1-preemptible/1'), GC.GCPStaticSizedDiskResource('disk/pd-ssd/1', 10), GC.GCPLocalSSDStaticSizedDiskResource('disk/local-ssd/1', 375), GC.GCPDynamicSizedDiskResource('disk/pd-ssd/1'), GC.GCPIPFeeResource('ip-fee/1024/1'), GC.GCPServiceFeeResource('service-fee/1'), GC.GCPSupportLogsSpecsAndFirewallFees('gcp-support-logs-specs-and-firewall-fees/1'), GC.GCPAcceleratorResource('accelerator/l4-preemptible/us-central1/1', 4)])
    az = AzureSlimInstanceConfig('Standard_D8ds_v4', True, False, 100, 30, False, [AZ.AzureVMResource('az/vm/Standard_D8ds_v4/spot/eastus/1'), AZ.AzureStaticSizedDiskResource('az/disk/E4_LRS/eastus/1', 32), AZ.AzureIPFeeResource('az/ip-fee/1024/1'), AZ.AzureServiceFeeResource('az/service-fee/1')])
    for cfg, cls in ((gcp, GCPSlimInstanceConfig), (az, AzureSlimInstanceConfig)):
        d = json.loads(json.dumps(cfg.to_dict()))
        try:
            back = cls.from_dict(d)
        except Exception as e:  # pylint: disable=broad-except
            return {'confirmed': True, 'what': 'instance config reload raises %r' % e, 'class': cls.__name__, 'serialized': d}
        for f in ('cores', 'job_private'):
            if getattr(back, f) != getattr(cfg, f):
                return {'confirmed': True, 'what': 'reloaded instance config differs in the billing-relevant field %s' % f, 'class': cls.__name__, 'original': getattr(cfg, f), 'reloaded': getattr(back, f), 'serialized': d}
        for job in ((1000, 4 * 1024 ** 3, 0), (cfg.cores * 1000, cfg.instance_memory(), 0), (2000, 1024 ** 3, 20)):
            a, b = cfg.quantified_resources(*job), back.quantified_resources(*job)
            if a != b:
                return {'confirmed': True, 'what': 'reloaded instance config bills different quantities', 'class': cls.__name__, 'job': job, 'original': a, 'reloaded': b}
    return None



def check_memory_share():
    """the memory figure of pool jobs (<cloud>_cores_mcpu_to_memory_bytes): every packing of equal power-of-two requests and every
    pair of requests on every pool machine type of the real tables stays within the worker's memory, whole worker = exactly"""
    import batch.cloud.azure.resource_utils as AZU
    import batch.cloud.gcp.resource_utils as GCU

    pools = []
    for wt, cores_list in GCU.gcp_valid_cores_for_pool_worker_type.items():
        for cores in cores_list:
            mt = GCU.family_worker_type_cores_to_gcp_machine_type(GCU.GCP_MACHINE_FAMILY, wt, cores)
            parts = GCU.gcp_machine_type_to_parts(mt)
            if parts is not None:
                pools.append(('gcp', mt, cores, parts.memory, (lambda wt: lambda mcpu: GCU.gcp_cores_mcpu_to_memory_bytes(mcpu, GCU.GCP_MACHINE_FAMILY, wt))(wt)))
    for wt, cores_list in AZU.azure_valid_cores_from_worker_type.items():
        for cores in cores_list:
            for ssd in (True, False):
                mt = AZU.azure_worker_properties_to_machine_type(wt, cores, ssd)
                parts = AZU.azure_machine_type_to_parts(mt)
                if parts is not None:
                    pools.append(('azure', mt, cores, parts.memory, (lambda wt: lambda mcpu: AZU.azure_cores_mcpu_to_memory_bytes(mcpu, wt))(wt)))
    if not pools:
        return None
    for cloud, mt, cores, memory, helper in pools:
        whole = helper(cores * 1000)
        if whole != memory:
            return {'confirmed': True, 'what': 'a job using the whole worker is not given (and billed) exactly the memory of the worker', 'cloud': cloud, 'machine_type': mt, 'cores': cores, 'worker_memory_bytes': memory, 'memory_of_the_whole_worker_job': whole}
        reqs = [m for m in (250, 500) + tuple(1000 * 2 ** k for k in range(8)) if m <= cores * 1000]
        for m in reqs:
            n = cores * 1000 // m
            if n * helper(m) > memory:
                return {'confirmed': True, 'what': 'jobs packed on one worker are given (and billed) more memory than the whole worker has', 'cloud': cloud, 'machine_type': mt, 'worker_memory_bytes': memory, 'jobs': n, 'mcpu_each': m, 'memory_bytes_each': helper(m), 'total': n * helper(m)}
        for x, y in itertools.product(reqs, reqs):
            if x + y <= cores * 1000 and helper(x) + helper(y) > helper(x + y):
                return {'confirmed': True, 'what': 'memory of two jobs exceeds the memory of one job with their cores', 'cloud': cloud, 'machine_type': mt, 'mcpu1': x, 'mcpu2': y, 'memory1': helper(x), 'memory2': helper(y), 'memory_of_sum': helper(x + y)}
    return None


def check_worker_job():
    """what the worker bills a job: the statements of worker.py Job.__init__ from reading the spec's resources to the
    quantified_resources call, executed from the real source text (worker.py itself cannot be imported: it reads the
    environment and starts clients at import time) with real instance configs"""
    import ast

    from batch.globals import RESERVED_STORAGE_GB_PER_CORE

    src = open(os.path.join(repo, 'batch', 'batch', 'worker', 'worker.py')).read()
    tree = ast.parse(src)
    jobs = [c for c in tree.body if isinstance(c, ast.ClassDef) and c.name == 'Job']
    if not jobs:
        return None
    inits = [n for n in jobs[0].body if isinstance(n, ast.FunctionDef) and n.name == '__init__']
    if not inits:
        return None
    body = inits[0].body
    texts = [ast.unparse(x) for x in body]
    starts = [i for i, t in enumerate(texts) if 'job_spec' in t and 'resources' in t]
    ends = [i for i, t in enumerate(texts) if 'quantified_resources(' in t]
    if not starts or not ends or ends[-1] < starts[0]:
        return None
    code = compile(ast.Module(body=body[starts[0]: ends[-1] + 1], type_ignores=[]), 'worker.py-Job.__init__-fragment', 'exec')

    class J:
        pass

    def job_on(cfg, cloud, cores_mcpu, memory, storage):
        j = J()
        env = {'self': j, 'job_spec': {'resources': {'cores_mcpu': cores_mcpu, 'memory_bytes': memory, 'storage_gib': storage}}, 'instance_config': cfg, 'CLOUD': cloud,
               'is_valid_storage_request': lambda cloud, gib: 10 <= gib, 'RESERVED_STORAGE_GB_PER_CORE': RESERVED_STORAGE_GB_PER_CORE, 'log': None}
        exec(code, env)  # pylint: disable=exec-used
        return j

    def res(job_private, cloud):
        if cloud == 'gcp':
            return GCPSlimInstanceConfig('n1-standard-8', True, False, 100, 10, job_private, [GC.GCPComputeResource('compute/n1-preemptible/1'), GC.GCPMemoryResource('memory/n1-preemptible/1'), GC.GCPStaticSizedDiskResource('disk/pd-ssd/1', 10), GC.GCPStaticSizedDiskResource('disk/pd-ssd/1', 100), GC.GCPDynamicSizedDiskResource('disk/pd-ssd/1'), GC.GCPIPFeeResource('ip-fee/1024/1'), GC.GCPServiceFeeResource('service-fee/1')])
        disks = {d.name: 'az/disk/%s/eastus/1' % d.name for d in AZ.azure_disks_by_disk_type['P']}
        return AzureSlimInstanceConfig('Standard_D8ds_v4', True, False, 100, 30, job_private, [AZ.AzureVMResource('az/vm/Standard_D8ds_v4/spot/eastus/1'), AZ.AzureStaticSizedDiskResource('az/disk/E4_LRS/eastus/1', 32), AZ.AzureDynamicSizedDiskResource('P', 'eastus', disks), AZ.AzureIPFeeResource('az/ip-fee/1024/1'), AZ.AzureServiceFeeResource('az/service-fee/1')])

    for cloud in ('gcp', 'azure'):
        for storage in (0, 10, 100):
            cfg = res(True, cloud)
            cores_mcpu, memory = cfg.cores * 1000, cfg.instance_memory()
            try:
                j = job_on(cfg, cloud, cores_mcpu, memory, storage)
            except Exception:  # the fragment needs names this harness does not provide: no verdict  # pylint: disable=broad-except
                return None
            whole = cfg.quantified_resources(cpu_in_mcpu=cores_mcpu, memory_in_bytes=memory, extra_storage_in_gib=0)
            if getattr(j, 'resources', None) != whole:
                return {'confirmed': True, 'what': 'the job that owns a job-private worker is not billed exactly the whole worker', 'cloud': cloud, 'job_spec_resources': {'cores_mcpu': cores_mcpu, 'memory_bytes': memory, 'storage_gib': storage}, 'billed_to_the_job': getattr(j, 'resources', None), 'whole_worker': whole}
            if getattr(j, 'external_storage_in_gib', None) != 0:
                return {'confirmed': True, 'what': 'external storage attached on a job-private instance', 'cloud': cloud, 'external_storage_in_gib': getattr(j, 'external_storage_in_gib', None)}
            pool = res(False, cloud)
            j = job_on(pool, cloud, 1000, 1024 ** 3, storage)
            want = pool.quantified_resources(1000, 1024 ** 3, storage)
            if getattr(j, 'resources', None) != want or getattr(j, 'external_storage_in_gib', None) != storage:
                return {'confirmed': True, 'what': 'a pool job is not billed the quantities of its spec (cpu, memory, requested external storage)', 'cloud': cloud, 'storage_gib': storage, 'billed': getattr(j, 'resources', None), 'expected': want, 'external_storage_attached': getattr(j, 'external_storage_in_gib', None)}
    return None


res = None
for f in (check_resources, check_fraction, check_configs, check_memory_share, check_worker_job):
    res = f()
    if res:
        break
print(json.dumps(res or {'confirmed': False}))
