"""Native witness search for C33: the codec classes of hail/python/hail/expr/types.py are extracted by AST (the module imports
numpy / pandas / parsimonious / decorator, not installed offline) and exec'd over the REAL hail/utils/byte_reader.py
(ByteReader / ByteWriter, pure stdlib) and the real hail.utils.misc.lookup_bit.  Every value of a battery (plus the candidates
a counter-model suggests: missing patterns, strings) is encoded by the real `_to_encoding`, compared byte for byte with a
reference encoder written from the property statement (little-endian fixed-width primitives, int32 byte-length-prefixed UTF-8,
int32 length + ceil(n/8) missing bytes (bit t of byte k <=> element 8k+t missing) + present elements, structs/tuples without
the length, dicts as int32 length + required (key, value) structs in insertion order), decoded again by the real
`_from_encoding` (from the real bytes and from the reference bytes) and compared with the original.  Prints one JSON object."""
import abc, ast, importlib.util, itertools, json, math, os, struct, sys, types
from collections.abc import Mapping, Sequence
from typing import ClassVar, Union

repo = os.environ['VERIF_REPO']
PY = os.path.join(repo, 'hail', 'python', 'hail')
payload = json.load(sys.stdin) if not sys.stdin.isatty() else {}


def _load(name, path):
    spec = importlib.util.spec_from_file_location(name, path)
    mod = importlib.util.module_from_spec(spec)
    spec.loader.exec_module(mod)
    return mod


br = _load('c33_byte_reader', os.path.join(PY, 'utils', 'byte_reader.py'))


def _real_struct():
    """the real hail.utils.struct.Struct (class extracted by AST; its error-message helpers are only reached on failures)"""
    stree = ast.parse(open(os.path.join(PY, 'utils', 'struct.py')).read())
    sns = {'Mapping': Mapping, 'typecheck': _deco, 'typecheck_method': _deco, 'Dict': dict, 'Any': object, 'get_nice_attr_error': lambda o, i: repr(i), 'get_nice_field_error': lambda o, i: repr(i), 'OrderedDict': dict, 'pprint': None, 'anytype': object, 'nullable': lambda *a, **kw: object, 'oneof': lambda *a, **kw: object, 'sequenceof': lambda *a, **kw: object}
    exec(compile(ast.Module(body=[n for n in stree.body if isinstance(n, ast.ClassDef) and n.name == 'Struct'], type_ignores=[]), 'struct-extract', 'exec'), sns)
    return sns['Struct']


def _deco(*a, **kw):
    return lambda f: f


Struct = _real_struct()
frozendict = _load('c33_frozendict', os.path.join(repo, 'hail', 'python', 'hailtop', 'frozendict.py')).frozendict


class Locus:
    def __init__(self, contig, position, reference_genome='default'):
        self.contig, self.position, self.reference_genome = contig, position, reference_genome

    def __eq__(self, o):
        return isinstance(o, Locus) and (self.contig, self.position, self.reference_genome) == (o.contig, o.position, o.reference_genome)

    def __hash__(self):
        return hash((self.contig, self.position))

    def __repr__(self):
        return 'Locus(%r, %r)' % (self.contig, self.position)


class Interval:
    def __init__(self, start, end, includes_start=True, includes_end=False, point_type=None):
        self.start, self.end, self.includes_start, self.includes_end, self.point_type = start, end, includes_start, includes_end, point_type

    def __eq__(self, o):
        return isinstance(o, Interval) and (self.start, self.end, self.includes_start, self.includes_end) == (o.start, o.end, o.includes_start, o.includes_end)

    def __repr__(self):
        return 'Interval(%r, %r, %r, %r)' % (self.start, self.end, self.includes_start, self.includes_end)


def _real_call():
    """the real hail.genetics.call.Call (class extracted by AST)"""
    ctree = ast.parse(open(os.path.join(PY, 'genetics', 'call.py')).read())
    cns = {'Sequence': Sequence, 'typecheck_method': _deco, 'typecheck': _deco, 'nullable': lambda *a, **kw: object, 'sequenceof': lambda *a, **kw: object, 'anytype': object}
    exec(compile(ast.Module(body=[n for n in ctree.body if isinstance(n, ast.ClassDef) and n.name == 'Call'], type_ignores=[]), 'call-extract', 'exec'), cns)
    return cns['Call']


Call = _real_call()
NA = type('NAType', (), {'__repr__': lambda s: '<NA>'})()
try:
    import numpy as np
except ImportError:  # numpy is not installed under /venv: n-d arrays are not exercised natively
    np = None
ns = {
    'abc': abc, 'math': math, 'Union': Union, 'ClassVar': ClassVar, 'Mapping': Mapping, 'Sequence': Sequence, 'json': json,
    'ByteReader': br.ByteReader, 'ByteWriter': br.ByteWriter,
    'typecheck_method': _deco, 'typecheck': _deco, 'hail_type': object, 'reference_genome_type': object, 'NatBase': int, 'NatLiteral': int,
    'nullable': lambda *a, **kw: object, 'oneof': lambda *a, **kw: object, 'transformed': lambda *a, **kw: object, 'sequenceof': lambda *a, **kw: object,
    'frozenlist': tuple, 'frozendict': frozendict, 'Struct': Struct,
    'pd': types.SimpleNamespace(NA=NA), 'np': np if np is not None else types.SimpleNamespace(ndarray=object, int32=int, int64=int, float32=float, float64=float, bool_=bool),
    'genetics': types.SimpleNamespace(Locus=Locus, Call=Call), '_empty_context': None, '__name__': 'c33_types',
}
misc = ast.parse(open(os.path.join(PY, 'utils', 'misc.py')).read())
exec(compile(ast.Module(body=[n for n in misc.body if isinstance(n, ast.FunctionDef) and n.name == 'lookup_bit'], type_ignores=[]), 'misc-extract', 'exec'), ns)
path = os.path.join(PY, 'expr', 'types.py')
tree = ast.parse(open(path).read())
WANTED = ['HailType', '_tvoid', '_tcall', '_tint32', '_tint64', '_tfloat32', '_tfloat64', '_tstr', '_tbool', 'tarray', 'tset', '_freeze_this_type', 'tdict', 'tstruct', 'ttuple', 'tlocus', 'tinterval']
hl = types.SimpleNamespace(Interval=Interval)
ns['hl'] = hl
for node in tree.body:
    if isinstance(node, ast.ClassDef) and node.name in WANTED:
        exec(compile(ast.Module(body=[node], type_ignores=[]), path, 'exec'), ns)
    if isinstance(node, ast.FunctionDef) and node.name in ('allele_pair', 'allele_pair_sqrt'):
        exec(compile(ast.Module(body=[node], type_ignores=[]), path, 'exec'), ns)
    if isinstance(node, ast.Assign) and isinstance(node.targets[0], ast.Name) and node.targets[0].id in ('_numeric_types', 'small_allele_pair'):
        exec(compile(ast.Module(body=[node], type_ignores=[]), path, 'exec'), ns)
missing_cls = [w for w in WANTED if w not in ns]
if missing_cls:
    print(json.dumps({'confirmed': False, 'harness_error': 'classes not found: %r' % missing_cls}))
    sys.exit(0)
T = {k: ns[c]() for k, c in (('int32', '_tint32'), ('int64', '_tint64'), ('float32', '_tfloat32'), ('float64', '_tfloat64'), ('str', '_tstr'), ('bool', '_tbool'))}
T['call'] = ns['_tcall']()
ns['tvoid'] = ns['_tvoid']()
ns['tcall'] = T['call']
hl.tbool = T['bool']
hl.tstr, hl.tint32 = T['str'], T['int32']


# ---- type descriptors -> real hail types and the reference layout -------------------------------------------------------------

def hail_type(d):
    k = d[0]
    if k in T:
        return T[k]
    if k == 'array':
        return ns['tarray'](hail_type(d[1]))
    if k == 'set':
        return ns['tset'](hail_type(d[1]))
    if k == 'dict':
        return ns['tdict'](hail_type(d[1]), hail_type(d[2]))
    if k == 'struct':
        return ns['tstruct'](**{f: hail_type(t) for f, t in d[1]})
    if k == 'tuple':
        return ns['ttuple'](*[hail_type(t) for t in d[1]])
    if k == 'interval':
        return ns['tinterval'](hail_type(d[1]))
    if k == 'locus':
        return ns['tlocus']('GRCh37')
    raise ValueError(d)


def miss(v):
    return v is None or v is NA


def ref_fields(pairs):
    """missing bytes for the slots, then the present slots in order"""
    n = len(pairs)
    mb = bytearray((n + 7) // 8)
    for i, (_, v) in enumerate(pairs):
        if miss(v):
            mb[i // 8] |= 1 << (i % 8)
    return bytes(mb) + b''.join(ref(t, v) for t, v in pairs if not miss(v))


def ref(d, v):
    k = d[0]
    if k == 'int32':
        return struct.pack('<i', v)
    if k == 'int64':
        return struct.pack('<q', v)
    if k == 'float32':
        return struct.pack('<f', v)
    if k == 'float64':
        return struct.pack('<d', v)
    if k == 'bool':
        return b'\x01' if v else b'\x00'
    if k == 'str':
        b = v.encode('utf-8')
        return struct.pack('<i', len(b)) + b
    if k == 'call':
        # bit-packed call, one int32: bit 0 phased, bits 1-2 ploidy, bits 3.. the allele representation (haploid: the allele;
        # diploid: the VCF index k(k+1)/2 + j of the pair, a phased pair (a, b) being stored as (a, a + b)) - for EVERY ploidy
        al = list(v.alleles)
        rep = 0 if not al else (al[0] if len(al) == 1 else ((al[0] + al[1]) * (al[0] + al[1] + 1) // 2 + al[0] if v.phased else al[1] * (al[1] + 1) // 2 + al[0]))
        x = (int(bool(v.phased)) | (len(al) << 1) | (rep << 3)) & 0xFFFFFFFF
        return struct.pack('<I', x)
    if k in ('array', 'set'):
        xs = list(v)
        return struct.pack('<i', len(xs)) + ref_fields([(d[1], x) for x in xs])
    if k == 'dict':
        kv = ('struct', [('key', d[1]), ('value', d[2])])
        return struct.pack('<i', len(v)) + b''.join(ref(kv, {'key': a, 'value': b}) for a, b in v.items())
    if k == 'struct':
        return ref_fields([(t, v[f]) for f, t in d[1]])
    if k == 'tuple':
        return ref_fields([(t, x) for t, x in zip(d[1], v)])
    if k == 'interval':
        return ref_fields([(d[1], v.start), (d[1], v.end), (('bool',), v.includes_start), (('bool',), v.includes_end)])
    if k == 'locus':
        return ref_fields([(('str',), v.contig), (('int32',), v.position)])
    raise ValueError(d)


def norm(d, v):
    """decoded value -> the plain Python shape of the original (missing -> None)"""
    if miss(v):
        return None
    k = d[0]
    if k == 'array':
        return [norm(d[1], x) for x in v]
    if k == 'set':
        return sorted((norm(d[1], x) for x in v), key=repr)
    if k == 'dict':
        return sorted(((norm(d[1], a), norm(d[2], b)) for a, b in v.items()), key=repr)
    if k == 'struct':
        return {f: norm(t, v[f]) for f, t in d[1]} if set(v) == {f for f, _ in d[1]} else {'<fields>': sorted(v)}
    if k == 'tuple':
        return tuple(norm(t, x) for t, x in zip(d[1], v)) if len(v) == len(d[1]) else ('<arity>', len(v))
    if k == 'interval':
        return ('interval', norm(d[1], v.start), norm(d[1], v.end), bool(v.includes_start), bool(v.includes_end))
    if k == 'locus':
        return ('locus', v.contig, v.position)
    if k == 'call':
        return ('call', list(v.alleles), bool(v.phased)) if isinstance(v, Call) else ('<not a call>', repr(v))
    return v


def check(d, v, what):
    t = hail_type(d)
    rec = {'type': repr(d)[:300], 'value': repr(v)[:300], 'case': what}
    want = ref(d, v)
    try:
        got = t._to_encoding(v)
    except Exception as e:  # pylint: disable=broad-except
        return dict(rec, confirmed=True, what='the front end cannot encode a well-typed value: %r' % (e,))
    if got != want:
        return dict(rec, confirmed=True, what='byte layout differs from the layout the engine expects', front_end_bytes=got.hex(), expected_bytes=want.hex())
    for label, data in (('its own bytes', got), ('the expected bytes', want)):
        try:
            back = t._from_encoding(data)
        except Exception as e:  # pylint: disable=broad-except
            return dict(rec, confirmed=True, what='the front end cannot decode %s: %r' % (label, e), bytes=data.hex())
        if norm(d, back) != norm(d, v):
            return dict(rec, confirmed=True, what='decode(%s) is a different value' % label, decoded=repr(back)[:300], bytes=data.hex())
    return None


frozenlist = tuple  # the stand-in the extracted codecs use for hail.utils.frozenlist (hashable list)


def battery():
    I, S = ('int32',), ('str',)
    for s in payload.get('strings', []) + ['', 'abc', 'hé', '日本語', '\U0001d11e!', 'a\x00b']:
        yield S, s, 'string'
    for d, v in ((I, 0), (I, -1), (I, 2**31 - 1), (I, -2**31), (('int64',), 2**40 + 3), (('int64',), -2**63), (('float64',), 1.5), (('float64',), -0.1), (('float32',), 0.25), (('float32',), -1024.0), (('bool',), True), (('bool',), False)):
        yield d, v, 'primitive'
    # fixed-width values FOLLOWED by more data: a reader that advances by a wrong width is only visible through what comes next
    for d in (('int32',), ('int64',), ('float32',), ('float64',), ('bool',)):
        vals = {'int32': [1, -2, 2**31 - 1], 'int64': [2**40, -1, 5], 'float32': [0.5, -2.0, 8.0], 'float64': [0.1, -2.5, 1e300], 'bool': [True, False, True]}[d[0]]
        yield ('array', d), vals, 'array of fixed-width values'
        yield ('struct', [('a', d), ('b', S), ('c', d)]), {'a': vals[0], 'b': 'né', 'c': vals[1]}, 'fixed-width field followed by others'
        yield ('tuple', [d, d, S]), (vals[2], vals[0], 'z'), 'fixed-width field followed by others'
    pats = [p for p in payload.get('patterns', []) if isinstance(p, list) and len(p) <= 64]
    # missing patterns: every pattern up to 10 slots, then long ones with a missing slot at p and a present one at p + 8k
    for n in range(0, 11):
        for bits in itertools.product((False, True), repeat=n):
            pats.append(list(bits))
    for n in (16, 17, 24, 25, 33):
        for p in range(n):
            pats.append([i == p for i in range(n)])
            pats.append([i != p for i in range(n)])
        pats.append([i % 3 == 0 for i in range(n)])
    seen = set()
    for pat in pats:
        key = tuple(pat)
        if key in seen:
            continue
        seen.add(key)
        n = len(pat)
        yield ('array', I), [None if m else 100 + i for i, m in enumerate(pat)], 'array'
        if n <= 10 or sum(pat) in (1, n - 1):
            if n:
                fs = [('f%d' % i, I if i % 2 == 0 else S) for i in range(n)]
                yield ('struct', fs), {f: (None if m else (7 + i if i % 2 == 0 else 's%dé' % i)) for i, ((f, _), m) in enumerate(zip(fs, pat))}, 'struct'
                yield ('tuple', [t for _, t in fs]), tuple(None if m else (7 + i if i % 2 == 0 else 't%d' % i) for i, m in enumerate(pat)), 'tuple'
        if n in (3, 9, 17):
            yield ('array', S), [None if m else 'x' * (i % 4) + 'ü' for i, m in enumerate(pat)], 'array of strings'
            yield ('array', NA_MARK), pat, 'array with pandas NA'
    yield ('dict', S, I), {}, 'dict'
    yield ('dict', S, I), {'b': 2, 'a': None, 'cé': 3}, 'dict'
    yield ('dict', I, ('array', I)), {i: ([None, i] if i % 2 else None) for i in range(9, -1, -1)}, 'dict'
    yield ('dict', ('struct', [('x', I), ('y', S)]), S), {frozendict({'x': 1, 'y': None}): 'p', frozendict({'x': None, 'y': 'q'}): None}, 'dict with struct keys'
    yield ('set', I), set(), 'set'
    yield ('set', I), {5, 1, 9, 1000, -3, 77, 12, 13, 14, 15}, 'set'
    yield ('set', S), {'a', 'é', ''}, 'set'
    # sets whose elements are containers: elements must come back in their hashable (frozen) form whatever the caller asked for
    yield ('set', ('array', I)), {frozenlist([1, 2]), frozenlist([3])}, 'set of arrays'
    yield ('set', ('tuple', [('array', I), S])), {(frozenlist([1]), 'a'), (frozenlist([]), 'b')}, 'set of tuples holding arrays'
    yield ('array', ('struct', [('s', ('set', ('array', I)))])), [{'s': {frozenlist([7, None])}}, None], 'set of arrays below a struct'
    yield ('array', ('array', I)), [[1, None], None, [], [None] * 9 + [4]], 'nested array'
    yield ('struct', [('a', ('array', S)), ('b', ('struct', [('c', I), ('d', ('tuple', [I, S]))])), ('e', ('dict', S, S))]), {'a': ['x', None], 'b': {'c': None, 'd': (1, None)}, 'e': {'k': 'v'}}, 'nested struct'
    # a struct VALUE is a mapping: its own key order is not part of the value (Struct equality ignores it) - the layout follows
    # the TYPE's field order whatever order the value lists its fields in
    fs3 = [('a', I), ('b', S), ('c', ('float64',))]
    for order in itertools.permutations(range(3)):
        full = {'a': 7, 'b': 'xy', 'c': 2.5}
        holes = {'a': 1, 'b': 'q', 'c': None}
        for src in (full, holes):
            reordered = {fs3[i][0]: src[fs3[i][0]] for i in order}
            yield ('struct', fs3), reordered, 'struct value listing its fields in another order than the type'
            yield ('struct', fs3), Struct(**reordered), 'Struct value listing its fields in another order than the type'
    yield ('array', ('struct', [('x', S), ('n', ('int64',))])), [{'x': 'a', 'n': 1}, {'n': 2, 'x': 'b'}, None, {'n': None, 'x': 'c'}], 'records with arbitrary key order'
    fs9 = [('g%d' % i, I) for i in range(9)]
    yield ('struct', fs9), {f: (None if i in (0, 8) else i) for i, (f, _) in reversed(list(enumerate(fs9)))}, 'struct value in reverse field order, two missing-bit bytes'
    # bit-packed calls: every ploidy, phased and unphased (the phase bit is bit 0 for EVERY ploidy)
    C = ('call',)
    for ph in (False, True):
        yield C, Call([], phased=ph), 'call of ploidy 0'
        for a in (0, 1, 5, 65535, 65536, (1 << 28) - 1):
            yield C, Call([a], phased=ph), 'haploid call'
    for k in (0, 1, 2, 3, 7, 44, 45, 46, 255, 1000, 23170, 32767):
        for j in sorted({0, 1, k // 2, max(k - 1, 0), k}):
            if j <= k and k * (k + 1) // 2 + j < (1 << 28):
                yield C, Call([j, k]), 'unphased diploid call'
                yield C, Call([j, k - j], phased=True), 'phased diploid call'
    yield ('array', C), [Call([1], phased=True), None, Call([0, 1]), Call([], phased=True), Call([2, 1], phased=True)], 'array of calls'
    yield ('struct', [('GT', C), ('DP', I)]), {'GT': Call([0], phased=True), 'DP': 3}, 'struct holding a call'
    yield ('interval', I), Interval(1, 5, True, False), 'interval'
    yield ('interval', I), Interval(None, 5, False, True), 'interval'
    yield ('interval', ('locus',)), Interval(Locus('1', 100, 'GRCh37'), Locus('X', 5, 'GRCh37'), True, True), 'interval of loci'
    yield ('locus',), Locus('chré1', 12345, 'GRCh37'), 'locus'
    yield ('array', ('locus',)), [Locus('1', 1, 'GRCh37'), None, Locus('2', 2, 'GRCh37')], 'array of loci'


NA_MARK = ('int32',)


def execute_cases():
    """the real Backend.execute (function extracted by AST from hail/backend/backend.py) over a stand-in engine that answers
    with the bytes of the value in the engine layout: the value must come back for every non-void type - also when its
    encoding has zero bytes (struct{} / tuple()) -, None only for void"""
    btree = ast.parse(open(os.path.join(PY, 'backend', 'backend.py')).read())
    cls = [n for n in btree.body if isinstance(n, ast.ClassDef) and n.name == 'Backend']
    fns = [n for n in cls[0].body if isinstance(n, ast.FunctionDef) and n.name == 'execute'] if cls else []
    if not fns:
        return {'harness_error': 'Backend.execute not found'}
    fn = fns[0]
    fn.decorator_list = []
    fn.returns = None
    for a in fn.args.args + fn.args.kwonlyargs:
        a.annotation = None

    class FatalError(Exception):
        pass

    ens = {'ExecutePayload': lambda *a, **kw: ('payload', a, kw), 'ActionTag': types.SimpleNamespace(EXECUTE='EXECUTE'), 'FatalError': FatalError, 'tvoid': ns['tvoid'], 'Any': object}
    exec(compile(ast.Module(body=[fn], type_ignores=[]), 'backend-extract', 'exec'), ens)
    I, S = ('int32',), ('str',)
    cases = [
        (('struct', []), {}), (('tuple', []), ()), (('struct', [('a', I)]), {'a': 5}), (('tuple', [I]), (None,)), (('tuple', [('struct', [])]), ({},)),
        (('array', ('struct', [])), [{}, {}]), (('array', I), []), (S, ''), (I, 0), (('bool',), False), (('dict', S, I), {}),
    ]
    n = 0
    for d, v in cases:
        t = hail_type(d)
        data = ref(d, v)
        for timed in (False, True):
            n += 1
            rec = {'type': repr(d), 'value': repr(v), 'case': 'Backend.execute(ir of that type%s), the engine answering with the %d byte(s) %s' % (', timed=True' if timed else '', len(data), data.hex())}
            be = types.SimpleNamespace(functions=[], _render_ir=lambda ir: 'rendered', _rpc=lambda action, payload, data=data: (data, {'t': 1}))
            try:
                got = ens['execute'](be, types.SimpleNamespace(typ=t), timed=timed)
            except Exception as e:  # pylint: disable=broad-except
                return dict(rec, confirmed=True, what='Backend.execute cannot decode the answer of the engine: %r' % (e,), cases=n, input={'type': rec['type'], 'value': rec['value'], 'engine_bytes': data.hex()})
            val = got[0] if (timed and isinstance(got, tuple) and len(got) == 2) else got
            if (timed and not (isinstance(got, tuple) and len(got) == 2 and got[1] == {'t': 1})) or val is None or norm(d, val) != norm(d, v):
                return dict(rec, confirmed=True, what='Backend.execute returns another value than the one the engine sent', returned=repr(got), cases=n, input={'type': rec['type'], 'value': rec['value'], 'engine_bytes': data.hex()})
    be = types.SimpleNamespace(functions=[], _render_ir=lambda ir: 'rendered', _rpc=lambda action, payload: (b'', None))
    n += 1
    got = ens['execute'](be, types.SimpleNamespace(typ=ns['tvoid']))
    if got is not None:
        return {'confirmed': True, 'what': 'Backend.execute returns a value for an IR of type void', 'returned': repr(got), 'cases': n, 'input': {'type': 'void'}}
    return {'confirmed': False, 'cases': n}


def main():
    res = {'confirmed': False, 'cases': 0}
    for d, v, what in battery():
        if what == 'array with pandas NA':
            # pandas NA marks a missing element exactly like None (and decodes as None)
            v = [NA if m else 5 for m in v]
        r = check(d, v, what)
        res['cases'] += 1
        if r is not None:
            r['cases'] = res['cases']
            r['input'] = {'type': r['type'], 'value': r['value']}
            res = r
            break
    if not res.get('confirmed'):
        try:
            ex = execute_cases()
        except Exception as e:  # pylint: disable=broad-except
            ex = {'harness_error': 'Backend.execute battery: %r' % (e,)}
        if ex.get('confirmed'):
            ex['cases'] += res['cases']
            res = ex
        elif 'harness_error' in ex:
            res['execute_harness_error'] = ex['harness_error']
        else:
            res['cases'] += ex['cases']
            res['execute_cases'] = ex['cases']
    # the n-d array fast path must stay dead: instances of the numeric types are never members of the set of their classes
    res['ndarray_numeric_fast_path_live_for'] = [k for k in ('bool', 'int32', 'int64', 'float32', 'float64') if T[k] in ns['_numeric_types']]
    print(json.dumps(res, default=repr))


main()
