"""Native replay for C04 (Python side): the REAL coroutine batch.driver.job.mark_job_complete of the tree under test (its text is
cut out of batch/batch/driver/job.py and compiled unchanged apart from dropped parameter annotations; names it imports from
batch/batch/globals.py come from executing the real globals.py) is run against a fake database that answers the CALL with every
result row the stored procedure can produce, for every reported terminal state and instance situation (bounded enumeration:
3 rc values x 8 old states x 4 new states x 6 instance situations x 2, minus rc = 0 for a Pending job: 1104 calls).
Oracle, written from the property: the completion effects (batch callback, job-group callback, killing the job-private
instance) happen only when the row says that THIS call completed the job (rc = 0 and a non-terminal old_state), each at most
once, and the procedure is called exactly once.
stdin JSON: {}.  Prints one JSON object: {'confirmed': bool, 'what': ..., 'input': ..., 'observed': ...}."""
import ast
import asyncio
import itertools
import json
import os
import sys

REPO = os.environ['VERIF_REPO']
TERMINAL = ('Success', 'Failed', 'Error', 'Cancelled')
STATES = ('Pending', 'Ready', 'Creating', 'Running') + TERMINAL


class _Log:
    def __getattr__(self, n):
        return lambda *a, **k: None


class _Signal:
    def notify(self):
        pass

    def set(self):
        pass


def load():
    src = open(os.path.join(REPO, 'batch/batch/driver/job.py')).read()
    tree = ast.parse(src)
    fn = [n for n in tree.body if isinstance(n, ast.AsyncFunctionDef) and n.name == 'mark_job_complete'][-1]
    for a in fn.args.posonlyargs + fn.args.args + fn.args.kwonlyargs:
        a.annotation = None
    fn.returns = None
    fn.decorator_list = []
    ns = {'__name__': 'c04_replay_job'}
    g = {}
    exec(compile(open(os.path.join(REPO, 'batch/batch/globals.py')).read(), 'globals.py', 'exec'), g)
    for n in tree.body:
        if isinstance(n, ast.ImportFrom) and n.level == 2 and n.module == 'globals':
            for al in n.names:
                ns[al.asname or al.name] = g[al.name]
    mod = ast.Module(body=[fn], type_ignores=[])
    ast.fix_missing_locations(mod)
    exec(compile(mod, 'job.py::mark_job_complete', 'exec'), ns)
    return ns


def scenario(ns, rc, old_state, new_state, inst, marked):
    """inst: None (no instance name) | 'unknown' | (is_pool, state)"""
    ev = {'db_calls': 0, 'batch_callbacks': 0, 'group_callbacks': 0, 'kills': 0, 'sent_new_state': None}

    class Db:
        async def execute_and_fetchone(self, sql, args=None, query_name=None):
            assert sql.strip().upper().startswith('CALL MARK_JOB_COMPLETE'), sql
            ev['db_calls'] += 1
            ev['sent_new_state'] = args[4]
            if rc == 0:
                return {'rc': 0, 'old_state': old_state, 'delta_cores_mcpu': 0}
            if rc == 2:
                return {'rc': 2, 'expected_attempt_id': 'other', 'delta_cores_mcpu': 0, 'message': 'stale'}
            return {'rc': 1, 'cur_job_state': old_state, 'delta_cores_mcpu': 0, 'message': 'not live'}

    class InstColl:
        is_pool = bool(inst[0]) if isinstance(inst, tuple) else True

    class Instance:
        state = inst[1] if isinstance(inst, tuple) else 'active'
        inst_coll = InstColl()

        def adjust_free_cores_in_memory(self, d):
            pass

        async def kill(self):
            ev['kills'] += 1

    class Manager:
        def get_instance(self, name):
            return Instance() if isinstance(inst, tuple) else None

    class Driver:
        inst_coll_manager = Manager()

    class Tasks:
        def ensure_future(self, coro):
            # the real BackgroundTaskManager schedules the coroutine: run it now
            pending.append(coro)

    pending = []

    class App(dict):
        def __missing__(self, k):
            return None

    async def nb(db, client_session, batch_id):
        ev['batch_callbacks'] += 1

    async def ng(db, client_session, batch_id, job_group_id):
        ev['group_callbacks'] += 1

    async def aar(*a, **k):
        pass

    ns.update(log=_Log(), time_msecs=lambda: 1000, json=json, asyncio=asyncio, notify_batch_job_complete=nb, notify_job_group_on_job_complete=ng, add_attempt_resources=aar)
    ns['CommonAiohttpAppKeys'] = type('K', (), {'CLIENT_SESSION': 'client_session'})
    app = App(scheduler_state_changed=_Signal(), cancel_ready_state_changed=_Signal(), db=Db(), driver=Driver(), task_manager=Tasks(), client_session=None)

    async def go():
        await ns['mark_job_complete'](app, 1, 1, 'att', 0, None if inst is None else 'inst-1', new_state, None, 0, 1, 'completed', [], marked_job_started=marked)
        for c in pending:
            await c

    err = None
    try:
        asyncio.run(go())
    except Exception as e:  # an exception is not a completion effect; what was done before it still counts
        err = '%s: %s' % (type(e).__name__, e)
    return ev, err


def main():
    json.load(sys.stdin)
    ns = load()
    insts = [None, 'unknown', (True, 'active'), (False, 'active'), (False, 'inactive'), (True, 'inactive')]
    n = 0
    for rc, old_state, new_state, inst, marked in itertools.product((0, 1, 2), STATES, TERMINAL, insts, (False, True)):
        if rc == 0 and old_state == 'Pending':
            continue  # the procedure answers rc = 1 for a Pending job
        n += 1
        ev, err = scenario(ns, rc, old_state, new_state, inst, marked)
        completed = rc == 0 and old_state not in TERMINAL
        effects = ev['batch_callbacks'] + ev['group_callbacks'] + ev['kills']
        bad = None
        if effects and not completed:
            bad = 'completion effects for a report that did not complete the job'
        elif max(ev['batch_callbacks'], ev['group_callbacks'], ev['kills']) > 1:
            bad = 'a completion effect happened more than once'
        elif err is None and ev['db_calls'] != 1:
            bad = 'the procedure was not called exactly once'
        elif ev['db_calls'] >= 1 and ev['sent_new_state'] != new_state:
            bad = 'the procedure was called with another state than the reported one'
        if err is not None and bad is None:
            # the fake environment never fails by itself: an exception means the harness does not fit the code any more
            print(json.dumps({'confirmed': False, 'error': 'harness: ' + err, 'scenarios_run': n}))
            return
        if bad:
            print(json.dumps({'confirmed': True, 'what': bad, 'input': {'rc': rc, 'old_state': old_state, 'new_state': new_state, 'instance': inst, 'marked_job_started': marked}, 'observed': ev, 'exception': err, 'scenarios_run': n}))
            return
    print(json.dumps({'confirmed': False, 'scenarios_run': n}))


main()
