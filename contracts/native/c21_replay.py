"""Native scenarios for C21 on the REAL hailtop.utils.utils / hailtop.httpx of the tree under test (nothing of the repository is
stubbed; missing third-party packages are, see stubimport).
stdin JSON: {'which': ['chain', 'body']} (default both).  Prints one JSON object {'confirmed': bool, 'what': ..., 'input': ...}
for the first failing scenario.

chain: an error is classified by its own class/fields and by its EXPLICIT cause chain only - a permanent error raised while a
       transient (or limited-retry) one is being handled is permanent, and the retry helpers raise it after one call.
body:  the ClientResponseError raised by ClientSession.request for a status >= 400 carries the WHOLE decoded response body, so a
       rate-limit / limited-retry marker anywhere in the body is seen by the classifiers and the request is retried."""
import asyncio
import errno
import json
import sys
import time as real_time

from contracts.native import stubimport

stubimport.install()
import importlib  # noqa: E402

for _m in ('requests.exceptions', 'urllib3.exceptions', 'botocore.exceptions', 'aiodocker.exceptions'):
    # where the package is a stub, make `pkg.exceptions` a (stub) module whose attributes are classes, as the classifiers expect
    importlib.import_module(_m)
p = json.load(sys.stdin)
which = p.get('which') or ['chain', 'body']
res = {'confirmed': False, 'ran': []}


def fail(what, inp):
    if not res['confirmed']:
        res.update({'confirmed': True, 'what': what, 'input': inp})


class _NoSleep:
    def __init__(self, real, is_async):
        self.real = real
        self.sleeps = []
        if is_async:

            async def sleep(secs):
                self.sleeps.append(secs)

        else:

            def sleep(secs):
                self.sleeps.append(secs)

        self.sleep = sleep

    def __getattr__(self, name):
        return getattr(self.real, name)


class Permanent(Exception):
    pass


def _while_handling(first, then, how):
    """the exception object `then` as Python leaves it when raised while `first` is being handled"""
    try:
        try:
            raise first
        except BaseException as f:
            if how == 'implicit':
                raise then
            if how == 'from':
                raise then from f
            raise then from None
    except BaseException as e:
        return e


def run_helpers(U, make_error):
    """(helper, outcome, calls) for both retry helpers on an operation whose first call raises make_error(), later calls succeed"""
    out = []
    for kind in ('async', 'sync'):
        calls = []

        def op_sync():
            calls.append(1)
            if len(calls) == 1:
                raise make_error()
            return 'done'

        async def op_async():
            return op_sync()

        if kind == 'async':
            fake = _NoSleep(asyncio, True)

            async def main():
                U.asyncio = fake
                try:
                    return ('returned', await U.retry_transient_errors(op_async))
                except Exception as e:  # pylint: disable=broad-except
                    return ('raised', type(e).__name__)
                finally:
                    U.asyncio = asyncio

            outcome = asyncio.run(main())
        else:
            fake = _NoSleep(real_time, False)
            U.time = fake
            try:
                outcome = ('returned', U.sync_retry_transient_errors(op_sync))
            except Exception as e:  # pylint: disable=broad-except
                outcome = ('raised', type(e).__name__)
            finally:
                U.time = real_time
        out.append((kind, outcome, len(calls)))
    return out


if 'chain' in which:
    from hailtop.utils import utils as U  # noqa: E402

    res['ran'].append('chain')
    transient = {
        'asyncio.TimeoutError': lambda: asyncio.TimeoutError(),
        'OSError(ECONNRESET)': lambda: OSError(errno.ECONNRESET, 'Connection reset by peer'),
        'TransientError': lambda: U.TransientError(),
    }
    limited = {'ConnectionRefusedError': lambda: ConnectionRefusedError(errno.ECONNREFUSED, 'refused')}
    for name, mk in list(transient.items()) + list(limited.items()):
        for clf in ('is_transient_error', 'is_limited_retries_error', 'is_rate_limit_error'):
            f = getattr(U, clf)
            own = f(mk())
            # controls: the plain permanent error is permanent; an explicit cause is followed exactly as far as the classifier
            # follows causes (rate-limit does not)
            if f(Permanent('x')):
                fail('%s classifies a plain error of an unknown class positively' % clf, {'error': 'Permanent()'})
            for how in ('implicit', 'from None'):
                e = _while_handling(mk(), Permanent('cannot resume'), how)
                assert e.__cause__ is None and (how == 'from None' or e.__context__ is not None)
                if f(e):
                    fail(
                        '%s follows the implicit exception context: a permanent error raised while a %s was being handled is classified positively' % (clf, name),
                        {'classifier': clf, 'error': 'Permanent()', 'raised': 'inside `except` handling %s, %s' % (name, 'no `from`' if how == 'implicit' else '`from None`'), '__cause__': None, '__context__': name if how == 'implicit' else name + ' (suppressed)', 'result': True, 'required': False},
                    )
            if clf != 'is_rate_limit_error':
                e = _while_handling(mk(), Permanent('wrapped'), 'from')
                if f(e) != own:
                    fail('%s does not follow the explicit cause' % clf, {'classifier': clf, 'error': 'Permanent() from %s' % name, 'result': f(e), 'required': own})
    # the helpers themselves: one call, the permanent error comes out
    for name, mk in transient.items():
        for kind, outcome, calls in run_helpers(U, lambda mk=mk: _while_handling(mk(), Permanent('cannot resume'), 'implicit')):
            if (outcome, calls) != (('raised', 'Permanent'), 1):
                fail(
                    'a permanent error raised while a transient one was being handled is retried',
                    {'helper': kind, 'first_call_raises': 'Permanent() inside `except` handling %s (no `from`)' % name, 'outcome': list(outcome), 'calls': calls, 'required': [['raised', 'Permanent'], 1]},
                )

if 'classes' in which:
    # "raise any other error immediately": over the FINITE set of builtin exception classes (errno-less instances), a class that the
    # real classifiers count as limited-retry and not transient must be one of the two the module documents (connection reset /
    # refused by the peer); for every other such class the helpers must call the operation exactly once.
    import builtins  # noqa: E402

    from hailtop.utils import utils as U  # noqa: E402

    res['ran'].append('classes')
    documented = {'ConnectionResetError', 'ConnectionRefusedError'}
    for cname in sorted(dir(builtins)):
        cls = getattr(builtins, cname)
        if not (isinstance(cls, type) and issubclass(cls, Exception)) or cname in documented:
            continue
        try:
            probe = cls()
        except Exception:
            continue
        if U.is_transient_error(probe) or U.is_rate_limit_error(probe):
            continue
        res['classes_probed'] = res.get('classes_probed', 0) + 1
        for kind, outcome, calls in run_helpers(U, lambda cls=cls: cls()):
            if kind.startswith('sync'):
                continue
            if calls != 1:
                fail(
                    'an error that is neither transient, rate-limit nor of a documented limited-retry class is retried',
                    {'helper': kind, 'every_call_raises': cname + '()', 'is_limited_retries_error': bool(U.is_limited_retries_error(cls())), 'outcome': list(outcome), 'calls': calls, 'required_calls': 1},
                )

if 'body' in which:
    import aiohttp  # noqa: E402
    import multidict  # noqa: E402
    import yarl  # noqa: E402

    import hailtop.httpx as hx  # noqa: E402
    from hailtop.utils import utils as U  # noqa: E402

    res['ran'].append('body')

    class _Resp:
        def __init__(self, method, url, status, reason, payload):
            self.status, self.reason, self._payload = status, reason, payload
            self.headers = multidict.CIMultiDictProxy(multidict.CIMultiDict({'Content-Type': 'application/json'}))
            self.history = ()
            self.request_info = aiohttp.RequestInfo(yarl.URL(url), method, self.headers, yarl.URL(url))

        async def read(self):
            return self._payload

        async def release(self):
            pass

        def close(self):
            pass

    class _Transport:
        def __init__(self, responses):
            self.responses = list(responses)
            self.n = 0

        async def _request(self, method, url, **kwargs):
            self.n += 1
            return _Resp(method, url, *self.responses.pop(0))

    def session(responses):
        s = hx.ClientSession.__new__(hx.ClientSession)
        s.loop = asyncio.get_running_loop()
        s.raise_for_status = True
        s.client_session = _Transport(responses)
        return s

    URL = 'https://storage.googleapis.com/storage/v1/b/bucket/o/x'

    async def error_of(status, payload):
        s = session([(status, 'Error', payload)])
        try:
            await s.get(URL)
        except hx.ClientResponseError as e:
            return e
        return None

    async def body_scenarios():
        for pad in (0, 1, 100, 1000, 1023, 1024, 1025, 4096, 65536, 300000):
            for status, marker, clf in ((403, 'rateLimitExceeded', 'is_rate_limit_error'), (400, 'Invalid grant: account not found', 'is_limited_retries_error'), (500, 'tail', None)):
                text = '{"message": "' + 'x' * pad + '", "reason": "' + marker + '"}'
                e = await error_of(status, text.encode())
                if e is None:
                    fail('ClientSession.request returned a response with status >= 400 although raise_for_status', {'status': status})
                    continue
                if e.body != text or e.status != status:
                    fail(
                        'the ClientResponseError raised by ClientSession.request does not carry the whole decoded response body',
                        {'status': status, 'body_length': len(text), 'marker_offset': text.index(marker), 'attached_body_length': len(e.body), 'attached_status': e.status},
                    )
                elif clf is not None and not getattr(U, clf)(e):
                    fail('%s does not recognise the marker in the attached body' % clf, {'status': status, 'marker': marker, 'marker_offset': text.index(marker)})
        # end to end: 403 rateLimitExceeded with the marker far into the body, twice, then 200 -> three requests
        text = ('{"message": "' + 'y' * 5000 + '", "reason": "rateLimitExceeded"}').encode()
        s = session([(403, 'Forbidden', text)] * 2 + [(200, 'OK', b'{}')])
        fake = _NoSleep(asyncio, True)
        U.asyncio = fake
        try:
            async def get():
                return (await s.get(URL)).status

            try:
                outcome = ['returned', await U.retry_transient_errors(get)]
            except hx.ClientResponseError as e:
                outcome = ['raised', e.status]
        finally:
            U.asyncio = asyncio
        if (outcome, s.client_session.n) != (['returned', 200], 3):
            fail('a rate-limit failure (403 rateLimitExceeded, marker 5 kB into the body) coming out of ClientSession.request is not retried', {'outcome': outcome, 'requests': s.client_session.n, 'required': [['returned', 200], 3]})

    asyncio.run(body_scenarios())

print(json.dumps(res))
