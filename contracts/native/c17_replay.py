"""Native witness search for C17: the REAL hailtop.batch Batch / Job / LocalBackend of the tree under test build and run small
pipelines (real bash in a temporary directory).  Oracle written independently of the code: a topological order check, and the
least set SKIP with  j in SKIP  <=>  not always_run(j) and some dependency of j failed or is in SKIP.
stdin JSON: {'seed': int, 'rounds': int}.  Prints one JSON object."""
import itertools
import json
import os
import random
import shutil
import sys
import tempfile
import types
import warnings

_oj = types.ModuleType('orjson')
_oj.dumps = lambda o, *a, **k: json.dumps(o).encode()
_oj.loads = json.loads
sys.modules['orjson'] = _oj

from contracts.native import stubimport  # noqa: E402

stubimport.install()
warnings.simplefilter('ignore')
from hailtop.batch.backend import LocalBackend  # noqa: E402
from hailtop.batch.batch import Batch  # noqa: E402
from hailtop.batch.exceptions import BatchException  # noqa: E402

p = json.load(sys.stdin)
rng = random.Random(int(p.get('seed', 0)))
ROUNDS = int(p.get('rounds', 40))


def build(tmp, n, edges, res_edges, always, failing, creation_order, bare=()):
    """jobs are CREATED in creation_order; edges (a, b): b.depends_on(a); res_edges (a, b): b reads a file a writes"""
    b = Batch(backend=LocalBackend(tmp_dir=tmp), name='c17')
    jobs = {}
    for k in creation_order:
        j = b.new_job(name='j%d' % k)
        if k in always:
            j.always_run()
        jobs[k] = j
    # commands: producers first so that the resource exists as a declared output, whatever the creation order
    for k in range(n):
        j = jobs[k]
        if k in bare:
            continue  # a job without any command (a pure barrier joined by depends_on): it cannot fail, and it passes a skip on
        j.command('touch %s/ran_%d' % (tmp, k))
        if any(a == k for a, _ in res_edges):
            j.command('echo x > %s' % j.ofile)
    for a, c in res_edges:
        # an always-run consumer of a skipped producer finds no file: that must not make it fail by itself (the scenario's
        # failing set is the only source of failures, otherwise the oracle below would have to model the shell)
        jobs[c].command('(cat %s > /dev/null 2>&1 || true)' % jobs[a].ofile)
    for k in failing:
        jobs[k].command('exit 1')
    for a, c in edges:
        jobs[c].depends_on(jobs[a])
    return b, jobs


def spec_skip(n, deps, always, failing, order):
    skip, ran_failed = set(), set()
    for k in order:  # order is topological
        if k not in always and any(d in skip or d in ran_failed for d in deps[k]):
            skip.add(k)
        elif k in failing:
            ran_failed.add(k)
    return skip


def one_round(r):
    n = rng.randint(2, 6)
    pairs = [(a, c) for a in range(n) for c in range(a + 1, n)]
    chosen = [e for e in pairs if rng.random() < 0.45]
    res_edges = [e for e in chosen if rng.random() < 0.4]
    edges = [e for e in chosen if e not in res_edges]
    always = {k for k in range(n) if rng.random() < 0.25}
    failing = {k for k in range(n) if rng.random() < 0.35}
    creation = list(range(n))
    rng.shuffle(creation)
    touched = {x for e in res_edges for x in e}
    bare = {k for k in range(n) if k not in touched and k not in failing and rng.random() < 0.25}
    tmp = tempfile.mkdtemp(prefix='c17-')
    desc = {'jobs': n, 'depends_on edges (parent, child)': edges, 'resource edges (producer, consumer)': res_edges, 'always_run': sorted(always), 'failing': sorted(failing), 'jobs without a command': sorted(bare), 'creation order': creation}
    try:
        b, jobs = build(tmp, n, edges, res_edges, always, failing, creation, bare)
        deps = {k: {a for a, c in chosen if c == k} for k in range(n)}
        # (D) resource-induced dependencies are recorded
        for a, c in res_edges:
            if jobs[a] not in jobs[c]._dependencies:
                return dict(desc, what='job j%d reads a resource file of j%d but j%d is not among its dependencies (always_run=%s)' % (c, a, a, c in always))
        err = None
        try:
            b.run(verbose=False, delete_scratch_on_exit=False)
        except BatchException as e:
            return dict(desc, what='an acyclic pipeline was rejected: %r' % e)
        except BaseException as e:  # pylint: disable=broad-except
            err = e
        order = [int(j.name[1:]) for j in b._jobs]
        ids = {int(j.name[1:]): j._job_id for j in b._jobs}
        if sorted(order) != list(range(n)) or any(ids[k] != i + 1 for i, k in enumerate(order)):
            return dict(desc, what='jobs are not numbered 1..n in execution order', order=order, ids=ids)
        for k in range(n):
            for d in deps[k]:
                if ids[d] >= ids[k]:
                    return dict(desc, what='job j%d (number %d) does not come after its dependency j%d (number %d)' % (k, ids[k], d, ids[d]), order=order)
        ran = {k for k in range(n) if os.path.exists('%s/ran_%d' % (tmp, k))}
        want_skip = spec_skip(n, deps, always, failing, order)
        if ran - bare != set(range(n)) - want_skip - bare:
            return dict(desc, what='LocalBackend ran %s; the jobs to skip are exactly the non-always-run jobs depending (transitively) on a failed or skipped job: %s' % (sorted(ran), sorted(want_skip)), execution_order=order)
        if bool(err) != bool(failing - want_skip):
            return dict(desc, what='run() raised %r although the failing jobs that ran are %s' % (err, sorted(failing - want_skip)))
        return None
    finally:
        shutil.rmtree(tmp, ignore_errors=True)


def cycles():
    for shape in ('self', 'self-through-depends_on', 'two', 'three-with-tail'):
        tmp = tempfile.mkdtemp(prefix='c17c-')
        try:
            called = []
            be = LocalBackend(tmp_dir=tmp)
            real = be._async_run

            async def spy(*a, **k):
                called.append(1)
                return await real(*a, **k)

            be._async_run = spy
            b = Batch(backend=be, name='cyc')
            js = [b.new_job(name='c%d' % i) for i in range(4)]
            for j in js:
                j.command('true')
            if shape == 'self':
                js[1]._dependencies.add(js[1])
            elif shape == 'self-through-depends_on':
                js[1].depends_on(js[0], js[1])
            elif shape == 'two':
                js[0].depends_on(js[1])
                js[1].depends_on(js[0])
            else:
                js[3].depends_on(js[2])
                js[0].depends_on(js[2])
                js[1].depends_on(js[0])
                js[2].depends_on(js[1])
            try:
                b.run(verbose=False)
                return {'what': 'a cyclic pipeline (%s) was accepted and run' % shape, 'backend_called': bool(called)}
            except BatchException:
                if called:
                    return {'what': 'a cyclic pipeline (%s) was rejected only after the backend had started' % shape}
        finally:
            shutil.rmtree(tmp, ignore_errors=True)
    return None


def shortcut_family():
    """acyclic pipelines in which a job created FIRST depends on a job created LAST both directly and through several middle
    jobs (top -> base, top -> mid_i -> base): a walk that marks jobs before their dependencies are done emits a middle job
    before base for some iteration order of the dependency sets, and the cycle check then rejects a valid pipeline.  Dry runs
    (numbering only, nothing executed)."""
    for nmid in (1, 2, 3, 5):
        for rep in range(3):
            tmp = tempfile.mkdtemp(prefix='c17s-')
            try:
                b = Batch(backend=LocalBackend(tmp_dir=tmp), name='short')
                top = b.new_job(name='top')
                mids = [b.new_job(name='mid%d' % i) for i in range(nmid)]
                base = b.new_job(name='base')
                for j in [top, base] + mids:
                    j.command('true')
                top.depends_on(base)
                for m in mids:
                    top.depends_on(m)
                    m.depends_on(base)
                try:
                    b.run(dry_run=True, verbose=False)
                except BatchException as e:
                    return {'what': 'an acyclic pipeline was rejected: %r' % e, 'pipeline': 'top (created first) depends on base (created last) directly and through %d middle job(s)' % nmid}
                ids = {j.name: j._job_id for j in b._jobs}
                for j in b._jobs:
                    for d in j._dependencies:
                        if ids[d.name] >= ids[j.name]:
                            return {'what': 'job %s (number %d) does not come after its dependency %s (number %d)' % (j.name, ids[j.name], d.name, ids[d.name])}
            finally:
                shutil.rmtree(tmp, ignore_errors=True)
    return None


def barrier_family():
    """a failed job, a job WITHOUT any command that depends on it (a pure barrier), and a job behind the barrier: the skip
    passes through the barrier"""
    for always_gate in (False,):
        tmp = tempfile.mkdtemp(prefix='c17b-')
        try:
            b = Batch(backend=LocalBackend(tmp_dir=tmp), name='barrier')
            shards = [b.new_job(name='shard%d' % i) for i in range(3)]
            for i, j in enumerate(shards):
                j.command('touch %s/ran_shard%d' % (tmp, i))
            shards[1].command('exit 7')
            gate = b.new_job(name='gate')
            for j in shards:
                gate.depends_on(j)
            publish = b.new_job(name='publish')
            publish.command('touch %s/ran_publish' % tmp)
            publish.depends_on(gate)
            cleanup = b.new_job(name='cleanup')
            cleanup.always_run()
            cleanup.command('touch %s/ran_cleanup' % tmp)
            cleanup.depends_on(gate)
            try:
                b.run(verbose=False, delete_scratch_on_exit=False)
            except BatchException as e:
                return {'what': 'an acyclic pipeline was rejected: %r' % e}
            except BaseException:  # pylint: disable=broad-except
                pass
            ran = sorted(f[4:] for f in os.listdir(tmp) if f.startswith('ran_'))
            if 'publish' in ran or 'cleanup' not in ran:
                return {'what': 'shard1 fails; gate (no command) depends on the shards; publish depends on gate, cleanup (always_run) too: ran %s - publish must be skipped (it depends through gate on a failed job), cleanup must run' % ran}
        finally:
            shutil.rmtree(tmp, ignore_errors=True)
    return None


def python_job_arguments():
    """a PythonJob that is handed another job's file only INSIDE a container argument (dict / list / tuple, positional or
    keyword, nested) depends on the producer"""
    shapes = {'dict-positional': lambda f: (({'x': f},), {}), 'dict-keyword': lambda f: ((), {'cfg': {'x': f}}), 'list': lambda f: (([1, f],), {}), 'tuple-keyword': lambda f: ((), {'t': (f, 2)}),
              'nested': lambda f: (({'a': [{'b': (f,)}]},), {}), 'plain': lambda f: ((f,), {})}
    for name, mk in shapes.items():
        tmp = tempfile.mkdtemp(prefix='c17p-')
        try:
            b = Batch(backend=LocalBackend(tmp_dir=tmp), name='py', default_python_image='img')
            consumer = b.new_python_job(name='consumer')
            producer = b.new_job(name='producer')
            producer.command('echo x > %s' % producer.ofile)
            a, k = mk(producer.ofile)
            try:
                consumer.call(len, *a, **k) if False else consumer.call(_py_target, *a, **k)
            except Exception as e:  # pylint: disable=broad-except
                raise RuntimeError('PythonJob.call could not be exercised offline (%s): %r' % (name, e))
            if producer not in consumer._dependencies:
                return {'what': 'a python job given another job\'s file inside a %s argument does not depend on the producer' % name, 'argument shape': name}
        finally:
            shutil.rmtree(tmp, ignore_errors=True)
    return None


def _py_target(*a, **k):
    return None


out = {'confirmed': False, 'rounds': ROUNDS}
devnull = open(os.devnull, 'w')
saved = sys.stdout
sys.stdout = devnull
try:
    bad = cycles()
    if bad is None:
        bad = shortcut_family()
    if bad is None:
        bad = barrier_family()
    if bad is None:
        try:
            bad = python_job_arguments()
        except RuntimeError as e:
            out['python_job_scenarios_skipped'] = str(e)
    if bad is None:
        for r in range(ROUNDS):
            bad = one_round(r)
            if bad is not None:
                break
finally:
    sys.stdout = saved
if bad is not None:
    out = dict(bad, confirmed=True)
print(json.dumps(out, default=str))
