"""Native witness search for C27: the real functions/classes of gear/gear/database.py are extracted by AST (the module's
imports of aiomysql / pymysql / kubernetes are not installed offline) and executed against fakes of the driver:
pymysql.err classes with the driver's hierarchy, a recording connection / pool / context manager.  Prints one JSON object."""
import ast, asyncio, functools, json, logging, os, sys, traceback, types

repo = os.environ['VERIF_REPO']
src = open(os.path.join(repo, 'gear/gear/database.py')).read()
tree = ast.parse(src)
WANT_FUNCS = {'exception_log_level_if_retryable', 'retry_transient_mysql_errors', 'transaction', 'aenter', 'aexit', '_release_connection'}
WANT_CLASSES = {'TransactionAsyncContextManager', 'Transaction'}
WANT_CONSTS = {'operational_error_retry_codes', 'operational_error_log_level', 'internal_error_retry_codes', 'T', 'P'}
body = []
for n in tree.body:
    if isinstance(n, (ast.FunctionDef, ast.AsyncFunctionDef)) and n.name in WANT_FUNCS:
        body.append(n)
    elif isinstance(n, ast.ClassDef) and n.name in WANT_CLASSES:
        body.append(n)
    elif isinstance(n, ast.Assign) and isinstance(n.targets[0], ast.Name) and n.targets[0].id in WANT_CONSTS:
        body.append(n)


class MySQLError(Exception):
    pass


class DatabaseError(MySQLError):
    pass


class InternalError(DatabaseError):
    pass


class OperationalError(DatabaseError):
    pass


class IntegrityError(DatabaseError):
    pass


class ProgrammingError(DatabaseError):
    pass


pymysql = types.SimpleNamespace(err=types.SimpleNamespace(InternalError=InternalError, OperationalError=OperationalError, IntegrityError=IntegrityError, ProgrammingError=ProgrammingError))
SLEEPS = []


async def sleep_before_try(tries, *a, **k):
    SLEEPS.append(tries)


class Counter:
    def inc(self):
        pass

    def dec(self):
        pass


import typing
from typing import Any, AsyncIterator, Awaitable, Callable, Dict, Optional, TypeVar

try:
    from typing_extensions import Concatenate, ParamSpec
except ImportError:  # pragma: no cover
    from typing import Concatenate, ParamSpec
log = logging.getLogger('c27-replay')
log.addHandler(logging.NullHandler())
log.propagate = False
ns = dict(PrometheusSQLTimer=None, asyncio=asyncio, functools=functools, logging=logging, traceback=traceback, pymysql=pymysql, sleep_before_try=sleep_before_try, log=log, Any=Any, AsyncIterator=AsyncIterator, Awaitable=Awaitable, Callable=Callable, Dict=Dict, Optional=Optional, TypeVar=TypeVar, Concatenate=Concatenate, ParamSpec=ParamSpec, DB_CONNECTION_QUEUE_SIZE=Counter(), SQL_TRANSACTIONS=Counter(), BackgroundTaskManager=object)
exec(compile(ast.Module(body=body, type_ignores=[]), 'database-extract', 'exec'), ns)
classify, retry, transaction = ns['exception_log_level_if_retryable'], ns['retry_transient_mysql_errors'], ns['transaction']

TRANSIENT = {(InternalError, 1205), (OperationalError, 1213), (OperationalError, 2013), (OperationalError, 2003), (OperationalError, 1040)}


def check_classifier():
    for cls in (InternalError, OperationalError, IntegrityError, ProgrammingError, ValueError, KeyError):
        for code in (0, 1040, 1062, 1146, 1205, 1213, 2003, 2006, 2013):
            lvl = classify(cls(code, 'msg'))
            if bool(lvl) != ((cls, code) in TRANSIENT):
                return {'confirmed': True, 'what': 'classification differs from the property: %s(%d) -> %r' % (cls.__name__, code, lvl), 'exception': '%s(%d, ...)' % (cls.__name__, code), 'result': lvl, 'expected_retryable': (cls, code) in TRANSIENT}
    # an error that merely carries a transient driver error as its cause / context (raise X from exc, or raised while handling it)
    # is a different error: "not retried after any other error"
    for cls, code in sorted(TRANSIENT, key=lambda x: x[1]):
        for outer in (ValueError('gave up'), IntegrityError(1062, 'dup'), RuntimeError()):
            for how in ('cause', 'context'):
                inner = cls(code, 'msg')
                if how == 'cause':
                    outer.__cause__ = inner
                else:
                    outer.__context__ = inner
                lvl = classify(outer)
                if lvl:
                    return {'confirmed': True, 'what': 'an error other than the listed ones is classified retryable because its __%s__ is %s(%d): %r -> %r' % (how, cls.__name__, code, outer, lvl), 'exception': repr(outer), 'chained': '%s(%d)' % (cls.__name__, code)}
    return None


def check_retry_loop():
    for cls, code in sorted(TRANSIENT, key=lambda x: x[1]):
        for nfail in (1, 3, 9):
            calls = []

            async def f():
                calls.append(1)
                if len(calls) <= nfail:
                    raise cls(code, 'transient')
                return 'value'

            del SLEEPS[:]
            try:
                r = asyncio.run(retry(f)())
            except Exception as e:  # pylint: disable=broad-except
                return {'confirmed': True, 'what': 'a transient error is not retried', 'exception': '%s(%d)' % (cls.__name__, code), 'failures_before_success': nfail, 'raised': repr(e), 'calls': len(calls)}
            if r != 'value' or len(calls) != nfail + 1 or SLEEPS != list(range(1, nfail + 1)):
                return {'confirmed': True, 'what': 'retry loop does not call once per failure with sleep_before_try(failures)', 'calls': len(calls), 'sleeps': list(SLEEPS), 'result': r}
    for exc in (IntegrityError(1062, 'dup'), OperationalError(1146, 'no table'), ValueError('x'), InternalError(1213, 'wrong class')):
        calls = []

        async def g():
            calls.append(1)
            raise exc

        try:
            asyncio.run(retry(g)())
            return {'confirmed': True, 'what': 'non-transient error swallowed', 'exception': repr(exc)}
        except Exception as e:  # pylint: disable=broad-except
            if e is not exc or len(calls) != 1:
                return {'confirmed': True, 'what': 'non-transient error retried or replaced', 'exception': repr(exc), 'calls': len(calls), 'raised': repr(e)}
    return None


class FakeDB:
    def __init__(self):
        self.events = []
        self.n = 0

    def start(self, read_only=False):
        db = self
        db.n += 1
        ident = db.n

        class CM:
            async def __aenter__(self):
                db.events.append(('begin', ident, read_only))
                return ('tx', ident)

            async def __aexit__(self, exc_type, exc_val, exc_tb):
                db.events.append(('rollback' if exc_type else 'commit', ident))

        return CM()


def check_transaction():
    for ro in (False, True):
        db = FakeDB()
        attempts = []

        @transaction(db, read_only=ro)
        async def body(tx, x):
            db.events.append(('write-1', tx[1]))
            attempts.append(tx)
            if len(attempts) == 1:
                raise InternalError(1205, 'Lock wait timeout exceeded')  # on the SECOND statement of the first attempt
            db.events.append(('write-2', tx[1]))
            return x + 1

        r = asyncio.run(body(41))
        want = [('begin', 1, ro), ('write-1', 1), ('rollback', 1), ('begin', 2, ro), ('write-1', 2), ('write-2', 2), ('commit', 2)]
        if r != 42 or db.events != want:
            return {'confirmed': True, 'what': 'a retried attempt does not run in its own rolled-back/committed transaction (partial writes of the failed attempt survive)', 'read_only': ro, 'events': db.events, 'expected_events': want, 'result': r}
        db = FakeDB()

        @transaction(db, read_only=ro)
        async def bad(tx):
            db.events.append(('write-1', tx[1]))
            raise IntegrityError(1062, 'dup')

        try:
            asyncio.run(bad())
            return {'confirmed': True, 'what': 'non-transient error swallowed by the transaction decorator'}
        except IntegrityError:
            pass
        if db.events != [('begin', 1, ro), ('write-1', 1), ('rollback', 1)]:
            return {'confirmed': True, 'what': 'failed attempt is not rolled back exactly once', 'events': db.events}
    return None


class FakeConn:
    def __init__(self, log_, fail=None):
        self.log, self.fail = log_, fail

    async def rollback(self):
        self.log.append('rollback')
        if self.fail == 'rollback':
            raise OperationalError(2013, 'lost')

    async def commit(self):
        self.log.append('commit')
        if self.fail == 'commit':
            raise OperationalError(2013, 'lost')


class FakeTM:
    def __init__(self, log_):
        self.log = log_

    def ensure_future(self, coro):
        self.log.append('release-scheduled')
        coro.close()


def check_aexit():
    Transaction = ns['Transaction']
    for exc_type, fail in [(None, None), (ValueError, None), (None, 'commit'), (ValueError, 'rollback')]:
        ev = []
        tx = Transaction(FakeTM(ev))
        tx.conn = FakeConn(ev, fail)
        tx.conn_context_manager = object()
        try:
            asyncio.run(tx._aexit(exc_type, None, None))
            raised = False
        except OperationalError:
            raised = True
        want = ['rollback' if exc_type else 'commit', 'release-scheduled']
        if ev != want or raised != (fail is not None) or tx.conn is not None or tx.conn_context_manager is not None:
            return {'confirmed': True, 'what': 'transaction exit does not commit/rollback exactly once and release the connection', 'exc_type': getattr(exc_type, '__name__', None), 'failing_step': fail, 'events': ev, 'expected_events': want}
    return None


class FakeCursor:
    def __init__(self, calls):
        self.calls = calls
        self.lastrowid = 1

    async def __aenter__(self):
        return self

    async def __aexit__(self, *a):
        return None

    async def execute(self, sql, args=None):
        self.calls.append(sql)
        if len(self.calls) == 1:
            raise OperationalError(1213, 'Deadlock found')
        return 1

    executemany = execute

    async def fetchone(self):
        return {'rc': 0}


class FakeConn2:
    def __init__(self, calls):
        self.calls = calls

    def cursor(self):
        return FakeCursor(self.calls)


def check_statement_level():
    """a statement of an OPEN transaction that hits a deadlock must fail the attempt (the server has rolled the transaction
    back); it must not be re-sent on its own"""
    Transaction = ns['Transaction']
    for meth, args in (('just_execute', ('S',)), ('execute_and_fetchone', ('S',)), ('execute_insertone', ('S',)), ('execute_update', ('S',)), ('execute_many', ('S', [(1,), (2,)]))):
        calls = []
        tx = Transaction(FakeTM([]))
        tx.conn = FakeConn2(calls)
        del SLEEPS[:]
        try:
            asyncio.run(getattr(tx, meth)(*args))
            raised = False
        except OperationalError:
            raised = True
        if not raised or len(calls) != 1:
            return {'confirmed': True, 'what': 'a single statement is retried inside the open transaction after a deadlock (its effects land outside the rolled-back attempt)', 'method': 'Transaction.' + meth, 'statements_sent': len(calls), 'raised': raised}
    return None


res = None
for f in (check_classifier, check_retry_loop, check_transaction, check_aexit, check_statement_level):
    try:
        res = f()
    except Exception as e:  # pylint: disable=broad-except
        res = {'confirmed': False, 'harness_error': '%s: %r' % (f.__name__, e), 'traceback': traceback.format_exc()[-800:]}
        break
    if res:
        break
print(json.dumps(res or {'confirmed': False}))
