"""Auto-stub importer for native replays: makes /repo's hailtop / gear / batch packages importable under /venv/bin/python
although most third-party dependencies are not installed offline.  Any top-level package that cannot be found is replaced
by an inert module whose attributes are fresh classes (usable as base classes, exception types, decorators returning
their argument).  `hailtop.version` (generated at build time) is fabricated.  Nothing of the repository is stubbed."""
import importlib.abc
import importlib.machinery
import importlib.util
import os
import sys
import types


NEVER_STUB = {'msvcrt', 'winreg', 'nt', 'ntpath_ext', 'pwd_ext', 'readline', 'vms_lib', 'java', 'org', 'ce', 'riscos', 'pyimod02_importers', 'backports'}


class _Stub(types.ModuleType):
    def __getattr__(self, n):
        if n.startswith('__'):
            raise AttributeError(n)
        t = type(n, (Exception,), {'__init__': lambda self, *a, **k: None, '__call__': lambda self, *a, **k: (a[0] if a else None)})
        setattr(self, n, t)
        return t


class _Finder(importlib.abc.MetaPathFinder, importlib.abc.Loader):
    def __init__(self, own):
        self.own = own
        self.stubbed = set()

    def find_spec(self, name, path, target=None):
        top = name.split('.')[0]
        if top in self.own:
            return None
        if top in self.stubbed:
            return importlib.machinery.ModuleSpec(name, self, is_package=True)
        if '.' in name:
            return None
        if top.startswith('_') or top in NEVER_STUB:
            return None  # optional platform modules the standard library probes for (a stub would make it take the Windows paths)
        for f in sys.meta_path:
            if f is self:
                continue
            try:
                if f.find_spec(name, path, target) is not None:
                    return None
            except Exception:
                pass
        self.stubbed.add(top)
        return importlib.machinery.ModuleSpec(name, self, is_package=True)

    def create_module(self, spec):
        m = _Stub(spec.name)
        m.__path__ = []
        return m

    def exec_module(self, module):
        pass


def install(repo=None, own=('hailtop', 'gear', 'batch', 'auth', 'ci', 'web_common', 'hail')):
    repo = repo or os.environ['VERIF_REPO']
    for sub in ('hail/python', 'gear', 'batch', 'web_common', 'auth', 'ci'):
        p = os.path.join(repo, sub)
        if p not in sys.path:
            sys.path.insert(0, p)
    f = _Finder(set(own))
    sys.meta_path.append(f)
    v = types.ModuleType('hailtop.version')
    v.__pip_version__ = v.__version__ = '0.0.0'
    v.__revision__ = 'deadbeef'
    sys.modules['hailtop.version'] = v
    return f
