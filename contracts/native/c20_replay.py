"""Native scenarios for C20 on the REAL hailtop.utils.utils of the tree under test (asyncio, no stubs of the code itself).
stdin JSON: {'which': [scenario names]} (default: all except 'over-release', which documents a recorded known finding).
Prints one JSON object: {'confirmed': bool, 'scenario': ..., 'what': ..., 'input': ...} for the first failing scenario."""
import asyncio
import functools
import json
import sys

from contracts.native import stubimport

stubimport.install()
from hailtop.utils import utils as U  # noqa: E402

p = json.load(sys.stdin)


class Probe:
    def __init__(self):
        self.cur = self.peak = 0
        self.log = []

    async def work(self, name, delay=0.01, fail=None):
        self.cur += 1
        self.peak = max(self.peak, self.cur)
        try:
            await asyncio.sleep(delay)
            if fail is not None:
                raise fail
            self.log.append(name + ':finished')
            return name
        except asyncio.CancelledError:
            self.log.append(name + ':cancelled')
            raise
        finally:
            self.cur -= 1


def others_running():
    return [t for t in asyncio.all_tasks() if t is not asyncio.current_task() and not t.done()]


async def sc_parallelism():
    for n in (1, 2, 3, 5):
        pr = Probe()
        await U.bounded_gather(*[functools.partial(pr.work, 'j%d' % i) for i in range(4 * n + 3)], parallelism=n)
        if pr.peak > n:
            return {'what': 'bounded_gather(parallelism=%d) ran %d partial functions at once' % (n, pr.peak), 'input': {'parallelism': n, 'jobs': 4 * n + 3}}
    for n in (1, 2, 4):
        pr = Probe()
        sema = asyncio.Semaphore(n)
        async with sema:  # the documented protocol: the caller holds one unit
            for kw in ({}, {'return_exceptions': True}, {'cancel_on_error': True}):
                await U.bounded_gather2(sema, *[functools.partial(pr.work, 'j%d' % i) for i in range(3 * n + 2)], **kw)
        if pr.peak > n or sema._value != n:
            return {'what': 'bounded_gather2 on Semaphore(%d): peak %d, value afterwards %d' % (n, pr.peak, sema._value), 'input': {'semaphore': n}}
    return None


async def sc_order():
    pr = Probe()
    sema = asyncio.Semaphore(3)
    delays = [0.05, 0.01, 0.03, 0.0, 0.02]
    async with sema:
        r1 = await U.bounded_gather2(sema, *[functools.partial(pr.work, 'j%d' % i, d) for i, d in enumerate(delays)])
        r2 = await U.bounded_gather2(sema, *[functools.partial(pr.work, 'j%d' % i, d) for i, d in enumerate(delays)], return_exceptions=True)
    want = ['j%d' % i for i in range(len(delays))]
    if r1 != want or [v for v, e in r2] != want or any(e is not None for v, e in r2):
        return {'what': 'results are not in submission order', 'input': {'delays': delays}, 'got': [r1, [list(map(str, x)) for x in r2]]}
    return None


async def sc_in_place():
    for exc in (asyncio.CancelledError(), ValueError('v'), KeyboardInterrupt() if False else SystemError('s')):
        pr = Probe()
        sema = asyncio.Semaphore(2)

        async def boom(exc=exc):
            raise exc

        try:
            async with sema:
                r = await asyncio.wait_for(U.bounded_gather2(sema, functools.partial(pr.work, 'a'), boom, functools.partial(pr.work, 'b'), return_exceptions=True), 5)
        except BaseException as e:  # pylint: disable=broad-except
            return {'what': 'return_exceptions=True but %r was raised instead of being returned in place' % e, 'input': {'partial function raises': repr(exc)}}
        if not (len(r) == 3 and r[0] == ('a', None) and r[2] == ('b', None) and r[1][0] is None and r[1][1] is exc):
            return {'what': 'return_exceptions=True: outcome list is not value-or-exception in place', 'input': {'partial function raises': repr(exc)}, 'got': repr(r)}
    return None


async def sc_cancel_on_error():
    for order in (['fail', 'slowA', 'slowB'], ['slowA', 'fail', 'slowB'], ['slowA', 'slowB', 'fail'], ['fail2', 'slowA', 'fail']):
        pr = Probe()
        sema = asyncio.Semaphore(5)
        first = ValueError('first in time')
        pfs = {'fail': functools.partial(pr.work, 'fail', 0.01, first), 'fail2': functools.partial(pr.work, 'fail2', 0.05, KeyError('later')),
               'slowA': functools.partial(pr.work, 'slowA', 0.3), 'slowB': functools.partial(pr.work, 'slowB', 0.3)}
        raised = None
        async with sema:
            try:
                await U.bounded_gather2(sema, *[pfs[o] for o in order], cancel_on_error=True)
            except Exception as e:  # pylint: disable=broad-except
                raised = e
            left = len(others_running())
        await asyncio.sleep(0.4)
        finished_late = [l for l in pr.log if l.endswith(':finished')]
        if raised is not first or left or finished_late:
            return {'what': 'cancel_on_error=True: raised %r (first failure in time: %r); %d task(s) still running when it returned; completed in the background afterwards: %s' % (raised, first, left, finished_late), 'input': {'submission order': order}}
    return None


async def sc_over_release():
    sema = asyncio.Semaphore(2)

    async def failing():
        raise ValueError('x')

    async with sema:
        try:
            await U.bounded_gather2(sema, failing)
        except ValueError:
            pass
        held_value = sema._value
    if held_value != 1 or sema._value != 2:
        pr = Probe()
        async with sema:
            await U.bounded_gather2(sema, *[functools.partial(pr.work, 'j%d' % i) for i in range(12)])
        return {'what': 'after a failing gather the caller no longer holds its unit: Semaphore(2) reads %d while the caller is still inside `async with sema` (expected 1) and %d afterwards (expected 2); a following gather on it ran %d at once' % (held_value, sema._value, pr.peak),
                'input': {'semaphore': 2, 'history': 'async with sema: bounded_gather2(sema, <pf raising ValueError>)'}}
    return None


async def sc_online():
    # two jobs fail in the same event-loop iteration: the first one's exception is the pool's exception
    sema = asyncio.Semaphore(4)
    e1, e2 = ValueError('first'), KeyError('second')
    ev = asyncio.Event()
    pr = Probe()

    async def fail_on_event(exc):
        await ev.wait()
        raise exc

    raised = None
    async with sema:
        try:
            async with U.OnlineBoundedGather2(sema) as pool:
                pool.call(fail_on_event, e1)
                pool.call(fail_on_event, e2)
                pool.call(pr.work, 'slow', 0.3)
                await asyncio.sleep(0.01)
                ev.set()
                await asyncio.sleep(0.05)
        except BaseException as e:  # pylint: disable=broad-except
            raised = e
        left = len(others_running())
    if raised is not e1 or left:
        return {'what': 'OnlineBoundedGather2: two jobs failed in the same loop iteration; raised %r (first failure: %r); %d task(s) still running after the context exit' % (raised, e1, left), 'input': {'jobs': ['fails with ValueError', 'fails with KeyError at the same time', 'slow']}}
    # a cancelled job is not an error; the pool waits for everything on exit and respects the bound
    pr = Probe()
    sema = asyncio.Semaphore(3)
    async with sema:
        async with U.OnlineBoundedGather2(sema) as pool:
            ts = [pool.call(pr.work, 'j%d' % i, 0.02) for i in range(10)]
            await asyncio.sleep(0)  # let the jobs start: a job cancelled BEFORE its first step never deregisters and the pool's
            ts[1].cancel()          # exit waits forever (observation recorded in DESIGN.md; liveness, outside the contracts)
        left = len(others_running())
    if left or pr.peak > 3 or sema._value != 3:
        return {'what': 'OnlineBoundedGather2: %d task(s) running after exit, peak concurrency %d on Semaphore(3), value afterwards %d' % (left, pr.peak, sema._value), 'input': {'jobs': 10, 'cancelled': 1}}
    # jobs submitted after an earlier one has finished (wait() on a subset, then more calls): the exit still waits for all
    pr = Probe()
    sema = asyncio.Semaphore(3)
    async with sema:
        async with U.OnlineBoundedGather2(sema) as pool2:
            a = pool2.call(pr.work, 'a', 0.01)
            pool2.call(pr.work, 'b', 0.2)
            await pool2.wait([a])
            pool2.call(pr.work, 'c', 0.01)
        left = len(others_running())
    if left:
        return {'what': 'OnlineBoundedGather2: %d job(s) still running after the context exit (a finishes, then c is submitted while b runs: c took the place of b in the pending table)' % left, 'input': {'history': ['call a (10 ms)', 'call b (200 ms)', 'wait([a])', 'call c (10 ms)', 'exit']}}
    try:
        pool.call(pr.work, 'late')
        return {'what': 'OnlineBoundedGather2 accepts a job after shutdown?'} if pool._pending is None else None
    except U.PoolShutdownError:
        return None


SCENARIOS = {'parallelism': sc_parallelism, 'order': sc_order, 'in-place': sc_in_place, 'cancel-on-error': sc_cancel_on_error, 'online': sc_online, 'over-release': sc_over_release}
which = p.get('which') or [k for k in SCENARIOS if k != 'over-release']
out = {'confirmed': False, 'scenarios': which}


async def _limited(name):
    try:
        return await asyncio.wait_for(SCENARIOS[name](), 30)
    except asyncio.TimeoutError:
        return {'what': 'scenario %s did not finish within 30 s (a helper never returned)' % name, 'hang': True}


for name in which:
    r = asyncio.run(_limited(name))
    if r is not None:
        out = dict(r, confirmed=True, scenario=name)
        break
print(json.dumps(out, default=str))
