"""Native replay for the C11 query obligations: the REAL PoolScheduler._compute_fair_share (method extracted by AST from the tree
under test) is run against a stand-in Database that executes the method's OWN query text on an in-memory sqlite copy of
user_inst_coll_resources (dialect only: %s placeholders; MySQL resolves HAVING names against the select list, expressed as an
outer WHERE).  The table is sharded by `token`: a single token row holds deltas and may be negative.  The rows the computation
works on are compared with the true per-user sums.  Harness trouble (sqlite rejects the text...) is reported as an error, never
as a failing input.  Prints one JSON object."""
import ast
import asyncio
import itertools
import json
import os
import re
import sqlite3
import sys
from typing import Dict

import sortedcontainers

repo = os.environ['VERIF_REPO']
src = open(os.path.join(repo, 'batch/batch/driver/instance_collection/pool.py')).read()
fn = None
for n in ast.walk(ast.parse(src)):
    if isinstance(n, ast.ClassDef) and n.name == 'PoolScheduler':
        for m in n.body:
            if isinstance(m, ast.AsyncFunctionDef) and m.name == '_compute_fair_share':
                fn = m
if fn is None:
    print(json.dumps({'confirmed': False, 'error': 'anchor moved'}))
    sys.exit(0)
ns = {'sortedcontainers': sortedcontainers, 'Dict': Dict}
exec(compile(ast.Module(body=[fn], type_ignores=[]), 'pool-extract', 'exec'), ns)
compute = ns['_compute_fair_share']


class HarnessError(Exception):
    pass


class Rows:
    def __init__(self, rows, seen):
        self.rows, self.seen = rows, seen

    def __aiter__(self):
        async def gen():
            for r in self.rows:
                self.seen.append(dict(r))
                yield dict(r)

        return gen()


class DB:
    def __init__(self, rows):
        self.conn = sqlite3.connect(':memory:')
        self.conn.row_factory = sqlite3.Row
        self.conn.execute("""CREATE TABLE user_inst_coll_resources (user TEXT NOT NULL, inst_coll TEXT NOT NULL, token INT NOT NULL,
  n_ready_jobs INT NOT NULL DEFAULT 0, n_running_jobs INT NOT NULL DEFAULT 0, n_creating_jobs INT NOT NULL DEFAULT 0,
  ready_cores_mcpu BIGINT NOT NULL DEFAULT 0, running_cores_mcpu BIGINT NOT NULL DEFAULT 0,
  n_cancelled_ready_jobs INT NOT NULL DEFAULT 0, n_cancelled_running_jobs INT NOT NULL DEFAULT 0, n_cancelled_creating_jobs INT NOT NULL DEFAULT 0,
  PRIMARY KEY (user, inst_coll, token))""")
        self.conn.executemany('INSERT INTO user_inst_coll_resources (user, inst_coll, token, n_ready_jobs, ready_cores_mcpu, n_running_jobs, running_cores_mcpu) VALUES (?, ?, ?, ?, ?, ?, ?)', rows)
        self.seen = []

    def execute_and_fetchall(self, sql, args=None, query_name=None):
        sql = sql.strip().rstrip(';').replace('%s', '?')
        m = re.search(r'\bHAVING\b', sql)
        if m:
            tail = sql[m.end():]
            lim = re.search(r'\b(LIMIT|ORDER\s+BY)\b', tail)
            cond, rest = (tail[: lim.start()], tail[lim.start():]) if lim else (tail, '')
            sql = 'SELECT * FROM (%s) WHERE %s %s' % (sql[: m.start()], cond, rest)
        try:
            rows = [dict(r) for r in self.conn.execute(sql, tuple(args or ())).fetchall()]
        except sqlite3.Error as e:
            raise HarnessError('sqlite: %s' % e)
        return Rows(rows, self.seen)

    select_and_fetchall = execute_and_fetchall


class Self:
    def __init__(self, db, pool):
        self.db = db
        self.pool = type('P', (), {'name': pool})()


def truth(rows, pool):
    t = {}
    for user, ic, _tok, nr, rc, nrun, runc in rows:
        if ic == pool:
            a = t.setdefault(user, [0, 0, 0, 0])
            a[0] += nr
            a[1] += rc
            a[2] += nrun
            a[3] += runc
    return t


def check(rows, free):
    db = DB(rows)
    try:
        res = asyncio.run(compute(Self(db, 'standard'), free))
    except HarnessError:
        raise
    except BaseException as e:  # pylint: disable=broad-except
        return 'raises %r' % e
    t = truth(rows, 'standard')
    seen_users = [r.get('user') for r in db.seen]
    if len(seen_users) != len(set(seen_users)):
        return 'the query yields more than one row for a user: %s' % seen_users
    for r in db.seen:
        u = r.get('user')
        if u not in t:
            return 'the query yields user %r, who has no row in this pool' % u
        got = (r.get('running_cores_mcpu'), r.get('ready_cores_mcpu'))
        if got != (t[u][3], t[u][1]) or not all(isinstance(x, int) for x in got):
            return 'user %s: the computation works on (running, ready) = %r, the sums over all token rows of the user in this pool are %r' % (u, got, (t[u][3], t[u][1]))
    for u, (nr, rc, nrun, runc) in t.items():
        if rc > 0 and u not in seen_users:
            return 'user %s has %d ready cores in this pool but is left out of the computation' % (u, rc)
    for u in res:
        a = res[u]['allocated_cores_mcpu']
        if not (0 <= a <= t[u][1]):
            return 'user %s is allocated %r with a ready demand of %d' % (u, a, t[u][1])
    return None


def scenarios():
    # every user: two token rows; the first holds the jobs that became ready there, the second the moves ready -> running that
    # were recorded under another token (negative ready deltas); plus a row of another pool that must not leak in
    opts = []
    for ready1 in (0, 1, 2):
        for moved in range(0, ready1 + 1):
            for running1 in (0, 1):
                opts.append(((ready1, running1), (-moved, moved)))
    for a, b in itertools.product(opts, repeat=2):
        rows = []
        for user, (t1, t2) in (('a', a), ('b', b)):
            rows.append((user, 'standard', 3, t1[0], 1000 * t1[0], t1[1], 1000 * t1[1]))
            rows.append((user, 'standard', 7, t2[0], 1000 * t2[0], t2[1], 1000 * t2[1]))
        rows.append(('a', 'highmem', 3, 5, 5000, 0, 0))
        rows.append(('c', 'highmem', 1, 1, 1000, 1, 1000))
        for free in (0, 1500, 10000):
            yield rows, free


out = {'confirmed': False, 'cases': 0}
try:
    for rows, free in scenarios():
        out['cases'] += 1
        msg = check(rows, free)
        if msg:
            out = {'confirmed': True, 'what': msg, 'input': {'free_cores_mcpu': free, 'rows (user, inst_coll, token, n_ready_jobs, ready_cores_mcpu, n_running_jobs, running_cores_mcpu)': rows}}
            break
except HarnessError as e:
    out = {'confirmed': False, 'error': str(e)}
print(json.dumps(out, default=str))
