"""Native replay for the C11 working-state obligations: ONE PoolScheduler object (the real class text, extracted by AST from the
tree under test; __init__ and _compute_fair_share run as they are, collaborators are inert stand-ins) serves two callers on one
event loop - the scheduling loop and the autoscaler both call _compute_fair_share, which suspends while it reads its rows.  The two
computations are started with every relative offset; each result must equal the result of the same computation run alone.
Harness trouble (the class cannot be built with the stand-ins) is an error, never a failing input.  Prints one JSON object."""
import ast
import asyncio
import builtins
import json
import logging
import os
import sys
import types
import typing
from collections import defaultdict

import sortedcontainers

repo = os.environ['VERIF_REPO']
path = os.path.join(repo, 'batch/batch/driver/instance_collection/pool.py')
src = open(path).read()
cls = next((n for n in ast.parse(src).body if isinstance(n, ast.ClassDef) and n.name == 'PoolScheduler'), None)
if cls is None:
    print(json.dumps({'confirmed': False, 'error': 'anchor moved'}))
    sys.exit(0)


class Inert:
    def __init__(self, *a, **k):
        pass

    def __call__(self, *a, **k):
        return Inert()

    def __getattr__(self, name):
        if name.startswith('__'):
            raise AttributeError(name)
        return Inert()


class NS(dict):
    def __missing__(self, key):
        if hasattr(builtins, key):
            raise KeyError(key)
        return Inert()


ns = NS({'asyncio': asyncio, 'logging': logging, 'defaultdict': defaultdict, 'sortedcontainers': sortedcontainers, 'log': logging.getLogger('pool'),
         'retry_long_running': lambda *a, **k: None, 'run_if_changed': lambda *a, **k: None, 'types': types})
for k in ('Dict', 'List', 'Optional', 'Tuple', 'Set', 'Any', 'Callable', 'Awaitable'):
    ns[k] = getattr(typing, k)
for n in ast.walk(cls):  # every other global name the class text mentions: an inert stand-in
    if isinstance(n, ast.Name) and n.id not in ns and not hasattr(builtins, n.id):
        ns[n.id] = Inert()
try:
    exec(compile(ast.Module(body=[cls], type_ignores=[]), 'pool-extract', 'exec'), ns)
    PoolScheduler = ns['PoolScheduler']
except BaseException as e:  # pylint: disable=broad-except
    print(json.dumps({'confirmed': False, 'error': 'class not loadable with the stand-ins: %r' % e}))
    sys.exit(0)


class ListDb:
    def __init__(self, users):
        self.users = users

    async def execute_and_fetchall(self, sql, args=None, query_name=None):
        for user, (running, ready) in list(self.users.items()):
            await asyncio.sleep(0)
            yield {'user': user, 'n_ready_jobs': (ready + 999) // 1000, 'ready_cores_mcpu': ready, 'n_running_jobs': (running + 999) // 1000, 'running_cores_mcpu': running}

    select_and_fetchall = execute_and_fetchall


def make(users):
    db = ListDb(users)
    app = {'db': db, 'frozen': False}
    pool = types.SimpleNamespace(name='standard', scheduler_state_changed=None, healthy_instances_by_free_cores=[])
    tm = types.SimpleNamespace(ensure_future=lambda x: None)
    s = PoolScheduler(app, pool, None, tm)
    if not hasattr(s, 'db') or isinstance(s.db, Inert):
        s.db = db
    return s


def allocs(res):
    return {u: r['allocated_cores_mcpu'] for u, r in res.items()}


async def alone(users, free):
    return allocs(await make(users)._compute_fair_share(free))


async def delayed(s, free, ticks):
    for _ in range(ticks):
        await asyncio.sleep(0)
    return allocs(await s._compute_fair_share(free))


async def main():
    cases = 0
    for users in ({'a': (0, 4000), 'b': (1000, 3000), 'c': (2000, 500)}, {'a': (0, 1000), 'b': (0, 8000)}, {'a': (3000, 2000), 'b': (0, 2000), 'c': (0, 9000), 'd': (500, 500)}):
        for f1, f2 in ((3000, 9000), (1000, 100000), (0, 5000), (2500, 2500)):
            w1, w2 = await alone(users, f1), await alone(users, f2)
            for off in range(0, 2 * len(users) + 3):
                for first in (0, 1):
                    cases += 1
                    s = make(users)
                    try:
                        r1, r2 = await asyncio.gather(delayed(s, f1, off if first else 0), delayed(s, f2, 0 if first else off))
                    except Exception as e:  # pylint: disable=broad-except
                        return {'confirmed': True, 'what': 'two overlapping computations on one scheduler: %r' % e, 'input': {'users (running, ready)': users, 'free_cores_mcpu of the two calls': [f1, f2], 'offset in event-loop turns': off}}
                    if r1 != w1 or r2 != w2:
                        return {'confirmed': True, 'what': 'two overlapping computations on one scheduler return %r and %r; run alone they return %r and %r' % (r1, r2, w1, w2),
                                'input': {'users (running, ready)': users, 'free_cores_mcpu of the two calls': [f1, f2], 'offset in event-loop turns': off}}
    return {'confirmed': False, 'cases': cases}


try:
    out = asyncio.run(main())
except BaseException as e:  # pylint: disable=broad-except
    out = {'confirmed': False, 'error': 'harness: %r' % e}
print(json.dumps(out, default=str))
