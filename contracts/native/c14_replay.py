"""Native replays for C14 (batch API access control) on the REAL code under /venv/bin/python.

 * gear/gear/auth.py is executed as a whole (module `gear.auth`) with inert stand-ins for what is not installed offline
   (aiohttp_session, hailtop, the prometheus-backed cache); the authenticator is a subclass whose user directory is a dict
   keyed by bearer token (the real get_session_id / wrappers run unchanged);
 * the wrappers, helpers and route handlers of batch/batch/front_end/front_end.py, add_metadata_to_request of batch/utils.py
   and web_security_header_generator of web_common are extracted by AST and exec'd (the modules import pandas, plotly, ...);
 * gear.Database is a fake on sqlite3 that runs the embedded SQL verbatim (%s -> ?, locking clauses dropped) and records
   every statement; `CALL proc` is recorded as a write.

stdin: {"scenario": "wrappers" | "membership" | "owner" | "token-replay" | "routes" | "all", "routes": [[verb, path, class]...]}
stdout (last line): {"confirmed": bool, "input": ..., "observed": ..., "required": ...}
"""
import ast, asyncio, contextlib, importlib.util, json, logging, os, sqlite3, sys, traceback, types, typing, warnings
from functools import wraps

warnings.simplefilter('ignore')
from aiohttp import web
from aiohttp.test_utils import make_mocked_request

repo = os.environ['VERIF_REPO']
payload = json.loads(sys.stdin.read() or '{}')
AUTH_PY = os.path.join(repo, 'gear/gear/auth.py')
FE_PY = os.path.join(repo, 'batch/batch/front_end/front_end.py')
UT_PY = os.path.join(repo, 'batch/batch/utils.py')
WC_PY = os.path.join(repo, 'web_common/web_common/web_common.py')


# ---------------------------------------------------------------------------------------------- gear.auth, for real
def stub(name, **attrs):
    m = types.ModuleType(name)
    m.__dict__.update(attrs)
    sys.modules[name] = m
    return m


async def get_session(request):
    return request.get('_session', {})


aiohttp_session = stub('aiohttp_session', get_session=get_session, Session=dict)


class DeployConfig:
    def url(self, service, path):
        return 'http://%s.local%s' % (service, path)

    def external_url(self, service, path):
        return 'http://%s.example%s' % (service, path)


async def retry_transient_errors(f, *args, **kwargs):
    return await f(*args, **kwargs)


_h = stub('hailtop', httpx=stub('hailtop.httpx', ClientSession=type('ClientSession', (), {})), config=stub('hailtop.config', get_deploy_config=DeployConfig), utils=stub('hailtop.utils', retry_transient_errors=retry_transient_errors))
_h.__path__ = []
_g = stub('gear')
_g.__path__ = [os.path.join(repo, 'gear', 'gear')]


def load(name, path):
    spec = importlib.util.spec_from_file_location(name, path)
    mod = importlib.util.module_from_spec(spec)
    sys.modules[name] = mod
    spec.loader.exec_module(mod)
    return mod


load('gear.system_permissions', os.path.join(repo, 'gear/gear/system_permissions.py'))


class _Cache:
    def __init__(self, loader, *a):
        self.loader = loader

    async def lookup(self, k):
        return await self.loader(k)


stub('gear.time_limited_max_size_cache', TimeLimitedMaxSizeCache=_Cache)
gear_auth = load('gear.auth', AUTH_PY)


def user(name, is_developer=0, state='active', **extra):
    d = {'id': 1, 'state': state, 'username': name, 'login_id': name + '@x', 'namespace_name': 'default', 'is_developer': is_developer, 'is_service_account': 0, 'hail_credentials_secret_name': 'c', 'tokens_secret_name': 't'}
    d.update(extra)
    return d


class FakeAuth(gear_auth.Authenticator):
    USERS = {}

    async def _fetch_userdata(self, request):
        sid = await gear_auth.get_session_id(request)
        return None if sid is None else self.USERS.get(sid)

    async def _check_system_permission(self, request, permission):
        return False


auth = FakeAuth()


# ---------------------------------------------------------------------------------------------- fake gear.Database
class CallError(Exception):
    def __init__(self, rv):
        super().__init__(rv)
        self.rv = rv


SCHEMA = """
CREATE TABLE billing_projects (name TEXT PRIMARY KEY COLLATE NOCASE, name_cs TEXT, status TEXT DEFAULT 'open', `limit` REAL);
CREATE TABLE billing_project_users (billing_project TEXT COLLATE NOCASE, user TEXT COLLATE NOCASE, user_cs TEXT, PRIMARY KEY (billing_project, user));
CREATE TABLE batches (id INTEGER PRIMARY KEY, user TEXT, billing_project TEXT COLLATE NOCASE, state TEXT DEFAULT 'running', deleted INTEGER DEFAULT 0, token TEXT, format_version INTEGER DEFAULT 7, n_jobs INTEGER DEFAULT 0);
CREATE TABLE batch_updates (batch_id INTEGER, update_id INTEGER, token TEXT, start_job_group_id INTEGER, n_job_groups INTEGER, start_job_id INTEGER, n_jobs INTEGER, committed INTEGER DEFAULT 0, time_created INTEGER, time_committed INTEGER, PRIMARY KEY (batch_id, update_id));
CREATE TABLE job_groups_cancelled (id INTEGER, job_group_id INTEGER, PRIMARY KEY (id, job_group_id));
CREATE TABLE job_groups (batch_id INTEGER, job_group_id INTEGER, user TEXT, state TEXT, update_id INTEGER, PRIMARY KEY (batch_id, job_group_id));
INSERT INTO billing_projects (name, name_cs) VALUES ('proj-a', 'proj-a'), ('proj-m', 'proj-m');
INSERT INTO billing_project_users VALUES ('proj-a', 'alice', 'alice'), ('proj-a', 'bob', 'bob'), ('proj-m', 'mallory', 'mallory');
INSERT INTO batches (id, user, billing_project, token) VALUES (1, 'alice', 'proj-a', 'batch-token-1'), (2, 'mallory', 'proj-m', 'batch-token-2');
INSERT INTO job_groups VALUES (1, 0, 'alice', 'running', NULL), (2, 0, 'mallory', 'running', NULL);
INSERT INTO batch_updates (batch_id, update_id, token, start_job_group_id, n_job_groups, start_job_id, n_jobs, committed) VALUES (1, 1, 'update-token-of-alice', 1, 0, 1, 2, 0);
"""


def _sql(sql):
    for drop in ('FOR UPDATE', 'LOCK IN SHARE MODE'):
        sql = sql.replace(drop, '')
    return sql.replace('%s', '?').strip().rstrip(';')


def _args(a):
    if a is None:
        return ()
    return tuple(a) if isinstance(a, (list, tuple)) else (a,)


class Tx:
    def __init__(self, db):
        self.db = db

    async def _run(self, kind, sql, args):
        first = sql.split()[0].upper()
        self.db.log.append({'method': kind, 'statement': ' '.join(sql.split())[:110], 'args': [str(x) for x in _args(args)], 'write': first != 'SELECT'})
        if first == 'CALL':
            return None
        return self.db.conn.execute(_sql(sql), _args(args))

    async def execute_and_fetchone(self, sql, args=None, query_name=None):
        cur = await self._run('execute_and_fetchone', sql, args)
        if cur is None:
            return {'rc': 0}
        row = cur.fetchone()
        return dict(row) if row is not None else None

    select_and_fetchone = execute_and_fetchone

    async def select_and_fetchall(self, sql, args=None, query_name=None):
        cur = await self._run('select_and_fetchall', sql, args)
        for row in cur.fetchall() if cur is not None else []:
            yield dict(row)

    execute_and_fetchall = select_and_fetchall

    async def execute_insertone(self, sql, args=None, query_name=None):
        cur = await self._run('execute_insertone', sql, args)
        return cur.lastrowid if cur is not None else None

    async def execute_update(self, sql, args=None, query_name=None):
        cur = await self._run('execute_update', sql, args)
        return cur.rowcount if cur is not None else 0

    async def just_execute(self, sql, args=None):
        await self._run('just_execute', sql, args)

    async def execute_many(self, sql, args_array, query_name=None):
        for a in args_array:
            await self._run('execute_many', sql, a)

    async def check_call_procedure(self, sql, args=None, query_name=None):
        await self._run('check_call_procedure', sql, args)
        return {'rc': 0}


class Database(Tx):
    def __init__(self):
        self.conn = sqlite3.connect(':memory:')
        self.conn.row_factory = sqlite3.Row
        self.conn.executescript(SCHEMA)
        self.log = []
        Tx.__init__(self, self)

    @contextlib.asynccontextmanager
    async def start(self, read_only=False):
        yield Tx(self)

    def writes(self):
        return [e for e in self.log if e['write']]


def transaction(db, read_only=False):
    def transformer(fun):
        @wraps(fun)
        async def wrapper(*args, **kwargs):
            async with db.start(read_only=read_only) as tx:
                return await fun(tx, *args, **kwargs)

        return wrapper

    return transformer


# ---------------------------------------------------------------------------------------------- real front end pieces
def top_defs(path):
    src = open(path).read()
    return src, {n.name: n for n in ast.parse(src).body if isinstance(n, (ast.FunctionDef, ast.AsyncFunctionDef))}


log = logging.getLogger('c14-replay')
log.addHandler(logging.NullHandler())
log.propagate = False


class _TaskManager:
    def ensure_future(self, coro):
        coro.close()


class _Creds:
    async def auth_headers(self):
        return {}


async def json_request(request):
    return request['_json']


NS = dict(typing.__dict__)
NS.update(
    web=web, wraps=wraps, asyncio=asyncio, traceback=traceback, aiohttp_session=aiohttp_session, auth=auth, log=log, SCOPE='deploy', Database=Database, Transaction=Tx,
    transaction=transaction, UserData=dict, ROOT_JOB_GROUP_ID=0, json_request=json_request, json_response=web.json_response, time_msecs=lambda: 1700000000000, CallError=CallError,
    deploy_config=DeployConfig(), retry_transient_errors=retry_transient_errors, CommonAiohttpAppKeys=types.SimpleNamespace(CLIENT_SESSION='client_session'),
    validate_and_clean_jobs=lambda x: None, validate_job_groups=lambda x: None, validate_batch_update=lambda u: u.setdefault('n_job_groups', 0), validate_batch=lambda x: None,
    ValidationError=type('ValidationError', (Exception,), {}), set_message=lambda *a: None, P=typing.ParamSpec('P'), T=typing.TypeVar('T'),
    FileStore=object, BatchFormatVersion=object, SpecWriter=object,
)


def exec_defs(path, names, ns=NS, missing_ok=False):
    src, defs = top_defs(path)
    body = []
    for n in names:
        if n not in defs:
            if missing_ok:
                continue
            raise KeyError('%s not found in %s' % (n, path))
        body.append(defs[n])
    exec(compile(ast.Module(body=body, type_ignores=[]), path, 'exec'), ns)


def exec_module_literals(path, ns=NS):
    """module-level NAME = <literal> bindings of the real module (constants the extracted functions may refer to); names the
    harness already provides are left alone"""
    for n in ast.parse(open(path).read()).body:
        if isinstance(n, ast.Assign) and len(n.targets) == 1 and isinstance(n.targets[0], ast.Name) and n.targets[0].id not in ns:
            try:
                ns[n.targets[0].id] = ast.literal_eval(n.value)
            except (ValueError, SyntaxError):
                pass


exec_module_literals(FE_PY)
exec_defs(WC_PY, ['web_security_header_generator', 'web_security_headers', 'web_security_headers_swagger'])
exec_defs(UT_PY, ['add_metadata_to_request'])
WRAPPER_NAMES = ['authenticated_developers_or_auth_only', 'catch_ui_error_in_dev', '_user_can_access', 'billing_project_users_only', 'deprecated']
exec_defs(FE_PY, WRAPPER_NAMES)


def make_app(db):
    app = web.Application()
    app['db'] = db
    app['frozen'] = False
    app['file_store'] = None
    app['task_manager'] = _TaskManager()
    app['hail_credentials'] = _Creds()
    app['client_session'] = types.SimpleNamespace(patch=None)
    return app


async def call(handler, method, path, match_info, token, db, body=None):
    headers = {'Authorization': 'Bearer ' + token} if token else {}
    request = make_mocked_request(method, path, headers=headers, match_info=dict(match_info), app=make_app(db))
    if body is not None:
        request['_json'] = body
    try:
        resp = await handler(request)
        return getattr(resp, 'status', 200)
    except web.HTTPException as e:
        return e.status
    except Exception as e:  # a crash is a rejection as well (500), reported as such
        return 'exception %s: %s' % (type(e).__name__, str(e)[:80])


def rejected(status):
    return not (isinstance(status, int) and 200 <= status < 300)


def finding(what, inp, observed, required):
    return {'confirmed': True, 'what': what, 'input': inp, 'observed': observed, 'required': required}


# ---------------------------------------------------------------------------------------------- scenarios
# user names: an ordinary one, the auth service, and names that only LOOK like it (pieces of it, the empty name, other case,
# padded) - "the auth service" means the name is exactly 'auth'
USERNAMES = ('mallory', 'auth', 'a', 'h', 'au', 'th', 'aut', 'uth', 'Auth', 'AUTH', 'auth ', ' auth', 'auth2', 'xauth', 'authx', '')
async def scenario_wrappers():
    EFFECTS = []

    def handlers():
        @auth.authenticated_users_only()
        async def api_any(request, userdata):
            EFFECTS.append(('users_only', userdata))
            return web.Response()

        @auth.authenticated_developers_only(redirect=False)
        async def dev_only(request, userdata):
            EFFECTS.append(('developers_only', userdata))
            return web.Response()

        @NS['authenticated_developers_or_auth_only']
        async def dev_or_auth(request):
            EFFECTS.append(('developers_or_auth_only', None))
            return web.Response()

        return {'authenticated_users_only': api_any, 'authenticated_developers_only': dev_only, 'authenticated_developers_or_auth_only': dev_or_auth}

    hs = handlers()
    db = Database()
    cases = []
    for flag in (0, 1, False, True, None, 2):
        for state in ('active', 'inactive'):
            for name in USERNAMES:
                cases.append(user(name, flag, state))
    FakeAuth.USERS = {'tok%d' % i: u for i, u in enumerate(cases)}
    for wname, h in hs.items():
        for path in ('/api/v1alpha/x', '/x'):
            before = len(EFFECTS)
            st = await call(h, 'POST', path, {}, None, db)
            if len(EFFECTS) != before or st not in (401, 302):
                return finding('%s lets a request without a session through' % wname, {'wrapper': wname, 'path': path, 'session': None}, {'status': st, 'handler_called': len(EFFECTS) != before}, 'handler not called; 401 or login redirect')
        for tok, u in FakeAuth.USERS.items():
            before = len(EFFECTS)
            st = await call(h, 'POST', '/api/v1alpha/x', {}, tok, db)
            reached = len(EFFECTS) != before
            allowed = u['state'] != 'inactive'
            if wname == 'authenticated_developers_only':
                allowed = allowed and bool(u['is_developer'])
            if wname == 'authenticated_developers_or_auth_only':
                allowed = allowed and (bool(u['is_developer']) or u['username'] == 'auth')
            if reached and not allowed:
                return finding('%s lets a caller through that the property excludes' % wname, {'wrapper': wname, 'userdata': u}, {'status': st, 'handler_called': True}, 'handler not called, HTTP error' + (' (is_developer=%r is falsy)' % (u['is_developer'],) if 'developers' in wname else ''))
            if not reached and not rejected(st):
                return finding('%s answers success without calling the handler' % wname, {'wrapper': wname, 'userdata': u}, {'status': st}, 'error status')
    # a userdata mapping without a 'state' key (TrustedSingleTenantAuthenticator's shape) must not get through silently either
    return None


async def scenario_membership():
    EFFECTS = []
    bpu = NS['billing_project_users_only']

    @bpu()
    async def get_batch(request, userdata, batch_id):
        EFFECTS.append(('read', userdata['username'], batch_id))
        return web.Response()

    @bpu(redirect=False)
    async def ui_delete(request, userdata, batch_id):
        EFFECTS.append(('delete', userdata['username'], batch_id))
        return web.Response()

    FakeAuth.USERS = {'tok-alice': user('alice'), 'tok-bob': user('bob'), 'tok-mallory': user('mallory'), 'tok-gone': user('alice', state='inactive')}
    db = Database()
    for h, method, path in ((get_batch, 'GET', '/api/v1alpha/batches/%d'), (ui_delete, 'POST', '/batches/%d/delete')):
        for tok, bid, member in (('tok-alice', 1, True), ('tok-bob', 1, True), ('tok-mallory', 1, False), ('tok-alice', 2, False), ('tok-mallory', 2, True), ('tok-alice', 99, False), ('tok-gone', 1, False), (None, 1, False)):
            before = len(EFFECTS)
            st = await call(h, method, path % bid, {'batch_id': str(bid)}, tok, db)
            reached = len(EFFECTS) != before
            who = FakeAuth.USERS[tok]['username'] if tok else None
            if reached and not member:
                return finding('billing_project_users_only / _user_can_access admits a caller outside the batch\'s billing project', {'route': method + ' ' + path % bid, 'caller': who, 'batch': bid, 'billing_project_users': 'proj-a: alice, bob; proj-m: mallory', 'batches': '1 in proj-a, 2 in proj-m'}, {'status': st, 'handler_called': True, 'effect': EFFECTS[-1]}, '404 and no handler call')
            if reached and EFFECTS[-1][2] != bid:
                return finding('handler is given another batch id than the one checked', {'batch': bid}, {'effect': EFFECTS[-1]}, 'batch_id == %d' % bid)
            if not reached and member:
                return finding('a member of the batch\'s billing project is turned away', {'caller': who, 'batch': bid}, {'status': st}, 'handler call')
            if not reached and not rejected(st):
                return finding('success without handler call', {'caller': who, 'batch': bid}, {'status': st}, 'error status')
    # direct calls of the real _user_can_access
    uca = NS['_user_can_access']
    for bid, who, want in ((1, 'alice', True), (1, 'mallory', False), (2, 'alice', False), (3, 'alice', False)):
        got = await uca(db, bid, who)
        if bool(got) != want:
            return finding('_user_can_access(db, %d, %r) == %r' % (bid, who, got), {'batch_id': bid, 'user': who}, {'result': got}, want)
    return None


OWNER_FUNCS = ['_create_batch_update', '_create_job_groups', '_create_jobs', '_commit_update', 'create_update', 'update_batch_fast', 'commit_update', 'create_jobs', 'create_jobs_for_update', 'create_job_groups']


def load_owner_funcs():
    src, defs = top_defs(FE_PY)
    body = []
    for n in OWNER_FUNCS:
        if n not in defs:
            continue
        d = defs[n]
        d.decorator_list = [x for x in d.decorator_list if not (isinstance(x, ast.Call) and isinstance(x.func, ast.Attribute) and isinstance(x.func.value, ast.Name) and x.func.value.id == 'routes')]
        body.append(d)
    exec(compile(ast.Module(body=body, type_ignores=[]), FE_PY, 'exec'), NS)


async def scenario_owner():
    """an authenticated, active user who does not own the batch (and is not in its billing project) tries every way of adding to
    or committing batch 1 (owner alice); a fresh update token is used, so no replay is involved"""
    load_owner_funcs()
    FakeAuth.USERS = {'tok-alice': user('alice'), 'tok-mallory': user('mallory'), 'tok-bob': user('bob')}
    attempts = [
        ('create_update', 'POST', '/api/v1alpha/batches/1/updates/create', {'batch_id': '1'}, {'token': 'fresh-token', 'n_jobs': 1}),
        ('update_batch_fast', 'POST', '/api/v1alpha/batches/1/update-fast', {'batch_id': '1'}, {'update': {'token': 'fresh-token', 'n_jobs': 1}, 'bunch': [], 'job_groups': []}),
        ('commit_update', 'PATCH', '/api/v1alpha/batches/1/updates/1/commit', {'batch_id': '1', 'update_id': '1'}, None),
        ('create_jobs_for_update', 'POST', '/api/v1alpha/batches/1/updates/1/jobs/create', {'batch_id': '1', 'update_id': '1'}, [{'job_id': 1}]),
        ('create_jobs', 'POST', '/api/v1alpha/batches/1/jobs/create', {'batch_id': '1'}, [{'job_id': 1}]),
        ('create_job_groups', 'POST', '/api/v1alpha/batches/1/updates/1/job-groups/create', {'batch_id': '1', 'update_id': '1'}, [{'job_group_id': 1, 'absolute_parent_id': 0}]),
    ]
    for who in ('tok-mallory', 'tok-bob'):
        for name, method, path, mi, body in attempts:
            if name not in NS:
                continue
            db = Database()
            st = await call(NS[name], method, path, mi, who, db, body)
            if db.writes() or not rejected(st):
                return finding('%s: a caller who does not own the batch is not turned away' % name, {'route': method + ' ' + path, 'caller': FakeAuth.USERS[who]['username'], 'owner_of_batch_1': 'alice', 'body': body}, {'status': st, 'write_statements': db.writes()}, 'HTTP error and no write statement')
            if not isinstance(st, int):
                # not an HTTP error: the request was not turned away by the owner gate but ran on into code that the replay host
                # cannot execute (job specs, file store ...) - on the real service that code writes the jobs
                return finding('%s: a caller who does not own the batch gets past the owner gate' % name, {'route': method + ' ' + path, 'caller': FakeAuth.USERS[who]['username'], 'owner_of_batch_1': 'alice', 'body': body}, {'status': st, 'statements': db.log}, '404 from the owner gate')
    # the owner gets through the gates (create_update inserts exactly one update row)
    db = Database()
    st = await call(NS['create_update'], 'POST', '/api/v1alpha/batches/1/updates/create', {'batch_id': '1'}, 'tok-alice', db, {'token': 'fresh-token', 'n_jobs': 1})
    if rejected(st) or len(db.writes()) != 1:
        return finding('the owner cannot create an update', {'caller': 'alice'}, {'status': st, 'writes': db.writes()}, '200 and one INSERT')
    return None


async def scenario_token_replay(ids_only=False):
    """the non-owner presents the token of an existing, uncommitted update of alice's batch 1"""
    load_owner_funcs()
    FakeAuth.USERS = {'tok-mallory': user('mallory')}
    tok = 'update-token-of-alice'
    db = Database()
    if ids_only:
        db.conn.execute('DELETE FROM batches WHERE 0')
    body = {'update': {'token': tok, 'n_jobs': 2}, 'bunch': [], 'job_groups': []}
    st = 500 if ids_only else await call(NS['update_batch_fast'], 'POST', '/api/v1alpha/batches/1/update-fast', {'batch_id': '1'}, 'tok-mallory', db, body)
    if db.writes() or not rejected(st):
        return finding(
            'update_batch_fast: a caller who does not own the batch (and is not in its billing project) commits the owner\'s pending update by replaying its update token with an empty bunch',
            {'route': 'POST /api/v1alpha/batches/1/update-fast', 'caller': 'mallory (authenticated, active, not a developer)', 'owner_of_batch_1': 'alice', 'existing_update': {'batch_id': 1, 'update_id': 1, 'token': tok, 'committed': 0}, 'body': body},
            {'status': st, 'write_statements': db.writes(), 'statements': db.log},
            'HTTP error and no write statement (only the owner may commit)',
        )
    db = Database()
    st = await call(NS['create_update'], 'POST', '/api/v1alpha/batches/1/updates/create', {'batch_id': '1'}, 'tok-mallory', db, {'token': tok, 'n_jobs': 2})
    if not rejected(st):
        return finding('create_update: a caller who does not own the batch gets the ids of the owner\'s update by replaying its token (no error)', {'route': 'POST /api/v1alpha/batches/1/updates/create', 'caller': 'mallory', 'body': {'token': tok, 'n_jobs': 2}}, {'status': st, 'statements': db.log}, 'HTTP error')
    return None


async def scenario_routes():
    """every route of the real table with its REAL decorator stack and a recording body: who reaches the body?"""
    src = open(FE_PY).read()
    tree = ast.parse(src)
    REACHED = []
    ns = dict(NS)
    ns['routes'] = web.RouteTableDef()
    ns['REACHED'] = REACHED
    body = []
    for n in tree.body:
        if isinstance(n, (ast.FunctionDef, ast.AsyncFunctionDef)) and any(isinstance(d, ast.Call) and isinstance(d.func, ast.Attribute) and isinstance(d.func.value, ast.Name) and d.func.value.id == 'routes' for d in n.decorator_list):
            n.body = ast.parse('REACHED.append(%r)\nreturn web.Response()' % n.name).body
            n.returns = None
            for a in n.args.posonlyargs + n.args.args + n.args.kwonlyargs:
                a.annotation = None
            body.append(n)
    mod = ast.fix_missing_locations(ast.Module(body=body, type_ignores=[]))
    try:
        exec(compile(mod, FE_PY, 'exec'), ns)
    except Exception as e:
        return {'confirmed': False, 'error': 'route table could not be rebuilt natively: %r' % (e,)}
    classes = {(v.upper(), p): c for v, p, c in payload.get('routes', [])}
    FakeAuth.USERS = {'tok-mallory': user('mallory'), 'tok-gone': user('gone', is_developer=1, state='inactive'), 'tok-zero': user('zero', is_developer=0)}
    db = Database()
    import re as _re

    for r in ns['routes']:
        if not isinstance(r, web.RouteDef):
            continue
        names = _re.findall(r'\{(\w+)', r.path)
        mi = {k: '1' if k in ('batch_id', 'job_id', 'job_group_id', 'update_id') else 'x' for k in names}
        concrete = _re.sub(r'\{(\w+)[^}]*\}', lambda m: mi[m.group(1)], r.path) or '/'
        cls = classes.get((r.method.upper(), r.path), 'other')
        if cls == 'exempt':
            continue
        callers = [(None, 'no session')] + [('tok-gone', 'inactive account')]
        if cls in ('batch-scoped', 'billing-administration'):
            callers.append(('tok-mallory', 'active user, not a developer, not in the billing project of batch 1'))
        for tok, who in callers:
            before = len(REACHED)
            st = await call(r.handler, r.method, concrete, mi, tok, db)
            if len(REACHED) != before:
                return finding('route %s %s [%s] lets %s reach its handler' % (r.method, r.path, cls, who), {'route': '%s %s' % (r.method, r.path), 'class': cls, 'caller': who}, {'status': st, 'handler_reached': REACHED[-1]}, 'HTTP error, handler not reached')
    return None


def load_funcs(names, ns=NS):
    """exec the named module-level functions of the real front end with their real decorators except the route registration"""
    src, defs = top_defs(FE_PY)
    body = []
    for n in names:
        if n in defs:
            d = defs[n]
            d.decorator_list = [x for x in d.decorator_list if not (isinstance(x, ast.Call) and isinstance(x.func, ast.Attribute) and isinstance(x.func.value, ast.Name) and x.func.value.id == 'routes')]
            body.append(d)
    exec(compile(ast.Module(body=body, type_ignores=[]), FE_PY, 'exec'), ns)
    return [d.name for d in body]


async def scenario_billing_listing():
    """the handlers that list billing projects for every authenticated user: the real handler runs, the listing helper of
    batch/utils.py is a recorder; without a user name it would answer every project"""
    ASKED = []

    async def listing(db, user=None, billing_project=None):
        ASKED.append({'user': user, 'billing_project': billing_project})
        return [{'billing_project': 'proj-m', 'status': 'open', 'users': ['mallory'], 'limit': None, 'accrued_cost': 0}]

    async def render_template(*a, **k):
        return web.Response()

    ns = dict(NS, query_billing_projects_with_cost=listing, query_billing_projects_without_cost=listing, render_template=render_template, cost_str=str)
    names = load_funcs(payload.get('handlers') or ['get_billing_projects', 'get_billing_project', 'ui_get_billing_limits'], ns)
    cases = [user(name, flag) for flag in (0, False, None, 1, True) for name in USERNAMES]
    FakeAuth.USERS = {'tok%d' % i: u for i, u in enumerate(cases)}
    db = Database()
    for hname in names:
        for tok, u in FakeAuth.USERS.items():
            del ASKED[:]
            st = await call(ns[hname], 'GET', '/api/v1alpha/billing_projects', {'billing_project': 'proj-m'}, tok, db)
            privileged = bool(u['is_developer']) or u['username'] == 'auth'
            for a in ASKED:
                if not privileged and a['user'] != u['username']:
                    return finding('%s lists billing projects without restricting them to the caller' % hname, {'handler': hname, 'userdata': u}, {'status': st, 'listing_helper_called_with': a}, 'user == %r (the caller is neither a developer nor the auth service)' % u['username'])
    return None


class _Spec:
    """stand-in for batch.batch_format_version.BatchFormatVersion as far as job_tasks_from_spec / the log store look at it"""

    def __init__(self, v):
        self.format_version = v

    def get_spec_has_input_files(self, spec):
        return bool(spec.get('input_files'))

    def get_spec_has_output_files(self, spec):
        return bool(spec.get('output_files'))


async def scenario_job_log():
    """GET .../batches/{batch_id}/jobs/{job_id}/log/{container} on the real get_job_container_log / _get_job_container_log /
    _get_job_log chain: whatever the container segment says, the worker / the log store is only asked for the checked batch, the
    requested job and one of the job's own containers"""
    import json as _json

    ASKED = []

    class Session:
        async def get_read(self, url, **kw):
            ASKED.append(('worker', url))
            return b'log'

    class Store:
        async def read_log_file(self, fmt, batch_id, job_id, attempt_id, task):
            ASKED.append(('store', batch_id, job_id, task))
            return b'log'

    class JobDB:
        def __init__(self, state, spec):
            self.state, self.spec = state, spec

        async def select_and_fetchone(self, sql, args=None, query_name=None):
            return {'state': self.state, 'spec': _json.dumps(self.spec), 'ip_address': '10.0.0.7', 'format_version': 7, 'attempt_id': 'aaaaaa', 'last_cancelled_attempt_id': None}

    ns = dict(NS, BatchFormatVersion=_Spec, json=_json, complete_states=('Cancelled', 'Error', 'Failed', 'Success'), aiohttp=__import__('aiohttp'))
    names = ['job_tasks_from_spec', 'has_resource_available', 'attempt_id_from_spec', '_get_job_record', '_get_job_container_log_from_worker', '_read_job_container_log_from_cloud_storage', '_get_job_container_log', '_get_job_log', 'get_job_container_log']
    got = load_funcs(names, ns)
    if set(got) != set(names):
        return {'confirmed': False, 'error': 'log chain not found: %r' % sorted(set(names) - set(got))}
    specs = [{'input_files': [], 'output_files': []}, {'input_files': [1], 'output_files': []}, {'input_files': [1], 'output_files': [1]}, {'input_files': [], 'output_files': [1], 'name': '../../2/jobs/1/log/main', 'container': '..', 'task': '../main'}]
    containers = ['main', 'input', 'output', 'bogus', '', '../../../../batches/2/jobs/1/log/main', 'main/../../../../2/jobs/1/log/main', '..', 'main/']
    for state in ('Running', 'Success', 'Failed', 'Pending', 'Cancelled'):
        for spec in specs:
            tasks = ns['job_tasks_from_spec']({'format_version': 7, 'spec': _json.dumps(spec)})
            if not set(tasks) <= {'input', 'main', 'output'}:
                return finding('job_tasks_from_spec answers a container name other than input / main / output (the name becomes a path segment of the worker URL and of the log-store path)', {'record': {'format_version': 7, 'spec': spec}}, {'containers': tasks}, "a subset of ['input', 'main', 'output']")
            for container in containers:
                del ASKED[:]
                app = make_app(JobDB(state, spec))
                app['client_session'] = Session()
                app['file_store'] = Store()
                request = make_mocked_request('GET', '/api/v1alpha/batches/1/jobs/7/log/x', match_info={'batch_id': '1', 'job_id': '7', 'container': container}, app=app)
                try:
                    resp = await ns['get_job_container_log'](request, 1)
                    st = getattr(resp, 'status', 200)
                except web.HTTPException as e:
                    st = e.status
                except Exception as e:  # pylint: disable=broad-except
                    st = 'exception %s' % type(e).__name__
                for a in ASKED:
                    ok = (a[1] == 'http://10.0.0.7:5000/api/v1alpha/batches/1/jobs/7/log/%s' % container and container in tasks) if a[0] == 'worker' else (a[1:3] == (1, 7) and a[3] in tasks)
                    if not ok:
                        return finding('get_job_container_log fetches something else than the log of a container of the requested job of the checked batch', {'route': 'GET /api/v1alpha/batches/1/jobs/7/log/{container}', 'container': container, 'job_state': state, 'containers_of_the_job': tasks, 'caller': 'any member of the billing project of batch 1'}, {'status': st, 'asked': a}, 'HTTP 400 (unknown container), nothing fetched')
    return None


JOBS_SCHEMA = """
CREATE TABLE jobs (batch_id INTEGER, job_id INTEGER, state TEXT, PRIMARY KEY (batch_id, job_id));
CREATE TABLE job_attributes (batch_id INTEGER, job_id INTEGER, `key` TEXT, `value` TEXT);
CREATE TABLE resources (resource_id INTEGER PRIMARY KEY, resource TEXT, rate REAL);
CREATE TABLE aggregated_job_resources_v3 (batch_id INTEGER, job_id INTEGER, resource_id INTEGER, `usage` INTEGER);
INSERT INTO resources VALUES (1, 'compute/n1-preemptible/1', 0.5);
"""


async def scenario_billing_jobs():
    """GET .../batches/{batch_id}/jobs/resources on the real _query_batch_jobs_for_billing, the statements run by sqlite: a
    member of batch 1's billing project pages through batch 1 and must only ever be shown jobs of batch 1"""
    import collections as _collections

    ns = dict(NS, collections=_collections)
    if load_funcs(['_query_batch_jobs_for_billing'], ns) != ['_query_batch_jobs_for_billing']:
        return {'confirmed': False, 'error': '_query_batch_jobs_for_billing not found'}
    db = Database()
    db.conn.executescript(JOBS_SCHEMA)
    for b, n in ((1, 5), (2, 4)):
        for j in range(1, n + 1):
            db.conn.execute('INSERT INTO jobs VALUES (?, ?, ?)', (b, j, 'Success'))
            db.conn.execute("INSERT INTO job_attributes VALUES (?, ?, 'name', ?)", (b, j, 'b%d-j%d' % (b, j)))
            db.conn.execute('INSERT INTO aggregated_job_resources_v3 VALUES (?, ?, 1, ?)', (b, j, 100 * b))
    for q in ('', '?limit=2', '?last_job_id=0', '?last_job_id=2', '?last_job_id=5', '?last_job_id=2&limit=3', '?last_job_id=7&limit=10000'):
        request = make_mocked_request('GET', '/api/v1alpha/batches/1/jobs/resources' + q, match_info={'batch_id': '1'}, app=make_app(db))
        try:
            jobs, _ = await ns['_query_batch_jobs_for_billing'](request, 1)
        except web.HTTPException:
            continue
        foreign = [{'batch_id': j['batch_id'], 'job_id': j['job_id'], 'user': j.get('user'), 'attributes': j.get('attributes')} for j in jobs if j['batch_id'] != 1]
        if foreign:
            return finding('_query_batch_jobs_for_billing answers jobs of a batch other than the one the access check was made for', {'route': 'GET /api/v1alpha/batches/1/jobs/resources' + q, 'caller': 'alice (member of proj-a, the billing project of batch 1; not of proj-m)', 'batches': '1 in proj-a (5 jobs), 2 in proj-m (4 jobs)'}, {'jobs_of_other_batches': foreign[:3]}, 'only jobs of batch 1')
    return None


async def scenario_token_replay_ids():
    return await scenario_token_replay(ids_only=True)


async def scenario_update():
    return (await scenario_owner()) or (await scenario_token_replay())


async def scenario_authenticator():
    """the real get_authenticator() under HAIL_TERRA unset / empty / set: callers are trusted without credentials only in the last"""
    saved = os.environ.get('HAIL_TERRA')
    try:
        for label, val in (('unset', None), ('empty', ''), ('set', '1')):
            if val is None:
                os.environ.pop('HAIL_TERRA', None)
            else:
                os.environ['HAIL_TERRA'] = val
            a = gear_auth.get_authenticator()
            trusting = isinstance(a, gear_auth.TrustedSingleTenantAuthenticator)
            if trusting != (label == 'set'):
                return {'confirmed': True, 'what': 'with HAIL_TERRA %s the routes are guarded by %s: callers without credentials are %s' % (label, type(a).__name__, 'accepted as developers' if trusting else 'checked although this is the single-tenant deployment'), 'input': {'HAIL_TERRA': val}}
    finally:
        if saved is None:
            os.environ.pop('HAIL_TERRA', None)
        else:
            os.environ['HAIL_TERRA'] = saved
    return None


SCENARIOS = {'authenticator': scenario_authenticator, 'job-log': scenario_job_log, 'billing-jobs': scenario_billing_jobs, 'billing-listing': scenario_billing_listing, 'update': scenario_update, 'token-replay-ids': scenario_token_replay_ids, 'wrappers': scenario_wrappers, 'membership': scenario_membership, 'owner': scenario_owner, 'token-replay': scenario_token_replay, 'routes': scenario_routes}


async def main():
    want = payload.get('scenario', 'all')
    order = [want] if want in SCENARIOS else ['wrappers', 'membership', 'owner', 'routes', 'billing-listing', 'job-log', 'billing-jobs', 'authenticator']
    ran = []
    for s in order:
        try:
            r = await SCENARIOS[s]()
        except Exception:
            print(json.dumps({'confirmed': False, 'scenario': s, 'error': traceback.format_exc()[-1500:]}))
            return
        ran.append(s)
        if r is not None:
            r['scenario'] = s
            print(json.dumps(r, default=str))
            return
    print(json.dumps({'confirmed': False, 'scenarios_run': ran, 'note': 'no caller outside the property\'s allowance got through on the real code'}))


asyncio.run(main())
