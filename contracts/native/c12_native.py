"""Native side of C12 (runs under /venv/bin/python on the REAL modules of $VERIF_REPO).

modes (JSON on stdin, one JSON object on stdout):
  {"mode": "bounded"}                       exhaustive finite enumerations that stand in for the float helpers the solver cannot reach
  {"mode": "search", "functions": [...]}    witness search: evaluates the contracts of C12 natively on the real functions over
                                            boundary grids; the first input that breaks a clause is returned
  {"mode": "tables"}                        data facts about the real tables (machine memory = cores * per-core memory, ...)

batch.inst_coll_config imports collaborators that are irrelevant here and not importable offline (gear, the InstanceConfig
classes, the billing manager, cloud location lookup); those modules are replaced by inert stand-ins in sys.modules, as in the
seed demos.  batch.cloud.*.resource_utils are imported unchanged."""
import json
import os
import sys
import types

REPO = os.environ['VERIF_REPO']
sys.path.insert(0, os.path.join(REPO, 'batch'))
sys.path.insert(0, os.path.join(REPO, 'gear'))
sys.path.insert(0, os.path.join(REPO, 'hail', 'python'))

GIB = 1024**3
MIB = 1024**2
SPEC = None  # specification data, sent by the checker (contracts/C12.py is the single source)


def _stub(name, **attrs):
    m = types.ModuleType(name)
    m.__dict__.update(attrs)
    sys.modules[name] = m
    return m


class _SlimInstanceConfig:
    def __init__(self, **kwargs):
        self.kwargs = kwargs

    @classmethod
    def create(cls, **kwargs):
        return cls(**kwargs)

    def price_per_hour(self, resource_rates, cores_mcpu, memory_bytes, storage_gib):
        # prices only ORDER the candidate pools, so the search sweeps orders (PRICE_POLICY): 'falling' makes every later pool
        # cheaper (the "cheapest" loop has to replace its choice every time), 'rising' every later pool dearer (the first
        # satisfying pool must stay the choice while the loop goes on over the others), 'mixed' a fixed pseudo-random order
        PRICE_CALLS.append(1)
        n = len(PRICE_CALLS)
        if PRICE_POLICY[0] == 'rising':
            return 1000.0 + n
        if PRICE_POLICY[0] == 'mixed':
            return float((n // 2 * 7919 + 13) % 101)  # n // 2: the two locations of one pool get the same price
        return 1000.0 - n


PRICE_CALLS = []
PRICE_POLICIES = ('falling', 'rising', 'mixed')
PRICE_POLICY = ['falling']


class _ProductVersions:
    def __init__(self, data):
        self.data = data

    def update(self, data):
        self.data = data


def load():
    _stub('gear', Database=object)
    _stub('batch.cloud.azure.instance_config', AzureSlimInstanceConfig=_SlimInstanceConfig)
    _stub('batch.cloud.gcp.instance_config', GCPSlimInstanceConfig=_SlimInstanceConfig)
    _stub('batch.cloud.utils', possible_cloud_locations=lambda cloud: ['loc-1', 'loc-2'])
    _stub('batch.driver.billing_manager', ProductVersionInfo=object, ProductVersions=_ProductVersions)
    _stub('batch.instance_config', InstanceConfig=object)
    import batch.cloud.azure.resource_utils as az
    import batch.cloud.gcp.resource_utils as gcp
    import batch.cloud.resource_utils as ru
    import batch.inst_coll_config as icc

    return ru, gcp, az, icc


def pack_form(x):
    if x < 250 or x % 250:
        return False
    q = x // 250
    return q & (q - 1) == 0


def mpc_bytes(cloud, wt):
    return SPEC['mpc_mib'][cloud][wt] * MIB


def max_disk_bytes(cloud):
    return SPEC['max_disk_gib'][cloud] * GIB


MIN_DISK = 10 * GIB


def cannot_satisfy(cloud, wt, wcores, c, m, s):
    if s > max_disk_bytes(cloud):
        return True
    M = mpc_bytes(cloud, wt)
    k = 0
    while 250 * 2**k <= SPEC['bound']:
        p = 250 * 2**k
        if not (p > wcores * 1000 or p < c or p * M * 2**50 < m * 1000 * (2**50 + 1)):
            return False
        k += 1
    return True


class Found(Exception):
    def __init__(self, function, clause, inp, got):
        self.doc = {'confirmed': True, 'function': function, 'clause': clause, 'input': inp, 'real_code_returns': got}


def need(ok, function, clause, inp, got):
    if not ok:
        raise Found(function, clause, inp, got)


def call(function, inp, f, *a, **k):
    try:
        return f(*a, **k)
    except Exception as e:  # an exception where the contract promises a value
        raise Found(function, 'does-not-raise', inp, 'raised %r' % (e,))


# ---------------------------------------------------------------------------------------------
# grids


def mem_boundaries(cloud, wt, bound):
    """memory requests at every rounding boundary of the memory-driven core count: k * M / 1000 (+-1 byte, +-1 in the last
    digit) for packable k, their neighbours, and a stride of other k"""
    M = mpc_bytes(cloud, wt)
    ks = set()
    k = 250
    while k <= 2 * bound:
        ks.update((k - 1, k, k + 1, k // 2 + 1, 3 * k // 4))
        k *= 2
    ks.update(range(1, 4000, 37))
    ks.update(range(4000, 2 * bound, 9973))
    out = set([0, 1, 2])
    for k in ks:
        if k <= 0:
            continue
        t = k * M
        for b in (t // 1000 - 1, t // 1000, t // 1000 + 1, -(-t // 1000), -(-t // 1000) + 1):
            if b >= 0:
                out.add(b)
    return sorted(out)


def storage_grid(cloud):
    mx = max_disk_bytes(cloud)
    out = set([0, 1, GIB - 1, GIB, GIB + 1, MIN_DISK - 1, MIN_DISK, MIN_DISK + 1, mx - 1, mx, mx + 1, mx + GIB, 2 * mx])
    for g in (11, 12, 100, 375, 1024, 4096, 32 * 1024, 33 * 1024, 64 * 1024 - 1):
        out.update((g * GIB - 1, g * GIB, g * GIB + 1))
    return sorted(out)


def worker_types(cloud):
    return sorted(SPEC['mpc_mib'][cloud])


# ---------------------------------------------------------------------------------------------
# natively evaluated contracts, one checker per function under contract


def chk_round_up_division(ru, gcp, az, icc):
    for n in range(-60, 400):
        for d in range(1, 40):
            r = call('round_up_division', [n, d], ru.round_up_division, n, d)
            need(r * d >= n and (r - 1) * d < n, 'round_up_division', 'least-multiple-covering-the-numerator', [n, d], r)


def chk_is_valid_cores_mcpu(ru, gcp, az, icc):
    cands = set(range(-5, 70000))
    for k in range(0, 62):
        cands.update((250 * 2**k - 1, 250 * 2**k, 250 * 2**k + 1, 250 * 2**k + 250, 125 * 2**k, 1000 * 3 * 2**k))
    for c in sorted(cands):
        r = call('is_valid_cores_mcpu', [c], ru.is_valid_cores_mcpu, c)
        need(bool(r) == pack_form(c), 'is_valid_cores_mcpu', 'valid-iff-quarter-core-times-power-of-two', [c], r)


def chk_round_storage_bytes_to_gib(ru, gcp, az, icc):
    cands = set()
    for g in list(range(0, 300)) + [2**j for j in range(8, 23)] + [65535, 65536, 65537]:
        cands.update((g * GIB - 1, g * GIB, g * GIB + 1))
    cands.update((2**53 - 1, 2**53))
    for s in sorted(x for x in cands if 0 <= x <= 2**53):
        r = call('round_storage_bytes_to_gib', [s], ru.round_storage_bytes_to_gib, s)
        need(r * GIB >= s and ((r - 1) * GIB < s or (s == 0 and r == 0)), 'round_storage_bytes_to_gib', 'least-gib-covering-the-bytes', [s], r)


def _chk_storage_bytes(cloud, f, name):
    for s in storage_grid(cloud):
        for az_ in (True, False):
            r = call(name, [s, az_], f, s, az_)
            need((r is None) == (s > max_disk_bytes(cloud)), name, 'none-iff-above-the-cloud-maximum', [s, az_], r)
            if r is not None:
                need(r >= s, name, 'granted-at-least-requested', [s, az_], r)
                need(r >= MIN_DISK or (az_ and s == 0 and r == 0), name, 'at-least-the-minimum-disk-unless-zero-allowed', [s, az_], r)
                need(r <= max(s, MIN_DISK), name, 'no-more-than-needed', [s, az_], r)


def chk_gcp_requested_to_actual_storage_bytes(ru, gcp, az, icc):
    _chk_storage_bytes('gcp', gcp.gcp_requested_to_actual_storage_bytes, 'gcp_requested_to_actual_storage_bytes')


def chk_azure_requested_to_actual_storage_bytes(ru, gcp, az, icc):
    _chk_storage_bytes('azure', az.azure_requested_to_actual_storage_bytes, 'azure_requested_to_actual_storage_bytes')


def chk_requested_storage_bytes_to_actual_storage_gib(ru, gcp, az, icc):
    name = 'requested_storage_bytes_to_actual_storage_gib'
    for cloud in ('gcp', 'azure'):
        for s in storage_grid(cloud):
            for az_ in (True, False):
                r = call(name, [cloud, s, az_], ru.requested_storage_bytes_to_actual_storage_gib, cloud, s, az_)
                need((r is None) == (s > max_disk_bytes(cloud)), name, 'none-iff-above-the-cloud-maximum', [cloud, s, az_], r)
                if r is not None:
                    need(r * GIB >= s, name, 'granted-gib-cover-the-request', [cloud, s, az_], r)
                    need(r * GIB >= MIN_DISK or (az_ and s == 0 and r == 0), name, 'at-least-10-gib-unless-zero-allowed', [cloud, s, az_], r)
                    need((r - 1) * GIB < max(s, MIN_DISK), name, 'no-more-than-needed', [cloud, s, az_], r)


def _mpc(cloud, gcp, az, wt):
    if cloud == 'gcp':
        return gcp.gcp_worker_memory_per_core_mib(SPEC['gcp_family'], wt)
    return az.azure_worker_memory_per_core_mib(wt)


def chk_gcp_worker_memory_per_core_mib(ru, gcp, az, icc):
    for wt in worker_types('gcp'):
        r = call('gcp_worker_memory_per_core_mib', [SPEC['gcp_family'], wt], _mpc, 'gcp', gcp, az, wt)
        need(r * MIB == mpc_bytes('gcp', wt), 'gcp_worker_memory_per_core_mib', 'is-the-per-core-memory-of-the-worker-type', [wt], r)


def chk_azure_worker_memory_per_core_mib(ru, gcp, az, icc):
    for wt in worker_types('azure'):
        r = call('azure_worker_memory_per_core_mib', [wt], _mpc, 'azure', gcp, az, wt)
        need(r * MIB == mpc_bytes('azure', wt), 'azure_worker_memory_per_core_mib', 'is-the-per-core-memory-of-the-worker-type', [wt], r)


def _adjust(cloud, gcp, az, c, m, wt):
    if cloud == 'gcp':
        return gcp.gcp_adjust_cores_for_memory_request(c, m, SPEC['gcp_family'], wt)
    return az.azure_adjust_cores_for_memory_request(c, m, wt)


def _c2m(cloud, gcp, az, c, wt):
    if cloud == 'gcp':
        return gcp.gcp_cores_mcpu_to_memory_bytes(c, SPEC['gcp_family'], wt)
    return az.azure_cores_mcpu_to_memory_bytes(c, wt)


def _chk_adjust(cloud, gcp, az):
    name = '%s_adjust_cores_for_memory_request' % cloud
    B = SPEC['bound']
    for wt in worker_types(cloud):
        M = mpc_bytes(cloud, wt)
        for m in mem_boundaries(cloud, wt, B):
            for c in (1, 250, 1000, 16000):
                r = call(name, [c, m, wt], _adjust, cloud, gcp, az, c, m, wt)
                need(r >= c, name, 'cores-never-decrease', [c, m, wt], r)
                need(r > B or r * M >= m * 1000, name, 'memory-of-the-adjusted-cores-covers-the-request', [c, m, wt], r)
                need(r == c or (r - 1) * M * 2**50 < m * 1000 * (2**50 + 1), name, 'no-more-than-needed', [c, m, wt], r)


def chk_gcp_adjust_cores_for_memory_request(ru, gcp, az, icc):
    _chk_adjust('gcp', gcp, az)


def chk_azure_adjust_cores_for_memory_request(ru, gcp, az, icc):
    _chk_adjust('azure', gcp, az)


def _chk_c2m(cloud, gcp, az):
    name = '%s_cores_mcpu_to_memory_bytes' % cloud
    B = SPEC['bound']
    for wt in worker_types(cloud):
        M = mpc_bytes(cloud, wt)
        for c in list(range(0, 20000)) + list(range(20000, 2 * B, 331)) + [250 * 2**k for k in range(0, 40)]:
            r = call(name, [c, wt], _c2m, cloud, gcp, az, c, wt)
            need(r >= 0, name, 'non-negative', [c, wt], r)
            need(r * 1000 * 2**50 <= c * M * (2**50 + 1), name, 'at-most-the-share-of-the-cores', [c, wt], r)
            need((r + 1) * 1000 * 2**50 > c * M * (2**50 - 1), name, 'at-least-the-share-of-the-cores-minus-rounding', [c, wt], r)
            if pack_form(c) and c <= B:
                need(r * 1000 == c * M, name, 'BOUNDED:exact-on-packable-cores', [c, wt], r)


def chk_gcp_cores_mcpu_to_memory_bytes(ru, gcp, az, icc):
    _chk_c2m('gcp', gcp, az)


def chk_azure_cores_mcpu_to_memory_bytes(ru, gcp, az, icc):
    _chk_c2m('azure', gcp, az)


def chk_adjust_cores_for_packability(ru, gcp, az, icc, full=False):
    name = 'adjust_cores_for_packability'
    B2 = 2 * SPEC['bound']
    cs = range(1, B2 + 1) if full else sorted(set(list(range(1, 5000)) + [x for k in range(0, 12) for x in (250 * 2**k - 1, 250 * 2**k, 250 * 2**k + 1)] + list(range(5000, B2, 613)) + [B2]))
    n = 0
    for c in cs:
        n += 1
        r = call(name, [c], ru.adjust_cores_for_packability, c)
        need(r >= c, name, 'BOUNDED:at-least-the-request', [c], r)
        need(pack_form(r), name, 'BOUNDED:packable', [c], r)
        need(r == 250 or r < 2 * c, name, 'BOUNDED:least-packable', [c], r)
    big = set([B2 + 1, B2 + 2, 3 * B2])
    for j in range(20, 900, 7):
        big.update((2**j - 1, 2**j, 2**j + 1, 1000 * 2**j + 1, 1000 * 2**j - 1))
    for c in sorted(x for x in big if x > B2):
        n += 1
        r = call(name, [c], ru.adjust_cores_for_packability, c)
        need(r >= B2, name, 'ASSUMED:large-requests-stay-large', [c], r)
    return n


def make_pool(icc, name, cloud, worker_type, worker_cores, preemptible=True, label=''):
    return icc.PoolConfig(
        name=name, cloud=cloud, worker_type=worker_type, worker_cores=worker_cores, worker_local_ssd_data_disk=True,
        worker_external_ssd_data_disk_size_gb=0, standing_worker_cores=worker_cores, boot_disk_size_gb=10, min_instances=0,
        max_instances=10, max_live_instances=10, preemptible=preemptible, max_new_instances_per_autoscaler_loop=10,
        autoscaler_loop_period_secs=15, worker_max_idle_time_secs=30, standing_worker_max_idle_time_secs=30,
        job_queue_scheduling_window_secs=150, label=label,
    )  # fmt: skip


def make_jpim(icc, cloud):
    return icc.JobPrivateInstanceManagerConfig(
        name='job-private', cloud=cloud, boot_disk_size_gb=10, max_instances=10, max_live_instances=10,
        max_new_instances_per_autoscaler_loop=10, autoscaler_loop_period_secs=15, worker_max_idle_time_secs=30,
    )  # fmt: skip


def valid_cores(cloud, gcp, az, wt):
    return (gcp.gcp_valid_cores_for_pool_worker_type if cloud == 'gcp' else az.azure_valid_cores_from_worker_type)[wt]


def request_grid(cloud, wt, wcores, light=False):
    """(cores, memory, storage) requests around every boundary of the pool"""
    M = mpc_bytes(cloud, wt)
    cores = [250 * 2**k for k in range(0, 11)] + [1, 251, 3000, wcores * 1000, wcores * 1000 + 1, 96000, 300000]
    mems = set([0, 1])
    for p in [250 * 2**k for k in range(0, 11)] + [wcores * 1000, wcores * 500, wcores * 750]:
        t = p * M
        mems.update((t // 1000 - 1, t // 1000, t // 1000 + 1))
    stor = [0, 1, MIN_DISK, MIN_DISK + 1, max_disk_bytes(cloud), max_disk_bytes(cloud) + 1]
    if light:
        cores = [250, 1000, 64000, wcores * 1000]
        stor = [0, MIN_DISK + 1, max_disk_bytes(cloud) + 1]
    for c in sorted(set(cores)):
        for m in sorted(x for x in mems if x >= 0):
            for s in stor:
                yield c, m, s


def check_grant(name, inp, pool, c, m, s, r, cloud):
    """r = (cores, memory, storage_gib) granted by `pool` for the request (c, m, s)"""
    gc, gm, gs = r
    M = mpc_bytes(pool.cloud, pool.worker_type)
    need(gc >= c, name, 'granted-cores-at-least-requested', inp, r)
    need(gm >= m, name, 'granted-memory-at-least-requested', inp, r)
    need(gs * GIB >= s, name, 'granted-storage-at-least-requested', inp, r)
    need(gc <= pool.worker_cores * 1000, name, 'fits-on-one-worker', inp, r)
    need(pack_form(gc), name, 'granted-cores-packable', inp, r)
    need(gm * 1000 == gc * M, name, 'granted-memory-is-the-share-of-the-granted-cores', inp, r)
    need(gs >= 10 or (s == 0 and gs == 0), name, 'storage-at-least-10-gib-or-zero', inp, r)
    need((gs - 1) * GIB < max(s, MIN_DISK), name, 'storage-no-more-than-needed', inp, r)
    need(gc == 250 or gc < 2 * c or (gc // 2) * M * 2**50 < m * 1000 * (2**50 + 1), name, 'cores-least-packable', inp, r)


def chk_pool_convert(ru, gcp, az, icc):
    name = 'PoolConfig.convert_requests_to_resources'
    for cloud in ('gcp', 'azure'):
        for wt in worker_types(cloud):
            for wc in valid_cores(cloud, gcp, az, wt):
                pool = make_pool(icc, 'p', cloud, wt, wc)
                for c, m, s in request_grid(cloud, wt, wc):
                    inp = {'pool': [cloud, wt, wc], 'cores_mcpu': c, 'memory_bytes': m, 'storage_bytes': s}
                    r = call(name, inp, pool.convert_requests_to_resources, c, m, s)
                    if r is None:
                        need(cannot_satisfy(cloud, wt, wc, c, m, s), name, 'rejects-only-what-the-pool-cannot-satisfy', inp, r)
                    else:
                        check_grant(name, inp, pool, c, m, s, r, cloud)


def configs_for(icc, gcp, az, cloud):
    """pool configurations: every worker type at two sizes, both preemptibilities, two labels, in two orders"""
    pools = []
    for wt in worker_types(cloud):
        vc = valid_cores(cloud, gcp, az, wt)
        for wc in (vc[0], vc[-1], vc[-2]):
            for pre in (True, False):
                for label in ('', 'gpu'):
                    pools.append(make_pool(icc, '%s-%s-%d-%s-%s' % (cloud, wt, wc, 'p' if pre else 'np', label or 'nolabel'), cloud, wt, wc, pre, label))
    out = []
    for order in (pools, pools[::-1], pools[::5], []):
        out.append(icc.InstanceCollectionConfigs({p.name: p for p in order}, make_jpim(icc, cloud), {'cpu': 0.01}, {}))
    return out


def chk_selection(ru, gcp, az, icc, which=('worker_type', 'cheapest', 'job_private', 'dispatch')):
    for cloud in ('gcp', 'azure'):
        other = 'azure' if cloud == 'gcp' else 'gcp'
        for cfg in configs_for(icc, gcp, az, cloud):
            pools = list(cfg.name_pool_config.values())
            for wt in worker_types(cloud):
                for c, m, s in request_grid(cloud, wt, 64, light=True):
                    for pre in (True, False):
                        for label in ('', 'gpu', 'nosuch'):
                            for req_cloud in (cloud, other):
                                for mode, policy in [(m_, p_) for m_ in which for p_ in (PRICE_POLICIES if m_ in ('cheapest', 'dispatch') else PRICE_POLICIES[:1])]:
                                    PRICE_POLICY[0] = policy
                                    del PRICE_CALLS[:]
                                    if mode == 'worker_type':
                                        name = 'InstanceCollectionConfigs.select_pool_from_worker_type'
                                        inp = {'pools': [p.name for p in pools], 'cloud': req_cloud, 'pool_label': label, 'worker_type': wt, 'cores_mcpu': c, 'memory_bytes': m, 'storage_bytes': s, 'preemptible': pre}
                                        r = call(name, inp, cfg.select_pool_from_worker_type, req_cloud, label, wt, c, m, s, pre)
                                        match = lambda p: p.cloud == req_cloud and p.worker_type == wt and p.preemptible == pre and p.label == label
                                    elif mode == 'cheapest':
                                        name = 'InstanceCollectionConfigs.select_cheapest_price_pool'
                                        inp = {'pools': [p.name for p in pools], 'cloud': req_cloud, 'pool_label': label, 'cores_mcpu': c, 'memory_bytes': m, 'storage_bytes': s, 'preemptible': pre, 'price_order': policy}
                                        r = call(name, inp, cfg.select_cheapest_price_pool, req_cloud, label, c, m, s, pre)
                                        match = lambda p: p.cloud == req_cloud and p.preemptible == pre and p.label == label
                                    elif mode == 'dispatch':
                                        name = 'InstanceCollectionConfigs.select_inst_coll'
                                        use_wt = (c // 250) % 2 == 0
                                        inp = {'pools': [p.name for p in pools], 'cloud': req_cloud, 'machine_type': None, 'pool_label': label, 'preemptible': pre, 'worker_type': wt if use_wt else None, 'cores_mcpu': c, 'memory_bytes': m, 'storage_bytes': s, 'price_order': policy}
                                        rr = call(name, inp, cfg.select_inst_coll, req_cloud, None, label, pre, wt if use_wt else None, c, m, s)
                                        need(isinstance(rr, tuple) and len(rr) == 2 and rr[1] is None, name, 'no-exception-object', inp, repr(rr))
                                        r = rr[0]
                                        match = (lambda p: p.cloud == req_cloud and p.worker_type == wt and p.preemptible == pre and p.label == label) if use_wt else (lambda p: p.cloud == req_cloud and p.preemptible == pre and p.label == label)
                                    else:
                                        continue
                                    if r is None:
                                        for p in pools:
                                            need(not match(p) or cannot_satisfy(p.cloud, p.worker_type, p.worker_cores, c, m, s), name, 'rejects-only-if-no-matching-pool-can-satisfy', dict(inp, pool_that_could=p.name), r)
                                    else:
                                        need(isinstance(r, tuple) and len(r) == 4, name, 'shape', inp, repr(r))
                                        chosen = [p for p in pools if p.name == r[0]]
                                        need(len(chosen) == 1, name, 'selects-a-configured-pool', inp, r)
                                        need(match(chosen[0]), name, 'selected-pool-matches-the-request', inp, r)
                                        check_grant(name, inp, chosen[0], c, m, s, r[1:], cloud)
    if 'job_private' in which or 'dispatch' in which:
        for cloud in ('gcp', 'azure'):
            other = 'azure' if cloud == 'gcp' else 'gcp'
            cfg = icc.InstanceCollectionConfigs({}, make_jpim(icc, cloud), {}, {})
            mts = ru.valid_machine_types(cloud)
            for mt in mts:
                cores, mem = ru.machine_type_to_cores_and_memory_bytes(cloud, mt)
                for s in storage_grid(cloud):
                    for req_cloud in (cloud, other):
                        if req_cloud != cloud and s != 0:
                            continue
                        if 'job_private' in which:
                            name = 'InstanceCollectionConfigs.select_job_private'
                            inp = {'jpim_cloud': cloud, 'cloud': req_cloud, 'machine_type': mt, 'storage_bytes': s}
                            r = call(name, inp, cfg.select_job_private, req_cloud, mt, s)
                            _check_jp(name, inp, r, cloud, req_cloud, cores, mem, s)
                        if 'dispatch' in which and req_cloud == cloud:
                            name = 'InstanceCollectionConfigs.select_inst_coll'
                            inp = {'jpim_cloud': cloud, 'cloud': req_cloud, 'machine_type': mt, 'storage_bytes': s}
                            rr = call(name, inp, cfg.select_inst_coll, req_cloud, mt, '', True, None, None, None, s)
                            need(isinstance(rr, tuple) and len(rr) == 2 and rr[1] is None, name, 'no-exception-object', inp, repr(rr))
                            _check_jp(name, inp, rr[0], cloud, req_cloud, cores, mem, s)


def _check_jp(name, inp, r, cloud, req_cloud, cores, mem, s):
    if r is None:
        need(req_cloud != cloud or s > max_disk_bytes(cloud), name, 'rejects-only-other-cloud-or-storage-above-maximum', inp, r)
    else:
        need(req_cloud == cloud, name, 'job-private-collection-is-of-the-requested-cloud', inp, r)
        need(r[0] == 'job-private', name, 'names-the-job-private-collection', inp, r)
        need(r[1] == cores * 1000 and r[2] == mem, name, 'grants-the-whole-machine', inp, r)
        need(r[3] * GIB >= s and r[3] >= 10 and (r[3] - 1) * GIB < max(s, MIN_DISK), name, 'storage-covers-the-request', inp, r)



# ---------------------------------------------------------------------------------------------
# front end: the resource section of _create_jobs (statements of the per-job loop body from `machine_type = resources.get(...)`
# preamble - re-stated here - plus the real statements from `if machine_type is None` to the unpacking of the selection,
# extracted from the real source by AST and executed with the real parsers, helpers and InstanceCollectionConfigs)


class HTTPBadRequest(Exception):
    def __init__(self, reason=None):
        super().__init__(reason)
        self.reason = reason


def fe_section():
    import ast

    src = open(os.path.join(REPO, 'batch/batch/front_end/front_end.py')).read()
    tree = ast.parse(src)
    fn = [n for n in ast.walk(tree) if isinstance(n, ast.AsyncFunctionDef) and n.name == '_create_jobs'][0]
    for loop in ast.walk(fn):
        if isinstance(loop, ast.For):
            texts = [ast.unparse(x.test) if isinstance(x, ast.If) else ast.unparse(x) for x in loop.body]
            if 'machine_type is None' in texts and 'inst_coll_name, cores_mcpu, memory_bytes, storage_gib = result' in texts:
                a, b = texts.index('machine_type is None'), texts.index('inst_coll_name, cores_mcpu, memory_bytes, storage_gib = result')
                return compile(ast.Module(body=loop.body[a: b + 1], type_ignores=[]), 'front_end-resource-section', 'exec')
    raise RuntimeError('resource section of _create_jobs not found')


def chk_front_end(ru, gcp, az, icc):
    import importlib.util
    import typing

    name = '_create_jobs[resources]'
    spec_ = importlib.util.spec_from_file_location('parse_real', os.path.join(REPO, 'hail/python/hailtop/batch_client/parse.py'))
    parse = importlib.util.module_from_spec(spec_)
    spec_.loader.exec_module(parse)
    code = fe_section()
    web = types.SimpleNamespace(HTTPBadRequest=HTTPBadRequest)
    defaults = {'cpu': '1', 'memory': 'standard', 'storage': '0Gi'}
    for cloud in ('gcp', 'azure'):
        m2w = ru.memory_to_worker_type(cloud)
        for cfg in configs_for(icc, gcp, az, cloud)[:3]:
            pools = list(cfg.name_pool_config.values())
            mts = ru.valid_machine_types(cloud)
            reqs = []
            for cpu in (None, '0.25', '1', '8', '64', '3'):
                for mem in (None, 'lowmem', 'standard', 'highmem', '1Gi', '3.75Gi', '3841Mi', '26Gi', '500Gi'):
                    for sto in (None, '0', '10Gi', '11Gi', '70000Gi'):
                        for pre in (True, False):
                            for label in ('', 'gpu'):
                                reqs.append((cpu, mem, sto, pre, label, None))
            for mt in (mts[0], mts[-1]):
                for sto in (None, '10Gi', '375G', '70000Gi'):
                    reqs.append((None, None, sto, True, '', mt))
            for cpu, mem, sto, pre, label, mt in reqs:
                resources = {k: v for k, v in (('cpu', cpu), ('memory', mem), ('storage', sto)) if v is not None}
                if mt is not None:
                    resources['machine_type'] = mt
                inp = {'cloud': cloud, 'pools': len(pools), 'resources': dict(resources), 'preemptible': pre, 'pool_label': label}
                env = {
                    'resources': resources, 'machine_type': resources.get('machine_type'), 'pool_label': label, 'preemptible': pre, 'worker_type': None, 'cloud': cloud, 'CLOUD': cloud,
                    'id': (1, 1), 'web': web, 'app': {'inst_coll_configs': cfg}, 'Optional': typing.Optional, 'InstanceCollectionConfigs': icc.InstanceCollectionConfigs,
                    'parse_cpu_in_mcpu': parse.parse_cpu_in_mcpu, 'parse_memory_in_bytes': parse.parse_memory_in_bytes, 'parse_storage_in_bytes': parse.parse_storage_in_bytes,
                    'is_valid_cores_mcpu': ru.is_valid_cores_mcpu, 'memory_to_worker_type': ru.memory_to_worker_type, 'GCP_MACHINE_FAMILY': gcp.GCP_MACHINE_FAMILY,
                    'gcp_cores_mcpu_to_memory_bytes': gcp.gcp_cores_mcpu_to_memory_bytes, 'azure_cores_mcpu_to_memory_bytes': az.azure_cores_mcpu_to_memory_bytes,
                    'BATCH_JOB_DEFAULT_CPU': defaults['cpu'], 'BATCH_JOB_DEFAULT_MEMORY': defaults['memory'], 'BATCH_JOB_DEFAULT_STORAGE': defaults['storage'],
                }  # fmt: skip
                # the request as the property reads it, from the strings
                cpu_s, mem_s, sto_s = cpu or defaults['cpu'], mem or defaults['memory'], sto or defaults['storage']
                s_req = parse.parse_storage_in_bytes(sto_s)
                rejected = None
                try:
                    exec(code, env)
                except HTTPBadRequest as e:
                    rejected = e.reason or ''
                except Exception as e:
                    raise Found(name, 'does-not-crash', inp, 'raised %r' % (e,))
                if mt is None:
                    c_req = parse.parse_cpu_in_mcpu(cpu_s)
                    if c_req is None or not pack_form(c_req):
                        need(rejected is not None and 'unsatisfiable' not in rejected, name, 'invalid-cpu-is-rejected-as-such', inp, rejected)
                        continue
                    wt = m2w.get(mem_s)
                    m_req = _c2m(cloud, gcp, az, c_req, wt) if wt is not None else parse.parse_memory_in_bytes(mem_s)
                    match = lambda p: p.cloud == cloud and p.preemptible == pre and p.label == label and (wt is None or p.worker_type == wt)
                    if rejected is not None:
                        need('unsatisfiable' in rejected, name, 'rejected-as-unsatisfiable', inp, rejected)
                        for p in pools:
                            need(not match(p) or cannot_satisfy(p.cloud, p.worker_type, p.worker_cores, c_req, m_req, s_req), name, 'pool-job:rejected-only-if-no-matching-pool-can-satisfy', dict(inp, pool_that_could=p.name), rejected)
                    else:
                        got = (env['inst_coll_name'], env['cores_mcpu'], env['memory_bytes'], env['storage_gib'])
                        chosen = [p for p in pools if p.name == got[0]]
                        need(len(chosen) == 1 and match(chosen[0]), name, 'pool-job:placed-in-a-pool-matching-cloud-preemptible-label-worker-type', inp, got)
                        check_grant(name, inp, chosen[0], c_req, m_req, s_req, got[1:], cloud)
                else:
                    cores, mem_b = ru.machine_type_to_cores_and_memory_bytes(cloud, mt)
                    if rejected is not None:
                        need('unsatisfiable' in rejected and s_req > max_disk_bytes(cloud), name, 'machine-type-job:rejected-only-if-storage-above-the-maximum', inp, rejected)
                    else:
                        got = (env['inst_coll_name'], env['cores_mcpu'], env['memory_bytes'], env['storage_gib'])
                        _check_jp(name, inp, got, cloud, cloud, cores, mem_b, s_req)


# ---------------------------------------------------------------------------------------------
# job schema clean-up: the deprecated spelling of the storage request (top-level pvc_size) must come out of the real
# validate_and_clean_jobs as resources.storage, next to the other resource requests of the job


def load_validate():
    """the real batch/front_end/validate.py with the real hailtop leaves it imports (parse, globals, utils.validate) loaded by
    file: the hailtop package itself is not importable offline (generated version module, third-party imports)"""
    import importlib
    import importlib.util

    def pkg(name):
        if name not in sys.modules:
            m = types.ModuleType(name)
            m.__path__ = []
            sys.modules[name] = m
        return sys.modules[name]

    def real(name, rel, package=False):
        path = os.path.join(REPO, 'hail', 'python', rel)
        spec_ = importlib.util.spec_from_file_location(name, path, submodule_search_locations=[os.path.dirname(path)] if package else None)
        m = importlib.util.module_from_spec(spec_)
        sys.modules[name] = m
        spec_.loader.exec_module(m)
        return m

    for n in ('hailtop', 'hailtop.batch_client', 'hailtop.utils'):
        pkg(n)
    real('hailtop.batch_client.globals', 'hailtop/batch_client/globals.py')
    parse = real('hailtop.batch_client.parse', 'hailtop/batch_client/parse.py')
    real('hailtop.utils.validate', 'hailtop/utils/validate/__init__.py', package=True)
    return importlib.import_module('batch.front_end.validate'), parse


def chk_validate_and_clean_jobs(ru, gcp, az, icc):
    import copy

    name = 'validate_and_clean_jobs'
    v, parse = load_validate()
    bases = [
        {'job_id': 1, 'process': {'type': 'docker', 'image': 'ubuntu:22.04', 'command': ['true']}},
        {'job_id': 1, 'command': ['true'], 'image': 'ubuntu:22.04'},  # pre-`process` clients
    ]
    res_variants = [None, {}, {'cpu': '2'}, {'cpu': '0.25', 'memory': 'standard', 'preemptible': False}, {'machine_type': 'n1-standard-1'}]
    storages = ['50Gi', '0.5Ti', '10Gi', '375G', '1', '0', '5Gib', 'lots']
    for base in bases:
        for rv in res_variants:
            for sto in storages:
                for spelling in ('pvc_size', 'resources.storage', 'both', 'none'):
                    job = copy.deepcopy(base)
                    if rv is not None:
                        job['resources'] = copy.deepcopy(rv)
                    if spelling in ('pvc_size', 'both'):
                        job['pvc_size'] = sto
                    if spelling in ('resources.storage', 'both'):
                        job.setdefault('resources', {})['storage'] = sto
                    inp = {'jobs': [copy.deepcopy(job)]}
                    want = None if spelling == 'none' else sto
                    schema_ok = bool(parse.STORAGE_REGEX.fullmatch(sto))
                    try:
                        v.validate_and_clean_jobs([job])
                    except v.ValidationError as e:
                        need(spelling == 'both' or (want is not None and not schema_ok), name, 'rejects-only-contradicting-spellings-or-a-value-the-storage-schema-rejects', inp, 'ValidationError(%r)' % (e.reason,))
                        continue
                    except Exception as e:
                        raise Found(name, 'does-not-crash', inp, 'raised %r' % (e,))
                    need(spelling != 'both' and (want is None or schema_ok), name, 'accepted-only-if-the-storage-schema-accepts-the-value', inp, job)
                    got = job.get('resources') or {}
                    need('pvc_size' not in job, name, 'deprecated-key-is-gone', inp, job)
                    need(got.get('storage') == want, name, 'deprecated-pvc_size-becomes-the-storage-request-of-the-job', inp, {'resources_after': got, 'storage_request_accepted_by_the_schema': want})
                    need({k: x for k, x in got.items() if k != 'storage'} == (rv or {}), name, 'other-resource-requests-are-kept-and-none-is-invented', inp, {'resources_after': got})


CHECKERS = {
    'round_up_division': chk_round_up_division,
    'is_valid_cores_mcpu': chk_is_valid_cores_mcpu,
    'round_storage_bytes_to_gib': chk_round_storage_bytes_to_gib,
    'gcp_requested_to_actual_storage_bytes': chk_gcp_requested_to_actual_storage_bytes,
    'azure_requested_to_actual_storage_bytes': chk_azure_requested_to_actual_storage_bytes,
    'requested_storage_bytes_to_actual_storage_gib': chk_requested_storage_bytes_to_actual_storage_gib,
    'gcp_worker_memory_per_core_mib': chk_gcp_worker_memory_per_core_mib,
    'azure_worker_memory_per_core_mib': chk_azure_worker_memory_per_core_mib,
    'gcp_adjust_cores_for_memory_request': chk_gcp_adjust_cores_for_memory_request,
    'azure_adjust_cores_for_memory_request': chk_azure_adjust_cores_for_memory_request,
    'gcp_cores_mcpu_to_memory_bytes': chk_gcp_cores_mcpu_to_memory_bytes,
    'azure_cores_mcpu_to_memory_bytes': chk_azure_cores_mcpu_to_memory_bytes,
    'adjust_cores_for_packability': chk_adjust_cores_for_packability,
    'PoolConfig.convert_requests_to_resources': chk_pool_convert,
    'InstanceCollectionConfigs.select_pool_from_worker_type': lambda *m: chk_selection(*m, which=('worker_type',)),
    'InstanceCollectionConfigs.select_cheapest_price_pool': lambda *m: chk_selection(*m, which=('cheapest',)),
    'InstanceCollectionConfigs.select_job_private': lambda *m: chk_selection(*m, which=('job_private',)),
    'JobPrivateInstanceManagerConfig.convert_requests_to_resources': lambda *m: chk_selection(*m, which=('job_private',)),
    'InstanceCollectionConfigs.select_inst_coll': lambda *m: chk_selection(*m, which=('dispatch',)),
    '_create_jobs[resources]': chk_front_end,
    'validate_and_clean_jobs': chk_validate_and_clean_jobs,
}


def mode_search(p, mods):
    names = p.get('functions') or list(CHECKERS)
    done = []
    for n in names:
        f = CHECKERS.get(n)
        if f is None:
            continue
        try:
            f(*mods)
        except Found as e:
            e.doc['searched'] = done + [n]
            return e.doc
        done.append(n)
    return {'confirmed': False, 'searched': done}


def mode_bounded(p, mods):
    ru, gcp, az, icc = mods
    out = []
    B = SPEC['bound']
    try:
        n = chk_adjust_cores_for_packability(ru, gcp, az, icc, full=True)
        out.append({'name': 'packability', 'ok': True, 'cases': n, 'bound': 'every cores_in_mcpu in [1, %d] (clauses at-least-the-request, packable, least-packable); %d sampled values up to 2**900 for large-requests-stay-large' % (2 * B, n - 2 * B)})
    except Found as e:
        out.append({'name': 'packability', 'ok': False, 'cases': 0, 'bound': 'every cores_in_mcpu in [1, %d]' % (2 * B), 'failure': e.doc})
    n = 0
    try:
        for cloud in ('gcp', 'azure'):
            for wt in worker_types(cloud):
                M = mpc_bytes(cloud, wt)
                k = 0
                while 250 * 2**k <= B:
                    c = 250 * 2**k
                    r = _c2m(cloud, gcp, az, c, wt)
                    n += 1
                    need(r * 1000 == c * M, '%s_cores_mcpu_to_memory_bytes' % cloud, 'BOUNDED:exact-on-packable-cores', [c, wt], r)
                    k += 1
        out.append({'name': 'c2m-exact', 'ok': True, 'cases': n, 'bound': 'every packable core count 250*2**k <= %d mcpu of every worker type of both clouds (the complete domain of the clause)' % B})
    except Found as e:
        out.append({'name': 'c2m-exact', 'ok': False, 'cases': n, 'bound': 'packable core counts <= %d' % B, 'failure': e.doc})
    return {'standins': out}


def mode_tables(p, mods):
    ru, gcp, az, icc = mods
    facts = []

    def fact(name, ok, detail=''):
        facts.append({'name': name, 'ok': bool(ok), 'detail': detail})

    bad, absent, n = [], [], 0
    for wt, cores_list in gcp.gcp_valid_cores_for_pool_worker_type.items():
        for cores in cores_list:
            mt = gcp.family_worker_type_cores_to_gcp_machine_type(gcp.GCP_MACHINE_FAMILY, wt, cores)
            parts = gcp.MACHINE_TYPE_TO_PARTS.get(mt)
            if parts is None:
                absent.append(mt)
                continue
            n += 1
            if parts.cores != cores or parts.memory != cores * SPEC['mpc_mib']['gcp'][wt] * MIB:
                bad.append([mt, parts.cores, parts.memory])
    fact('gcp/pool-machine-memory-is-cores-times-per-core-memory', not bad and n > 0, 'checked %d machine types, mismatches %r, not in MACHINE_TYPE_TO_PARTS: %r' % (n, bad, absent))
    bad, n = [], 0
    for wt, cores_list in az.azure_valid_cores_from_worker_type.items():
        for cores in cores_list:
            for ssd in (True, False):
                mt = az.azure_worker_properties_to_machine_type(wt, cores, ssd)
                parts = az.MACHINE_TYPE_TO_PARTS.get(mt)
                n += 1
                if parts is None or parts.cores != cores or parts.memory != cores * SPEC['mpc_mib']['azure'][wt] * MIB:
                    bad.append([mt, None if parts is None else [parts.cores, parts.memory]])
    fact('azure/pool-machine-memory-is-cores-times-per-core-memory', not bad and n > 0, 'checked %d machine types, mismatches %r' % (n, bad))
    fact('gcp/worker-types-are-the-spec-worker-types', sorted(gcp.gcp_valid_cores_for_pool_worker_type) == sorted(SPEC['mpc_mib']['gcp']) and gcp.GCP_MACHINE_FAMILY == SPEC['gcp_family'], repr(sorted(gcp.gcp_valid_cores_for_pool_worker_type)))
    fact('azure/worker-types-are-the-spec-worker-types', sorted(az.azure_valid_cores_from_worker_type) == sorted(SPEC['mpc_mib']['azure']), repr(sorted(az.azure_valid_cores_from_worker_type)))
    mx = max(max(v) for v in list(gcp.gcp_valid_cores_for_pool_worker_type.values()) + list(az.azure_valid_cores_from_worker_type.values()))
    mn = min(min(v) for v in list(gcp.gcp_valid_cores_for_pool_worker_type.values()) + list(az.azure_valid_cores_from_worker_type.values()))
    fact('worker-cores-within-1..256', 1 <= mn and mx <= 256, 'configurable worker sizes range over %d..%d cores' % (mn, mx))
    fact('memory-classes-map-to-the-spec-worker-types', set(ru.memory_to_worker_type('gcp').values()) <= set(SPEC['mpc_mib']['gcp']) and set(ru.memory_to_worker_type('azure').values()) <= set(SPEC['mpc_mib']['azure']), repr([ru.memory_to_worker_type('gcp'), ru.memory_to_worker_type('azure')]))
    bad = []
    for cloud in ('gcp', 'azure'):
        for mt in ru.valid_machine_types(cloud):
            cores, mem = ru.machine_type_to_cores_and_memory_bytes(cloud, mt)
            if not (isinstance(cores, int) and isinstance(mem, int) and cores >= 1 and mem >= 1):
                bad.append([cloud, mt, cores, mem])
    fact('job-private-machine-types-have-positive-cores-and-memory', not bad, repr(bad))
    return {'facts': facts}


def main():
    global SPEC
    p = json.load(sys.stdin)
    SPEC = p['spec']
    mods = load()
    mode = p.get('mode', 'search')
    if mode == 'bounded':
        res = mode_bounded(p, mods)
    elif mode == 'tables':
        res = mode_tables(p, mods)
    else:
        res = mode_search(p, mods)
    print(json.dumps(res, default=repr))


main()
