"""Native witness search for C11: the REAL PoolScheduler._compute_fair_share (method extracted by AST from the tree under test,
run with the real sortedcontainers and a stub database iterator) against an exact rational water-filling reference.
stdin JSON: {'cases': [[free, [[running, ready], ...]], ...]} (optional explicit cases) and/or {'grid': true}.
Prints one JSON object with the first failing input."""
import ast
import asyncio
import itertools
import json
import os
import sys
from fractions import Fraction
from typing import Dict

import sortedcontainers

repo = os.environ['VERIF_REPO']
src = open(os.path.join(repo, 'batch/batch/driver/instance_collection/pool.py')).read()
tree = ast.parse(src)
fn = None
for n in ast.walk(tree):
    if isinstance(n, ast.ClassDef) and n.name == 'PoolScheduler':
        for m in n.body:
            if isinstance(m, ast.AsyncFunctionDef) and m.name == '_compute_fair_share':
                fn = m
assert fn is not None, 'anchor moved'
ns = {'sortedcontainers': sortedcontainers, 'Dict': Dict}
exec(compile(ast.Module(body=[fn], type_ignores=[]), 'pool-extract', 'exec'), ns)
compute = ns['_compute_fair_share']


class Rows:
    def __init__(self, rows):
        self.rows = rows

    def __aiter__(self):
        async def gen():
            for r in self.rows:
                yield dict(r)

        return gen()


class DB:
    def __init__(self, rows):
        self.rows = rows

    def execute_and_fetchall(self, *a, **k):
        return Rows(self.rows)


class Self:
    def __init__(self, rows):
        self.db = DB(rows)
        self.pool = type('P', (), {'name': 'standard'})()


def reference(free, users):
    """exact water level L with sum clamp(L - r, 0, d) == free (or everything if demand <= free); None level if free <= 0"""
    if free <= 0:
        return None, [Fraction(0)] * len(users)
    if sum(d for r, d in users) <= free:
        return None, [Fraction(d) for r, d in users]
    pts = sorted({r for r, d in users} | {r + d for r, d in users})
    spent = lambda L: sum(min(max(L - r, 0), d) for r, d in users)  # noqa: E731
    lo = pts[0]
    for hi in pts[1:]:
        if spent(hi) >= free:
            n = sum(1 for r, d in users if r <= lo and r + d >= hi and d > 0)
            L = Fraction(lo) + Fraction(free - spent(lo), n)
            return L, [min(max(L - r, 0), d) for r, d in users]
        lo = hi
    raise AssertionError('unreachable')


def check(free, users):
    rows = [{'user': 'u%d' % i, 'n_ready_jobs': 1 if d else 0, 'ready_cores_mcpu': d, 'n_running_jobs': 1 if r else 0, 'running_cores_mcpu': r} for i, (r, d) in enumerate(users)]
    try:
        res = asyncio.run(compute(Self(rows), free))
    except BaseException as e:  # pylint: disable=broad-except
        return 'raises %r' % e
    alloc = [res['u%d' % i]['allocated_cores_mcpu'] for i in range(len(users))]
    L, want = reference(free, users)
    for i, ((r, d), a, w) in enumerate(zip(users, alloc, want)):
        if not isinstance(a, int) or a < 0 or a > d:
            return 'user %d (running %d, ready %d) is allocated %r: outside [0, demand]' % (i, r, d, a)
        if abs(a - w) > Fraction(1, 2):
            return 'user %d (running %d, ready %d) is allocated %d, the max-min fair share is %s (water level %s)' % (i, r, d, a, w, L)
    short = [(r + a) for (r, d), a in zip(users, alloc) if a < d and a > 0]
    if len(set(short)) > 1:
        return 'users left short sit at different levels: %s' % sorted(set(short))
    n_level = sum(1 for (r, d), a in zip(users, alloc) if 0 < a < d or (a == d and d > 0 and L is not None and r + d >= L > r))
    total = sum(alloc)
    if free > 0 and 2 * (total - free) > max(n_level, 0) + 0:
        return 'total allocated %d exceeds the %d free cores by more than rounding (%d users at the level)' % (total, free, n_level)
    if free > 0 and sum(d for r, d in users) >= free and 2 * (free - total) > len(users):
        return 'only %d of %d free cores handed out although demand is %d' % (total, free, sum(d for r, d in users))
    if free <= 0 and total:
        return 'cores allocated (%d) although none are free (%d)' % (total, free)
    return None


p = json.load(sys.stdin)
cases = [(c[0], [tuple(x) for x in c[1]]) for c in p.get('cases', [])]
if p.get('grid', True):
    vals = [0, 1, 2, 3, 5, 8]
    frees = [-3, 0, 1, 2, 3, 4, 5, 7, 9, 11, 16, 40]
    if p.get('size', 'small') == 'small':
        vals = [0, 1, 2, 5]
        frees = [-3, 0, 1, 2, 3, 5, 7, 11, 40]
    for k in (1, 2, 3):
        for users in itertools.combinations_with_replacement([(r, d) for r in vals for d in vals if r + d > 0], k):
            for f in frees:
                cases.append((f, list(users)))
out = {'confirmed': False, 'cases': len(cases)}
for free, users in cases:
    msg = check(free, users)
    if msg:
        out = {'confirmed': True, 'what': msg, 'input': {'free_cores_mcpu': free, 'users (running, ready)': users}}
        break
print(json.dumps(out, default=str))
