"""C38 native replay: runs the REAL text of hail/python/hail/vds/combiner/variant_dataset_combiner.py (module body minus its
imports, executed under /venv/bin/python) against inert stand-ins for the query engine (unittest.mock objects that only record
which dataset is written where).  Nothing of the combiner is re-implemented: the class, new_combiner and their helpers are the
repository's.  stdin: {"scenario": "setter" | "resume" | "drive" | "search"}; stdout (last line): JSON {"confirmed": bool, ...}.

  setter  - `combiner.gvcf_batch_size = 1` on an object with 150001 import intervals; confirmed when the batch size drops below 1
  resume  - new_combiner(...) finding a saved plan (load_combiner returns a real combiner with 150001 import intervals) with
            gvcf_batch_size=1, branch_factor=2; confirmed when the resumed plan has batch size < 1 / branch factor < 2 or lost inputs
  drive   - calls step() until finished (the loop of run(), without save) for small plans; confirmed when the final output is written while inputs /
            intermediates are pending, written more than once or never, or the run does not end within the step bound
"""
import ast
import builtins
import collections
import hashlib
import itertools
import json
import math
import os
import sys
import typing
import uuid
from unittest import mock

PATH = 'hail/python/hail/vds/combiner/variant_dataset_combiner.py'


class World:
    def __init__(self):
        self.final_writes = []  # (pending gvcfs, pending datasets) at each write to the output path
        self.combiner = None


WORLD = World()
OUT = 'out/final.vds'


class FakeVDS:
    """what read_vds / VariantDataset(...) / combine_variant_datasets give back: only `write` matters"""

    def __init__(self, *a, **k):
        self.reference_data = mock.MagicMock()
        self.variant_data = mock.MagicMock()

    ref_block_max_length_field = 'ref_block_max_len'

    @staticmethod
    def _reference_path(p):
        return p + '/reference_data'

    @staticmethod
    def _variants_path(p):
        return p + '/variant_data'

    def write(self, path, **kw):
        if path == OUT:
            c = WORLD.combiner
            WORLD.final_writes.append((len(c._gvcfs), sum(len(v) for v in c._vdses.values())))


def load_module():
    src = open(os.path.join(os.environ.get('VERIF_REPO', '/repo'), PATH)).read()
    tree = ast.parse(src)
    body = [n for n in tree.body if not isinstance(n, (ast.Import, ast.ImportFrom))]
    ns = dict(collections=collections, hashlib=hashlib, json=json, os=os, sys=sys, uuid=uuid, floor=math.floor, log=math.log, chain=itertools.chain,
              ClassVar=typing.ClassVar, Collection=typing.Collection, Dict=typing.Dict, List=typing.List, NamedTuple=typing.NamedTuple, Optional=typing.Optional,
              Union=typing.Union, __name__='variant_dataset_combiner_extract')
    for n in ast.walk(tree):
        if isinstance(n, ast.Name) and n.id not in ns and not hasattr(builtins, n.id):
            ns[n.id] = mock.MagicMock(name=n.id)
    hl = mock.MagicMock(name='hl')

    class tlocus:
        def __init__(self, rg='GRCh38'):
            self.reference_genome = rg

    hl.tlocus = tlocus
    hl.vds.read_vds = lambda *a, **k: FakeVDS()
    hl.current_backend.return_value.fs.exists.return_value = False
    ns.update(hl=hl, VariantDataset=FakeVDS, combine_variant_datasets=lambda vdss: FakeVDS(), calculate_new_intervals=lambda *a, **k: ([], None),
              info=lambda *a, **k: None, warning=lambda *a, **k: None, FatalError=type('FatalError', (Exception,), {}))
    exec(compile(ast.Module(body=body, type_ignores=[]), 'variant_dataset_combiner-extract', 'exec'), ns)
    return ns, hl


_POINT = mock.MagicMock()


class FakeInterval:
    __slots__ = ('point_type',)
    start = end = _POINT  # one shared inert locus: 150001 intervals must stay cheap to build
    includes_start = includes_end = True

    def __init__(self, tlocus):
        self.point_type = tlocus()


def make(ns, hl, n_gvcfs, vds_sizes, bf, bs, n_intervals=1):
    C, MD = ns['VariantDatasetCombiner'], ns['VDSMetadata']
    gv = ['g%d.vcf.gz' % i for i in range(n_gvcfs)]
    c = C(save_path='plan.json', output_path=OUT, temp_path='tmp', reference_genome='GRCh38', dataset_type=mock.MagicMock(), branch_factor=bf, gvcf_batch_size=bs,
          call_fields=['PGT'], vdses=[MD('v%d.vds' % i, n) for i, n in enumerate(vds_sizes)], gvcfs=gv, gvcf_sample_names=['s%d' % i for i in range(n_gvcfs)],
          gvcf_external_header='hdr.vcf', gvcf_import_intervals=[FakeInterval(hl.tlocus) for _ in range(n_intervals)])
    return c


def drive(ns, hl, n_gvcfs, vds_sizes, bf, bs, bound=400):
    WORLD.final_writes = []
    c = make(ns, hl, n_gvcfs, vds_sizes, bf, bs)
    WORLD.combiner = c
    steps = 0
    problems = []
    try:
        while not c.finished:
            steps += 1
            if steps > bound:
                problems.append('not finished after %d steps (pending gvcfs %d, datasets %d)' % (bound, len(c._gvcfs), c._num_vdses))
                break
            c.step()
    except Exception as e:  # the combiner itself failing on a legal plan
        problems.append('step %d raised %s: %s' % (steps, type(e).__name__, e))
    if not problems and len(WORLD.final_writes) != 1:
        problems.append('final output written %d times' % len(WORLD.final_writes))
    for g, v in WORLD.final_writes:
        if g or v:
            problems.append('final output written while %d gvcfs and %d datasets were still pending' % (g, v))
    return problems


def main():
    p = json.load(sys.stdin)
    ns, hl = load_module()
    sc = p.get('scenario', 'search')
    res = {'confirmed': False, 'scenario': sc}
    if sc in ('setter', 'search'):
        c = make(ns, hl, 3, [], 2, 5, n_intervals=150001)
        c.gvcf_batch_size = 1
        if c._gvcf_batch_size < 1:
            res = {'confirmed': True, 'scenario': 'setter', 'what': 'combiner.gvcf_batch_size = 1 with 150001 import intervals leaves _gvcf_batch_size == %r' % c._gvcf_batch_size,
                   'input': {'value': 1, 'import_intervals': 150001}}
        if sc == 'setter':
            print(json.dumps(res))
            return
        res = {'confirmed': False, 'scenario': sc}  # a search reports the setter only through its own scenario
    if sc in ('resume', 'search'):
        saved = make(ns, hl, 3, [4], 2, 5, n_intervals=150001)
        before = (list(saved._gvcfs), {k: list(v) for k, v in saved._vdses.items()})
        ns['load_combiner'] = lambda path: saved
        hl.current_backend.return_value.fs.exists.return_value = True
        try:
            c = ns['new_combiner'](output_path=OUT, temp_path='tmp', save_path='plan.json', gvcf_paths=['g_done.vcf.gz'] + list(saved._gvcfs), vds_paths=['v0.vds'], gvcf_batch_size=1, branch_factor=2,
                                   gvcf_external_header='hdr.vcf', gvcf_sample_names=['s_done', 's0', 's1', 's2'], use_genome_default_intervals=True)
            bad = []
            if c is not saved:
                bad.append('the saved plan was not resumed')
            if c._gvcf_batch_size < 1:
                bad.append('resumed plan has gvcf_batch_size %r' % c._gvcf_batch_size)
            if c._branch_factor < 2:
                bad.append('resumed plan has branch_factor %r' % c._branch_factor)
            if (list(c._gvcfs), {k: list(v) for k, v in c._vdses.items()}) != before:
                bad.append('pending inputs changed by the resume')
            if bad:
                res = {'confirmed': True, 'scenario': 'resume', 'what': '; '.join(bad), 'input': {'gvcf_batch_size': 1, 'branch_factor': 2, 'import_intervals': 150001, 'pending_gvcfs': 3, 'pending_datasets': 1}}
        finally:
            hl.current_backend.return_value.fs.exists.return_value = False
        if sc == 'resume' or res['confirmed']:
            print(json.dumps(res))
            return
    shapes = [(p['n_gvcfs'], p['vds_sizes'], p['bf'], p['bs'])] if 'n_gvcfs' in p else []
    if sc == 'search':
        shapes += [(g, list(v), bf, bs) for bf in (2, 3) for bs in (1, 2) for g in range(0, 8) for v in ([], [1], [5], [1, 1], [2, 9], [1, 3, 9, 30]) if g or v]
    for (g, v, bf, bs) in shapes:
        problems = drive(ns, hl, g, v, bf, bs)
        if problems:
            res = {'confirmed': True, 'scenario': 'drive', 'what': '; '.join(problems[:3]), 'input': {'n_gvcfs': g, 'vds_sample_counts': v, 'branch_factor': bf, 'gvcf_batch_size': bs}}
            break
    print(json.dumps(res))


main()
