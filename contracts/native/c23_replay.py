"""Native witness search for C23.  Real code under test (extracted by AST where the module cannot be imported offline):
 * hailtop/aiotools/fs/stream.py: _ReadableStreamFromBlocking, EmptyReadableStream (extracted, with its exceptions)
 * hailtop/aiotools/local_fs.py: TruncatedReadableBinaryIO (extracted)
 * hailtop/aiocloud/aioazure/fs.py: AzureReadableStream (extracted) against a fake BlobClient implementing download_blob(offset, length)
 * the Range header expressions of the GCS / S3 _open_from (statements extracted and executed), answered by an RFC 7233 fake server.
Prints one JSON object."""
import ast, asyncio, io, json, os, sys, types, typing
from concurrent.futures import ThreadPoolExecutor

repo = os.environ['VERIF_REPO']
HT = os.path.join(repo, 'hail/python/hailtop')
DATA = bytes(range(40))
N = len(DATA)


def extract(path, names):
    tree = ast.parse(open(path).read())
    return [n for n in tree.body if isinstance(n, (ast.ClassDef, ast.FunctionDef, ast.AsyncFunctionDef)) and n.name in names]


class UnexpectedEOFError(Exception):
    pass


base_ns = dict(typing.__dict__)
base_ns.update(abc=__import__('abc'), asyncio=asyncio, os=os, io=io, UnexpectedEOFError=UnexpectedEOFError, ThreadPoolExecutor=ThreadPoolExecutor, TracebackType=types.TracebackType)


async def blocking_to_async(pool, fun, *a, **k):
    return fun(*a, **k)


base_ns['blocking_to_async'] = blocking_to_async
stream_ns = dict(base_ns)
exec(compile(ast.Module(body=extract(os.path.join(HT, 'aiotools/fs/stream.py'), {'ReadableStream', 'EmptyReadableStream', '_ReadableStreamFromBlocking'}), type_ignores=[]), 'stream-extract', 'exec'), stream_ns)
local_ns = dict(base_ns)
exec(compile(ast.Module(body=extract(os.path.join(HT, 'aiotools/local_fs.py'), {'TruncatedReadableBinaryIO'}), type_ignores=[]), 'local-extract', 'exec'), local_ns)
Trunc, FromBlocking, Empty = local_ns['TruncatedReadableBinaryIO'], stream_ns['_ReadableStreamFromBlocking'], stream_ns['EmptyReadableStream']


def expect(start, length):
    return DATA[start:] if length is None else DATA[start:start + length]


def check_local():
    for start in (0, 1, 17, N - 1, N):
        for length in (None, 1, 2, 5, N - start, N - start + 3):
            if length is not None and length < 1:
                continue
            for plan in ([-1], [1, 1, -1], [3, 3, 3, 3, 3, 100], [100], [0, 2, -1]):
                f = io.BytesIO(DATA)
                f.seek(start)
                bio = f if length is None else Trunc(f, length)
                s = FromBlocking(None, bio)
                got = b''
                want = expect(start, length)
                try:
                    for k in plan:
                        got += asyncio.run(s.read(k))
                except Exception as e:  # pylint: disable=broad-except
                    return {'confirmed': True, 'what': 'reading a local length-limited stream raises %r (bytes handed out so far exceed / leave the window)' % e, 'start': start, 'length': length, 'read_sizes': plan, 'returned_before_the_error': list(got), 'window': list(want)}
                if not want.startswith(got) or (plan[-1] in (-1, 100) and got != want):
                    return {'confirmed': True, 'what': 'local length-limited stream does not deliver exactly the window', 'start': start, 'length': length, 'read_sizes': plan, 'returned': list(got), 'window': list(want)}
            if length is not None:
                f = io.BytesIO(DATA)
                f.seek(start)
                s = FromBlocking(None, Trunc(f, length))
                try:
                    got = asyncio.run(s.readexactly(length))
                    ok = got == DATA[start:start + length] and start + length <= N
                except UnexpectedEOFError:
                    ok = start + length > N
                if not ok:
                    return {'confirmed': True, 'what': 'readexactly over a local window is wrong', 'start': start, 'length': length}
    return None


# ---- Azure: the real AzureReadableStream against a fake BlobClient
class ResourceNotFoundError(Exception):
    pass


class HttpResponseError(Exception):
    status_code = 500


class FakeDownloader:
    def __init__(self, offset, length):
        o = 0 if offset is None else offset
        if offset is not None and offset >= N and N > 0:
            e = HttpResponseError()
            e.status_code = 416
            raise e
        self.data = DATA[o:] if length is None else DATA[o:o + length]

    async def readall(self):
        return self.data

    def chunks(self):
        async def gen():
            for i in range(0, len(self.data), 4):
                yield self.data[i:i + 4]

        return gen()


class FakeClient:
    def __init__(self, log):
        self.log = log

    async def download_blob(self, offset=None, length=None):
        self.log.append({'offset': offset, 'length': length})
        return FakeDownloader(offset, length)


class FakeFS:
    def __init__(self):
        self.log = []

    async def get_blob_client(self, url):
        return FakeClient(self.log)


def check_azure():
    az_ns = dict(base_ns)
    az_ns.update(ReadableStream=stream_ns['ReadableStream'], StorageStreamDownloader=object, BlobClient=object, anext=anext, azure=types.SimpleNamespace(core=types.SimpleNamespace(exceptions=types.SimpleNamespace(ResourceNotFoundError=ResourceNotFoundError, HttpResponseError=HttpResponseError))))
    exec(compile(ast.Module(body=extract(os.path.join(HT, 'aiocloud/aioazure/fs.py'), {'AzureReadableStream'}), type_ignores=[]), 'azure-extract', 'exec'), az_ns)
    Stream = az_ns['AzureReadableStream']
    url = types.SimpleNamespace(base='az://x')
    for start in (0, 3, 17, N - 2):
        for length in (None, 1, 2, 5, 9):
            for plan in ([-1], [100], [3, 3, 3, 3, 100], [1, -1], [2, 2, -1], [length or 4, 1], [length or 4, -1]):
                fs = FakeFS()
                s = Stream(fs, url, offset=start, length=length)

                async def run():
                    out = b''
                    for k in plan:
                        out += await s.read(k)
                    return out

                got = asyncio.run(run())
                want = expect(start, length)
                if not want.startswith(got) or (plan[-1] in (-1, 100) and got != want):
                    return {'confirmed': True, 'what': 'Azure stream opened with an offset and a length delivers bytes outside / other than the requested range', 'offset': start, 'length': length, 'read_sizes': plan, 'returned': list(got), 'requested_range': list(want), 'download_blob_requests': fs.log}
    return None


# ---- GCS / S3: the Range header statements of the real _open_from
def header_of(path, cls, start, length):
    tree = ast.parse(open(path).read())
    c = [n for n in tree.body if isinstance(n, ast.ClassDef) and n.name == cls][0]
    f = [n for n in c.body if isinstance(n, ast.AsyncFunctionDef) and n.name == '_open_from'][0]
    stmts = []
    for st in f.body:
        t = ast.unparse(st)
        if 'parse_url' in t:
            continue
        if isinstance(st, ast.Try) or any(isinstance(n, ast.Await) for n in ast.walk(st)):
            break  # the request itself: everything before it computes the header
        stmts.append(st)
    ns = {'start': start, 'length': length}
    exec(compile(ast.Module(body=stmts, type_ignores=[]), 'range-extract', 'exec'), ns)
    return ns['range_str']


def serve(header):
    assert header.startswith('bytes=')
    a, b = header[len('bytes='):].split('-')
    a = int(a)
    if a >= N:
        return None
    return DATA[a:] if b == '' else DATA[a:int(b) + 1]


def check_http():
    for path, cls in ((os.path.join(HT, 'aiocloud/aiogoogle/client/storage_client.py'), 'GoogleStorageAsyncFS'), (os.path.join(HT, 'aiocloud/aioaws/fs.py'), 'S3AsyncFS')):
        for start in (0, 1, 17, N - 1):
            for length in (None, 1, 2, 5, N - start, N - start + 3):
                h = header_of(path, cls, start, length)
                got = serve(h)
                if got != expect(start, length):
                    return {'confirmed': True, 'what': '%s._open_from sends a Range header that selects other bytes than the requested range' % cls, 'start': start, 'length': length, 'Range': h, 'server_returns': list(got or b''), 'requested_range': list(expect(start, length))}
    return None


# ---- the generic read_range (real function) over a specification stream and over a short-reading stream
def check_read_range():
    fs_ns = dict(base_ns)
    tree = ast.parse(open(os.path.join(HT, 'aiotools/fs/fs.py')).read())
    cls = [n for n in tree.body if isinstance(n, ast.ClassDef) and n.name == 'AsyncFS'][0]
    fns = [n for n in cls.body if isinstance(n, ast.AsyncFunctionDef) and n.name in ('read_range', 'read_from')]
    exec(compile(ast.Module(body=fns, type_ignores=[]), 'fs-extract', 'exec'), fs_ns)

    class Stream:
        def __init__(self, data, short):
            self.data, self.pos, self.short = data, 0, short

        async def read(self, n=-1):
            if n == -1:
                n = len(self.data) - self.pos
            if self.short:
                n = min(n, 3)  # an HTTP-like stream may hand out fewer bytes than asked while more follow
            b = self.data[self.pos:self.pos + n]
            self.pos += len(b)
            return b

        async def readexactly(self, n):
            out = b''
            while len(out) < n:
                b = await self.read(n - len(out))
                if not b:
                    raise UnexpectedEOFError()
                out += b
            return out

        async def __aenter__(self):
            return self

        async def __aexit__(self, *a):
            return None

    class FS:
        def __init__(self, short):
            self.short = short

        async def open_from(self, url, start, *, length=None):
            return Stream(expect(start, length), self.short)

    for short in (False, True):
        fs = FS(short)
        for start in (0, 3, N - 1, N):
            for end in (start - 1, start, start + 1, start + 6, N - 1, N, N + 4):
                for incl in (True, False):
                    n = end - start + (1 if incl else 0)
                    if n < 0:
                        continue
                    try:
                        got = asyncio.run(fs_ns['read_range'](fs, 'u', start, end, end_inclusive=incl))
                        ok = start + n <= N and got == DATA[start:start + n]
                    except UnexpectedEOFError:
                        got, ok = 'UnexpectedEOFError', start + n > N
                    if not ok:
                        return {'confirmed': True, 'what': 'read_range does not return exactly the requested span / does not signal the unexpected end of file', 'object_size': N, 'start': start, 'end': end, 'end_inclusive': incl, 'stream_hands_out_short_reads': short, 'returned': got if isinstance(got, str) else list(got), 'expected': list(DATA[start:start + n]) if start + n <= N else 'UnexpectedEOFError'}
    return None


res = None
for f in (check_read_range, check_local, check_http, check_azure):
    try:
        res = f()
    except Exception as e:  # pylint: disable=broad-except
        import traceback
        res = {'confirmed': False, 'harness_error': '%s: %r' % (f.__name__, e), 'traceback': traceback.format_exc()[-1200:]}
        break
    if res:
        break
print(json.dumps(res or {'confirmed': False}))
