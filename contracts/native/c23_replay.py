"""Native witness search for C23.  Real code under test (extracted by AST where the module cannot be imported offline):
 * hailtop/aiotools/fs/stream.py: _ReadableStreamFromBlocking, EmptyReadableStream (extracted, with its exceptions)
 * hailtop/aiotools/local_fs.py: TruncatedReadableBinaryIO (extracted)
 * hailtop/aiocloud/aioazure/fs.py: AzureReadableStream (extracted) against a fake BlobClient implementing download_blob(offset, length)
 * the Range header expressions of the GCS / S3 _open_from (statements extracted and executed), answered by an RFC 7233 fake server.
Prints one JSON object."""
import ast, asyncio, io, json, os, sys, types, typing
from concurrent.futures import ThreadPoolExecutor

repo = os.environ['VERIF_REPO']
HT = os.path.join(repo, 'hail/python/hailtop')
DATA = bytes(range(40))
N = len(DATA)


def extract(path, names):
    tree = ast.parse(open(path).read())
    return [n for n in tree.body if isinstance(n, (ast.ClassDef, ast.FunctionDef, ast.AsyncFunctionDef)) and n.name in names]


class UnexpectedEOFError(Exception):
    pass


base_ns = dict(typing.__dict__)
base_ns.update(abc=__import__('abc'), asyncio=asyncio, os=os, io=io, UnexpectedEOFError=UnexpectedEOFError, ThreadPoolExecutor=ThreadPoolExecutor, TracebackType=types.TracebackType)


async def blocking_to_async(pool, fun, *a, **k):
    return fun(*a, **k)


base_ns['blocking_to_async'] = blocking_to_async
stream_ns = dict(base_ns)
exec(compile(ast.Module(body=extract(os.path.join(HT, 'aiotools/fs/stream.py'), {'ReadableStream', 'EmptyReadableStream', '_ReadableStreamFromBlocking'}), type_ignores=[]), 'stream-extract', 'exec'), stream_ns)
local_ns = dict(base_ns)
exec(compile(ast.Module(body=extract(os.path.join(HT, 'aiotools/local_fs.py'), {'TruncatedReadableBinaryIO'}), type_ignores=[]), 'local-extract', 'exec'), local_ns)
Trunc, FromBlocking, Empty = local_ns['TruncatedReadableBinaryIO'], stream_ns['_ReadableStreamFromBlocking'], stream_ns['EmptyReadableStream']


def expect(start, length):
    return DATA[start:] if length is None else DATA[start:start + length]


def check_local():
    for start in (0, 1, 17, N - 1, N):
        for length in (None, 1, 2, 5, N - start, N - start + 3):
            if length is not None and length < 1:
                continue
            for plan in ([-1], [1, 1, -1], [3, 3, 3, 3, 3, 100], [100], [0, 2, -1]):
                f = io.BytesIO(DATA)
                f.seek(start)
                bio = f if length is None else Trunc(f, length)
                s = FromBlocking(None, bio)
                got = b''
                want = expect(start, length)
                try:
                    for k in plan:
                        got += asyncio.run(s.read(k))
                except Exception as e:  # pylint: disable=broad-except
                    return {'confirmed': True, 'what': 'reading a local length-limited stream raises %r (bytes handed out so far exceed / leave the window)' % e, 'start': start, 'length': length, 'read_sizes': plan, 'returned_before_the_error': list(got), 'window': list(want)}
                if not want.startswith(got) or (plan[-1] in (-1, 100) and got != want):
                    return {'confirmed': True, 'what': 'local length-limited stream does not deliver exactly the window', 'start': start, 'length': length, 'read_sizes': plan, 'returned': list(got), 'window': list(want)}
            if length is not None:
                f = io.BytesIO(DATA)
                f.seek(start)
                s = FromBlocking(None, Trunc(f, length))
                try:
                    got = asyncio.run(s.readexactly(length))
                    ok = got == DATA[start:start + length] and start + length <= N
                except UnexpectedEOFError:
                    ok = start + length > N
                if not ok:
                    return {'confirmed': True, 'what': 'readexactly over a local window is wrong', 'start': start, 'length': length}
    return None


def check_seek(whences=(os.SEEK_CUR,), where='inside'):
    """relative / absolute seeks on a length-limited local stream (real TruncatedReadableBinaryIO behind the real
    _ReadableStreamFromBlocking).  Whatever coordinate system a seek uses, afterwards the stream must hand out exactly the
    file's bytes from the position the file was moved to up to the end of the window [start, start+length) - never a byte
    outside the window, never fewer than are left in it."""
    plans = {
        os.SEEK_CUR: [[('read', 4), ('seek', -4)], [('seek', 2)], [('seek', 0)], [('read', 3), ('seek', 2)], [('read', 5), ('seek', -2), ('read', 1), ('seek', 1)]],
        os.SEEK_SET: [[('seek', 0)], [('seek', 3)], [('read', 4), ('seek', 5)]],
        os.SEEK_END: [[('seek', -2)], [('seek', -8)], [('read', 2), ('seek', -1)]],
    }
    import tempfile
    tmp = tempfile.NamedTemporaryFile(prefix='c23-seek-', delete=False)  # a real file: io.BytesIO clamps negative targets instead of failing
    tmp.write(DATA)
    tmp.close()
    try:
        return _check_seek(whences, plans, tmp.name, where)
    finally:
        os.unlink(tmp.name)


def _check_seek(whences, plans, path, where):
    for whence in whences:
        for start in (0, 3, 20):
            for length in (8, 1, N - start):
                for plan in plans[whence] + ([[('seek', start + k - N)] for k in (0, 2) if start + k - N < 0] if whence == os.SEEK_END else []):
                    f = open(path, 'rb')
                    f.seek(start)
                    s = FromBlocking(None, Trunc(f, length))
                    lo, hi = start, min(start + length, N)
                    try:
                        for op, k in plan:
                            if op == 'read':
                                asyncio.run(s.read(k))
                            else:
                                asyncio.run(s.seek(k, whence))
                        pos = f.tell()
                        got = asyncio.run(s.read())
                    except (ValueError, OSError, AssertionError):
                        continue  # a seek the stream refuses hands out nothing
                    if (lo <= pos <= hi) != (where == 'inside'):
                        continue  # 'inside': seeks that land in the window; 'outside': seeks that leave it (nothing may be handed out)
                    want = DATA[pos:hi] if lo <= pos <= hi else b''
                    if got != want:
                        return {'confirmed': True, 'what': 'after a seek (whence=%d) a length-limited local stream does not deliver exactly the bytes between the file position and the end of the requested range' % whence,
                                'object_size': N, 'start': start, 'length': length, 'plan': plan + [('read', -1)], 'whence': whence, 'file_position_after_the_seek': pos, 'requested_range': [lo, hi],
                                'returned_bytes_at': [DATA.index(bytes([b])) for b in got], 'expected_bytes_at': list(range(pos, hi)) if lo <= pos <= hi else []}
    return None


# ---- Azure: the real AzureReadableStream against a fake BlobClient
class ResourceNotFoundError(Exception):
    pass


class HttpResponseError(Exception):
    status_code = 500


class FakeDownloader:
    def __init__(self, offset, length):
        o = 0 if offset is None else offset
        if offset is not None and offset >= N and N > 0:
            e = HttpResponseError()
            e.status_code = 416
            raise e
        self.data = DATA[o:] if length is None else DATA[o:o + length]

    async def readall(self):
        return self.data

    def chunks(self):
        async def gen():
            for i in range(0, len(self.data), 4):
                yield self.data[i:i + 4]

        return gen()


class FakeClient:
    def __init__(self, log):
        self.log = log

    async def download_blob(self, offset=None, length=None):
        self.log.append({'offset': offset, 'length': length})
        return FakeDownloader(offset, length)


class FakeFS:
    def __init__(self):
        self.log = []

    async def get_blob_client(self, url):
        return FakeClient(self.log)


def check_azure():
    az_ns = dict(base_ns)
    az_ns.update(ReadableStream=stream_ns['ReadableStream'], StorageStreamDownloader=object, BlobClient=object, anext=anext, azure=types.SimpleNamespace(core=types.SimpleNamespace(exceptions=types.SimpleNamespace(ResourceNotFoundError=ResourceNotFoundError, HttpResponseError=HttpResponseError))))
    exec(compile(ast.Module(body=extract(os.path.join(HT, 'aiocloud/aioazure/fs.py'), {'AzureReadableStream'}), type_ignores=[]), 'azure-extract', 'exec'), az_ns)
    Stream = az_ns['AzureReadableStream']
    url = types.SimpleNamespace(base='az://x')
    for start in (0, 3, 17, N - 2):
        for length in (None, 1, 2, 5, 9):
            for plan in ([-1], [100], [3, 3, 3, 3, 100], [1, -1], [2, 2, -1], [length or 4, 1], [length or 4, -1]):
                fs = FakeFS()
                s = Stream(fs, url, offset=start, length=length)

                async def run():
                    out = b''
                    for k in plan:
                        out += await s.read(k)
                    return out

                got = asyncio.run(run())
                want = expect(start, length)
                if not want.startswith(got) or (plan[-1] in (-1, 100) and got != want):
                    return {'confirmed': True, 'what': 'Azure stream opened with an offset and a length delivers bytes outside / other than the requested range', 'offset': start, 'length': length, 'read_sizes': plan, 'returned': list(got), 'requested_range': list(want), 'download_blob_requests': fs.log}
    # a range that starts at or after the end of the blob (the service answers 416): readexactly signals UnexpectedEOFError
    for start in (N, N + 5, N - 2):
        for length in (1, 4, 9):
            fs = FakeFS()
            s = Stream(fs, url, offset=start, length=length)
            want = expect(start, length)
            try:
                got = asyncio.run(s.readexactly(length))
                ok, how = len(want) == length and got == want, list(got)
            except UnexpectedEOFError:
                ok, how = len(want) < length, 'UnexpectedEOFError'
            except Exception as e:  # pylint: disable=broad-except
                ok, how = False, '%s (status_code=%r)' % (type(e).__name__, getattr(e, 'status_code', None))
            if not ok:
                return {'confirmed': True, 'what': 'Azure range read neither returns exactly the requested span nor signals UnexpectedEOFError', 'blob_size': N, 'offset': start, 'length': length, 'readexactly': length, 'outcome': how, 'expected': list(want) if len(want) == length else 'UnexpectedEOFError', 'download_blob_requests': fs.log}
    return None


# ---- GCS / S3: the Range header statements of the real _open_from
def header_of(path, cls, start, length):
    tree = ast.parse(open(path).read())
    c = [n for n in tree.body if isinstance(n, ast.ClassDef) and n.name == cls][0]
    f = [n for n in c.body if isinstance(n, ast.AsyncFunctionDef) and n.name == '_open_from'][0]
    stmts = []
    for st in f.body:
        t = ast.unparse(st)
        if 'parse_url' in t:
            continue
        if isinstance(st, ast.Try) or any(isinstance(n, ast.Await) for n in ast.walk(st)):
            break  # the request itself: everything before it computes the header
        stmts.append(st)
    ns = {'start': start, 'length': length}
    exec(compile(ast.Module(body=stmts, type_ignores=[]), 'range-extract', 'exec'), ns)
    return ns['range_str']


def serve(header):
    assert header.startswith('bytes=')
    a, b = header[len('bytes='):].split('-')
    a = int(a)
    if a >= N:
        return None
    return DATA[a:] if b == '' else DATA[a:int(b) + 1]


def check_http():
    for path, cls in ((os.path.join(HT, 'aiocloud/aiogoogle/client/storage_client.py'), 'GoogleStorageAsyncFS'), (os.path.join(HT, 'aiocloud/aioaws/fs.py'), 'S3AsyncFS')):
        for start in (0, 1, 17, N - 1):
            for length in (None, 1, 2, 5, N - start, N - start + 3):
                h = header_of(path, cls, start, length)
                got = serve(h)
                if got != expect(start, length):
                    return {'confirmed': True, 'what': '%s._open_from sends a Range header that selects other bytes than the requested range' % cls, 'start': start, 'length': length, 'Range': h, 'server_returns': list(got or b''), 'requested_range': list(expect(start, length))}
    return None


# ---- the generic read_range (real function) over a specification stream and over a short-reading stream
def check_read_range():
    fs_ns = dict(base_ns)
    tree = ast.parse(open(os.path.join(HT, 'aiotools/fs/fs.py')).read())
    cls = [n for n in tree.body if isinstance(n, ast.ClassDef) and n.name == 'AsyncFS'][0]
    fns = [n for n in cls.body if isinstance(n, ast.AsyncFunctionDef) and n.name in ('read_range', 'read_from')]
    exec(compile(ast.Module(body=fns, type_ignores=[]), 'fs-extract', 'exec'), fs_ns)

    class Stream:
        def __init__(self, data, short):
            self.data, self.pos, self.short = data, 0, short

        async def read(self, n=-1):
            if n == -1:
                n = len(self.data) - self.pos
            if self.short:
                n = min(n, 3)  # an HTTP-like stream may hand out fewer bytes than asked while more follow
            b = self.data[self.pos:self.pos + n]
            self.pos += len(b)
            return b

        async def readexactly(self, n):
            out = b''
            while len(out) < n:
                b = await self.read(n - len(out))
                if not b:
                    raise UnexpectedEOFError()
                out += b
            return out

        async def __aenter__(self):
            return self

        async def __aexit__(self, *a):
            return None

    class FS:
        def __init__(self, short):
            self.short = short

        async def open_from(self, url, start, *, length=None):
            return Stream(expect(start, length), self.short)

    for short in (False, True):
        fs = FS(short)
        for start in (0, 3, N - 1, N):
            for end in (start - 1, start, start + 1, start + 6, N - 1, N, N + 4):
                for incl in (True, False):
                    n = end - start + (1 if incl else 0)
                    if n < 0:
                        continue
                    try:
                        got = asyncio.run(fs_ns['read_range'](fs, 'u', start, end, end_inclusive=incl))
                        ok = start + n <= N and got == DATA[start:start + n]
                    except UnexpectedEOFError:
                        got, ok = 'UnexpectedEOFError', start + n > N
                    if not ok:
                        return {'confirmed': True, 'what': 'read_range does not return exactly the requested span / does not signal the unexpected end of file', 'object_size': N, 'start': start, 'end': end, 'end_inclusive': incl, 'stream_hands_out_short_reads': short, 'returned': got if isinstance(got, str) else list(got), 'expected': list(DATA[start:start + n]) if start + n <= N else 'UnexpectedEOFError'}
    return None


# ---- GCS request path: the real GoogleStorageAsyncFS -> GoogleStorageClient.get_object -> Session.get -> Session.request ->
# Session._request_with_valid_authn chain over a fake wire that honours Range as RFC 7233 says (no Range: the whole object)
def check_gcs_chain():
    import re
    from contracts.native import stubimport
    stubimport.install()
    sys.modules['pyspark'] = None  # "not installed": the requester-pays lookup then skips the Spark configuration
    from hailtop.aiocloud.aiogoogle import GoogleStorageAsyncFS, GoogleStorageClient
    from hailtop.aiocloud.common import Session

    class Creds:
        def __init__(self, headers):
            self.headers = headers

        async def auth_headers_with_expiration(self):
            return dict(self.headers), None

        async def access_token_with_expiration(self):
            return 'tok', None

        async def close(self):
            pass

    class Resp:
        def __init__(self, body):
            self.status, self.headers = 206, {}
            self.content = asyncio.StreamReader()
            self.content.feed_data(body)
            self.content.feed_eof()

        def close(self):
            pass

        def release(self):
            pass

    class Wire:
        def __init__(self):
            self.seen = []
            self.raised = None

        async def request(self, method, url, **kwargs):
            h = dict(kwargs.get('headers') or {})
            self.seen.append({'method': method, 'headers': h, 'params': dict(kwargs.get('params') or {})})
            rng = h.get('Range')
            if rng is None:
                return Resp(DATA)
            m = re.fullmatch(r'bytes=(\d+)-(\d*)', rng)
            a = int(m.group(1))
            if a >= N:
                import aiohttp  # the (stubbed) class get_object catches; the service answers such a range with 416
                e = aiohttp.ClientResponseError(None, (), status=416, message='Requested Range Not Satisfiable')
                e.status = 416
                self.raised = e
                raise e
            b = int(m.group(2)) if m.group(2) else N - 1
            return Resp(DATA[a:min(b, N - 1) + 1])

        async def close(self):
            pass

    async def run(auth):
        wire = Wire()
        fs = GoogleStorageAsyncFS(storage_client=GoogleStorageClient(session=Session(credentials=Creds(auth), http_session=wire)))
        for start, length in ((5, 5), (0, 1), (N - 1, 1), (17, None), (3, 9)):
            if length is None:
                got = await fs.read_from('gs://bucket/obj', start)
            else:
                got = await fs.read_range('gs://bucket/obj', start, start + length - 1)
            if got != expect(start, length):
                return {'confirmed': True, 'what': 'a GCS ranged read through the real GoogleStorageAsyncFS / GoogleStorageClient / Session request path does not return the requested bytes', 'credentials_auth_headers': auth, 'object_size': N, 'start': start, 'length': length, 'returned_bytes': len(got), 'expected': list(expect(start, length)), 'requests_that_reached_the_wire': wire.seen[-1:]}
        # a range that starts at or after the end of the object: the wire answers 416; get_object (called the way _open_from
        # calls it, but without the retry wrapper, whose error classification needs packages that are only stubbed here) must
        # turn exactly that into UnexpectedEOFError.  Only the wire's own exception escaping counts; anything else is a
        # harness problem and is raised as such.
        for start, length in ((N, 3), (N + 4, 1)):
            try:
                await fs._storage_client.get_object('bucket', 'obj', headers={'Range': 'bytes=%d-%d' % (start, start + length - 1)}, retry=False)
                how = 'a stream'
            except UnexpectedEOFError:
                continue
            except Exception as e:  # pylint: disable=broad-except
                if type(e).__name__ == 'UnexpectedEOFError':
                    continue
                if e is not wire.raised:
                    raise
                how = '%s (status=%r) escapes unmapped' % (type(e).__name__, getattr(e, 'status', None))
            return {'confirmed': True, 'what': 'a GCS range request that starts at or after the end of the object (answered 416) is not signalled as UnexpectedEOFError by GoogleStorageClient.get_object', 'object_size': N, 'start': start, 'length': length, 'outcome': how, 'expected': 'UnexpectedEOFError'}
        return None

    for auth in ({'Authorization': 'Bearer tok'}, {}):
        r = asyncio.run(run(auth))
        if r:
            return r
    return None


try:
    payload = json.loads(sys.stdin.read() or '{}')
except Exception:  # pylint: disable=broad-except
    payload = {}
res = None
if payload.get('mode') == 'seek':
    # replay of one clause of the TruncatedReadableBinaryIO.seek contract (the whence it is about); SEEK_SET / SEEK_END are a
    # recorded finding of the unchanged code and therefore NOT part of the general search below
    checks = (lambda: check_seek((payload['whence'],) if payload.get('whence') is not None else (os.SEEK_CUR, os.SEEK_SET, os.SEEK_END), payload.get('where', 'inside')),)
else:
    checks = (check_read_range, check_local, check_seek, check_http, check_azure, check_gcs_chain)
for f in checks:
    try:
        res = f()
    except Exception as e:  # pylint: disable=broad-except
        import traceback
        res = {'confirmed': False, 'harness_error': '%s: %r' % (f.__name__, e), 'traceback': traceback.format_exc()[-1200:]}
        break
    if res:
        break
print(json.dumps(res or {'confirmed': False}))
