"""Native witness search for C22: the REAL hailtop Copier / SourceCopier / LocalAsyncFS / RouterAsyncFS of the tree under
test copy real temporary files; only two size constants are made small (LocalAsyncFS.copy_part_size and Copier.BUFFER_SIZE)
so that part and buffer boundaries are reached with tiny files; the back-off delay between retries is zero.  The oracle is the documented rule set, written here
independently of the code (a dictionary model of the destination tree).  Input (stdin JSON): {'sizes': [...] (optional),
'part_size': int, 'buffer': int}.  Prints one JSON object {'confirmed': bool, ...first failing scenario...}."""
import asyncio
import errno
import json
import os
import shutil
import sys
import tempfile

from contracts.native import stubimport  # noqa: E402

stubimport.install()
import hailtop.utils.utils as hutils  # noqa: E402
from hailtop.aiotools.fs import FileListEntry  # noqa: E402
from hailtop.aiotools.fs.copier import Copier, Transfer  # noqa: E402
from hailtop.aiotools.fs.exceptions import FileAndDirectoryError  # noqa: E402
from hailtop.aiotools.local_fs import LocalAsyncFS  # noqa: E402

p = json.load(sys.stdin)
PART = int(p.get('part_size', 16))
BUF = int(p.get('buffer', 5))


class SmallPartLocalFS(LocalAsyncFS):
    @staticmethod
    def copy_part_size(url):
        return PART


Copier.BUFFER_SIZE = BUF
hutils.aiodocker = None  # as when the optional aiodocker package is absent (the stub importer would fabricate it)
hutils.delay_ms_for_try = lambda *a, **k: 0  # back-off between retries of a transient error (the retry logic itself is the real one)


class FlakyEntry(FileListEntry):
    """an entry of a flaky mount: the real LocalFileListEntry, except that the stat behind status() times out once"""

    def __init__(self, fs, inner):
        self._fs = fs
        self._inner = inner

    def basename(self):
        return self._inner.basename()

    async def url(self):
        return await self._inner.url()

    async def url_maybe_trailing_slash(self):
        return await self._inner.url_maybe_trailing_slash()

    async def is_file(self):
        return await self._inner.is_file()

    async def is_dir(self):
        return await self._inner.is_dir()

    async def status(self):
        self._fs.tick('status')
        return await self._inner.status()


class FlakyLocalFS(SmallPartLocalFS):
    """the real local file system; exactly one operation fails with a transient error (ETIMEDOUT is in RETRYABLE_ERRNOS): the
    `fail_on`-th status() of a listed entry, or handing out the `fail_on`-th entry of a listing"""

    def __init__(self, fail_in, fail_on):
        super().__init__()
        self.fail_in, self.fail_on, self.calls, self.fired = fail_in, fail_on, {'status': 0, 'listing': 0}, False

    def tick(self, what):
        self.calls[what] += 1
        if what == self.fail_in and self.calls[what] == self.fail_on and not self.fired:
            self.fired = True
            raise OSError(errno.ETIMEDOUT, 'Connection timed out (injected, once)')

    async def listfiles(self, url, recursive=False, exclude_trailing_slash_files=True):
        inner = await super().listfiles(url, recursive, exclude_trailing_slash_files)

        async def wrapped():
            async for entry in inner:
                self.tick('listing')
                yield FlakyEntry(self, entry)

        return wrapped()


def payload(n, salt=3):
    return bytes((7 * i + salt) % 251 for i in range(n))


def read_tree(root):
    out = {}
    for d, _, files in os.walk(root):
        for f in files:
            full = os.path.join(d, f)
            out[os.path.relpath(full, root)] = open(full, 'rb').read()
    return out


async def run_copy(fs, transfer):
    sema = asyncio.Semaphore(7)
    try:
        await Copier.copy(fs, sema, transfer)
        return None
    except BaseException as e:  # pylint: disable=broad-except
        return e


async def main():
    sizes = p.get('sizes') or [0, 1, BUF - 1, BUF, BUF + 1, PART - 1, PART, PART + 1, 2 * PART - 1, 2 * PART, 2 * PART + 1, 3 * PART, 3 * PART + BUF, 5 * PART]
    sizes = sorted({s for s in sizes if 0 <= s <= 4096})
    tmp = tempfile.mkdtemp(prefix='c22-')
    fs = SmallPartLocalFS()
    try:
        # ---- single files: exact target / inferred / into directory, over pre-existing destination states
        k = 0
        for n in sizes:
            for old in (None, 0, 3, n, n + 2 * PART + 7):
                for mode in (Transfer.DEST_IS_TARGET, Transfer.INFER_DEST, Transfer.DEST_DIR):
                    k += 1
                    base = os.path.join(tmp, 'case%d' % k)
                    os.makedirs(os.path.join(base, 'src'))
                    os.makedirs(os.path.join(base, 'dest'))
                    src = os.path.join(base, 'src', 'f')
                    open(src, 'wb').write(payload(n))
                    final = os.path.join(base, 'dest', 'f')
                    if old is not None:
                        open(final, 'wb').write(payload(old, salt=101))
                    t = Transfer(src, os.path.join(base, 'dest') if mode == Transfer.DEST_DIR else final, treat_dest_as=mode)
                    err = await run_copy(fs, t)
                    got = open(final, 'rb').read() if os.path.exists(final) else None
                    if err is not None or got != payload(n):
                        return {'confirmed': True, 'what': 'destination is not byte-identical to its source', 'source_size': n, 'part_size': PART, 'buffer_size': BUF, 'treat_dest_as': mode,
                                'pre_existing_destination_bytes': old, 'error': repr(err) if err else None, 'destination_size': None if got is None else len(got),
                                'first_difference': None if got is None else next((i for i, (a, b) in enumerate(zip(got, payload(n))) if a != b), min(len(got), n))}
                    shutil.rmtree(base)
        # ---- a tree, into a directory (dest_dir), onto a new name (target), inferred with / without an existing destination directory
        names = {'a': sizes[len(sizes) // 2], 'sub/b': PART * 2, 'sub/deep/c': PART + 1, 'd': 0}
        for mode, dest_exists, trailing in ((Transfer.DEST_DIR, True, False), (Transfer.DEST_IS_TARGET, False, False), (Transfer.INFER_DEST, True, False), (Transfer.INFER_DEST, False, False), (Transfer.INFER_DEST, False, True)):
            k += 1
            base = os.path.join(tmp, 'tree%d' % k)
            for rel, n in names.items():
                os.makedirs(os.path.dirname(os.path.join(base, 'src', rel)), exist_ok=True)
                open(os.path.join(base, 'src', rel), 'wb').write(payload(n, salt=len(rel)))
            dest = os.path.join(base, 'out')
            if dest_exists:
                os.makedirs(dest)
            into = mode == Transfer.DEST_DIR or (mode == Transfer.INFER_DEST and (dest_exists or trailing))
            err = await run_copy(fs, Transfer(os.path.join(base, 'src'), dest + ('/' if trailing else ''), treat_dest_as=mode))
            want = {(os.path.join('src', rel) if into else rel): payload(n, salt=len(rel)) for rel, n in names.items()}
            got = read_tree(dest) if os.path.isdir(dest) else None
            if err is not None or got != want:
                return {'confirmed': True, 'what': 'copied tree differs from the source tree under the documented destination rule', 'treat_dest_as': mode, 'destination_exists': dest_exists, 'trailing_slash': trailing,
                        'error': repr(err) if err else None, 'expected_files': sorted(want), 'found_files': None if got is None else sorted(got), 'differing': None if got is None else sorted(r for r in want if got.get(r) != want[r])}
            shutil.rmtree(base)
        # ---- names with characters a URL parser would split at: local paths are not URLs (LocalAsyncFS._get_path, url_join, url_basename)
        special = {'reads': 24, 'reads#2.txt': 9, 'what?.txt': 5, 'sub/a;b': 3 * PART + 1, 'sub/ordinary.txt': PART}
        for what, mk_src, mk_dest, srcname, destname, mode, into in (
            ('file names with # ? ; below a copied directory', str, str, 'src', 'out', Transfer.DEST_IS_TARGET, False),
            ('file names with # ? ; below a copied directory, file:// locations', lambda q: 'file://' + q, lambda q: 'file://' + q, 'src', 'out', Transfer.DEST_IS_TARGET, False),
            ('destination directory name with #', str, str, 'src', 'd#1', Transfer.DEST_IS_TARGET, False),
            ('destination directory name with ?', str, str, 'src', 'd?1', Transfer.DEST_IS_TARGET, False),
            ('source and destination directory names with ; and #, copied into the directory', str, str, 's;1', 'into#1', Transfer.DEST_DIR, True),
            ('source directory name with ?, destination inferred from an existing directory', str, str, 's?x', 'into;2', Transfer.INFER_DEST, True),
        ):
            k += 1
            base = os.path.join(tmp, 'names%d' % k)
            for rel, n in special.items():
                os.makedirs(os.path.dirname(os.path.join(base, srcname, rel)), exist_ok=True)
                open(os.path.join(base, srcname, rel), 'wb').write(payload(n, salt=len(rel)))
            dest = os.path.join(base, destname)
            if into:
                os.makedirs(dest)
            err = await run_copy(fs, Transfer(mk_src(os.path.join(base, srcname)), mk_dest(dest), treat_dest_as=mode))
            want = {(os.path.join(srcname, rel) if into else rel): payload(n, salt=len(rel)) for rel, n in special.items()}
            got = read_tree(dest) if os.path.isdir(dest) else None
            if err is not None or got != want:
                return {'confirmed': True, 'what': 'copied tree differs from the source tree: ' + what, 'treat_dest_as': mode, 'source': mk_src(os.path.join('<tmp>', srcname)), 'destination': mk_dest(os.path.join('<tmp>', destname)),
                        'error': repr(err) if err else None, 'expected_files': sorted(want), 'found_files': None if got is None else sorted(got), 'files_anywhere_below_tmp': sorted(os.path.relpath(q, base) for q in (os.path.join(d, f) for d, _, fs_ in os.walk(base) for f in fs_) if not os.path.relpath(q, base).startswith(srcname + os.sep)),
                        'differing': None if got is None else sorted(r for r in want if got.get(r) != want[r])}
            shutil.rmtree(base)
        k += 1
        base = os.path.join(tmp, 'single')
        os.makedirs(os.path.join(base, 'out'))
        open(os.path.join(base, 'reads'), 'wb').write(b'plain file called reads')
        open(os.path.join(base, 'reads#2.txt'), 'wb').write(payload(2 * PART + 3))
        err = await run_copy(fs, Transfer(os.path.join(base, 'reads#2.txt'), os.path.join(base, 'out', 'lane2'), treat_dest_as=Transfer.DEST_IS_TARGET))
        got = open(os.path.join(base, 'out', 'lane2'), 'rb').read() if os.path.exists(os.path.join(base, 'out', 'lane2')) else None
        if err is not None or got != payload(2 * PART + 3):
            return {'confirmed': True, 'what': "the copy of the file 'reads#2.txt' (next to a file 'reads') is not byte-identical to it", 'error': repr(err) if err else None, 'destination_holds': None if got is None else repr(got[:40])}
        shutil.rmtree(base)
        # ---- a transient error while the files of a source directory are sized up / listed: the attempt is retried and must
        #      start from a fresh listing (only the back-off delay between the retries is shortened)
        for fail_in, fail_on in (('status', 3), ('status', 1), ('listing', 2), ('listing', 4)):
            k += 1
            base = os.path.join(tmp, 'flaky%d' % k)
            files = {'f0': 3, 'f1': PART + 2, 'f2': 0, 'f3': 2 * PART, 'sub/f4': 7, 'sub/f5': 1}
            for rel, n in files.items():
                os.makedirs(os.path.dirname(os.path.join(base, 'src', rel)), exist_ok=True)
                open(os.path.join(base, 'src', rel), 'wb').write(payload(n, salt=len(rel) + n))
            flaky = FlakyLocalFS(fail_in, fail_on)
            try:
                err = await run_copy(flaky, Transfer(os.path.join(base, 'src'), os.path.join(base, 'out'), treat_dest_as=Transfer.DEST_IS_TARGET))
            finally:
                await flaky.close()
            if not flaky.fired:
                return {'confirmed': False, 'error': 'the injected transient error never fired (%s #%d): scenario is vacuous' % (fail_in, fail_on)}
            want = {rel: payload(n, salt=len(rel) + n) for rel, n in files.items()}
            got = read_tree(os.path.join(base, 'out')) if os.path.isdir(os.path.join(base, 'out')) else {}
            if err is None and got != want:
                return {'confirmed': True, 'what': 'Copier.copy returned without error but source files have no (identical) destination after one transient error in the %s of the source directory' % fail_in,
                        'transient_error': 'OSError(ETIMEDOUT) on call %d' % fail_on, 'fault_fired': flaky.fired, 'missing_files': sorted(set(want) - set(got)), 'differing': sorted(r for r in want if r in got and got[r] != want[r])}
            if err is not None:
                return {'confirmed': True, 'what': 'a single transient error in the %s of the source directory was not retried' % fail_in, 'error': repr(err)}
            shutil.rmtree(base)
        # ---- documented errors
        base = os.path.join(tmp, 'errs')
        os.makedirs(os.path.join(base, 'adir'))
        open(os.path.join(base, 'afile'), 'wb').write(payload(PART + 3))
        open(os.path.join(base, 'adir', 'x'), 'wb').write(payload(3))
        os.makedirs(os.path.join(base, 'destdir'))
        open(os.path.join(base, 'destfile'), 'wb').write(b'old')
        cases = [
            ('missing source', Transfer(os.path.join(base, 'nothing'), os.path.join(base, 'o1'), treat_dest_as=Transfer.DEST_IS_TARGET), FileNotFoundError),
            ('file onto directory', Transfer(os.path.join(base, 'afile'), os.path.join(base, 'destdir') + '/', treat_dest_as=Transfer.DEST_IS_TARGET), IsADirectoryError),
            ('directory onto file', Transfer(os.path.join(base, 'adir'), os.path.join(base, 'destfile'), treat_dest_as=Transfer.INFER_DEST), NotADirectoryError),
        ]
        for what, t, exc in cases:
            err = await run_copy(fs, t)
            if not isinstance(err, exc):
                return {'confirmed': True, 'what': 'documented error not raised: ' + what, 'expected': exc.__name__, 'got': repr(err)}
        try:
            Transfer([os.path.join(base, 'afile')], os.path.join(base, 'o2'), treat_dest_as=Transfer.DEST_IS_TARGET)
            return {'confirmed': True, 'what': 'a list of sources onto an exact target was accepted'}
        except NotADirectoryError:
            pass
        # ---- symbolic links are followed: a link to a directory inside a source tree is a directory of that tree, and an
        # existing destination that is a link to a directory is an existing directory (os.walk(followlinks=True) is the oracle)
        lb = os.path.join(tmp, 'links')
        os.makedirs(os.path.join(lb, 'shared', 'deep'))
        open(os.path.join(lb, 'shared', 'x'), 'wb').write(payload(9))
        open(os.path.join(lb, 'shared', 'deep', 'y'), 'wb').write(payload(PART + 3))
        os.makedirs(os.path.join(lb, 'src', 'data'))
        open(os.path.join(lb, 'src', 'plain'), 'wb').write(payload(5))
        os.symlink(os.path.join(lb, 'shared'), os.path.join(lb, 'src', 'data', 'latest'))
        os.symlink(os.path.join(lb, 'src', 'plain'), os.path.join(lb, 'src', 'alias'))
        want = {}
        for d, _, files in os.walk(os.path.join(lb, 'src'), followlinks=True):
            for f in files:
                full = os.path.join(d, f)
                want[os.path.relpath(full, os.path.join(lb, 'src'))] = open(full, 'rb').read()
        err = await run_copy(fs, Transfer(os.path.join(lb, 'src'), os.path.join(lb, 'out1'), treat_dest_as=Transfer.DEST_IS_TARGET))
        got = read_tree(os.path.join(lb, 'out1')) if os.path.isdir(os.path.join(lb, 'out1')) else None
        if err is not None or got != want:
            return {'confirmed': True, 'what': 'a source tree containing a symbolic link to a directory is not copied like the tree it denotes', 'error': repr(err), 'expected_files': sorted(want), 'copied_files': sorted(got) if got else got}
        os.makedirs(os.path.join(lb, 'volume', 'results'))
        os.symlink(os.path.join(lb, 'volume', 'results'), os.path.join(lb, 'out2'))
        err = await run_copy(fs, Transfer(os.path.join(lb, 'src', 'plain'), os.path.join(lb, 'out2'), treat_dest_as=Transfer.INFER_DEST))
        landed = os.path.join(lb, 'volume', 'results', 'plain')
        if err is not None or not os.path.isfile(landed) or open(landed, 'rb').read() != payload(5):
            return {'confirmed': True, 'what': 'copying a file to an existing destination that is a symbolic link to a directory (destination inferred) does not put it into that directory', 'error': repr(err), 'directory_now_holds': sorted(os.listdir(os.path.join(lb, 'volume', 'results')))}
        return {'confirmed': False, 'scenarios': k + len(cases) + 3}
    finally:
        await fs.close()
        shutil.rmtree(tmp, ignore_errors=True)


print(json.dumps(asyncio.run(main())))
