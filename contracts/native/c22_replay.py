"""Native witness search for C22: the REAL hailtop Copier / SourceCopier / LocalAsyncFS / RouterAsyncFS of the tree under
test copy real temporary files; only two size constants are made small (LocalAsyncFS.copy_part_size and Copier.BUFFER_SIZE)
so that part and buffer boundaries are reached with tiny files.  The oracle is the documented rule set, written here
independently of the code (a dictionary model of the destination tree).  Input (stdin JSON): {'sizes': [...] (optional),
'part_size': int, 'buffer': int}.  Prints one JSON object {'confirmed': bool, ...first failing scenario...}."""
import asyncio
import json
import os
import shutil
import sys
import tempfile

from contracts.native import stubimport  # noqa: E402

stubimport.install()
from hailtop.aiotools.fs.copier import Copier, Transfer  # noqa: E402
from hailtop.aiotools.fs.exceptions import FileAndDirectoryError  # noqa: E402
from hailtop.aiotools.local_fs import LocalAsyncFS  # noqa: E402

p = json.load(sys.stdin)
PART = int(p.get('part_size', 16))
BUF = int(p.get('buffer', 5))


class SmallPartLocalFS(LocalAsyncFS):
    @staticmethod
    def copy_part_size(url):
        return PART


Copier.BUFFER_SIZE = BUF


def payload(n, salt=3):
    return bytes((7 * i + salt) % 251 for i in range(n))


def read_tree(root):
    out = {}
    for d, _, files in os.walk(root):
        for f in files:
            full = os.path.join(d, f)
            out[os.path.relpath(full, root)] = open(full, 'rb').read()
    return out


async def run_copy(fs, transfer):
    sema = asyncio.Semaphore(7)
    try:
        await Copier.copy(fs, sema, transfer)
        return None
    except BaseException as e:  # pylint: disable=broad-except
        return e


async def main():
    sizes = p.get('sizes') or [0, 1, BUF - 1, BUF, BUF + 1, PART - 1, PART, PART + 1, 2 * PART - 1, 2 * PART, 2 * PART + 1, 3 * PART, 3 * PART + BUF, 5 * PART]
    sizes = sorted({s for s in sizes if 0 <= s <= 4096})
    tmp = tempfile.mkdtemp(prefix='c22-')
    fs = SmallPartLocalFS()
    try:
        # ---- single files: exact target / inferred / into directory, over pre-existing destination states
        k = 0
        for n in sizes:
            for old in (None, 0, 3, n, n + 2 * PART + 7):
                for mode in (Transfer.DEST_IS_TARGET, Transfer.INFER_DEST, Transfer.DEST_DIR):
                    k += 1
                    base = os.path.join(tmp, 'case%d' % k)
                    os.makedirs(os.path.join(base, 'src'))
                    os.makedirs(os.path.join(base, 'dest'))
                    src = os.path.join(base, 'src', 'f')
                    open(src, 'wb').write(payload(n))
                    final = os.path.join(base, 'dest', 'f')
                    if old is not None:
                        open(final, 'wb').write(payload(old, salt=101))
                    t = Transfer(src, os.path.join(base, 'dest') if mode == Transfer.DEST_DIR else final, treat_dest_as=mode)
                    err = await run_copy(fs, t)
                    got = open(final, 'rb').read() if os.path.exists(final) else None
                    if err is not None or got != payload(n):
                        return {'confirmed': True, 'what': 'destination is not byte-identical to its source', 'source_size': n, 'part_size': PART, 'buffer_size': BUF, 'treat_dest_as': mode,
                                'pre_existing_destination_bytes': old, 'error': repr(err) if err else None, 'destination_size': None if got is None else len(got),
                                'first_difference': None if got is None else next((i for i, (a, b) in enumerate(zip(got, payload(n))) if a != b), min(len(got), n))}
                    shutil.rmtree(base)
        # ---- a tree, into a directory (dest_dir), onto a new name (target), inferred with / without an existing destination directory
        names = {'a': sizes[len(sizes) // 2], 'sub/b': PART * 2, 'sub/deep/c': PART + 1, 'd': 0}
        for mode, dest_exists, trailing in ((Transfer.DEST_DIR, True, False), (Transfer.DEST_IS_TARGET, False, False), (Transfer.INFER_DEST, True, False), (Transfer.INFER_DEST, False, False), (Transfer.INFER_DEST, False, True)):
            k += 1
            base = os.path.join(tmp, 'tree%d' % k)
            for rel, n in names.items():
                os.makedirs(os.path.dirname(os.path.join(base, 'src', rel)), exist_ok=True)
                open(os.path.join(base, 'src', rel), 'wb').write(payload(n, salt=len(rel)))
            dest = os.path.join(base, 'out')
            if dest_exists:
                os.makedirs(dest)
            into = mode == Transfer.DEST_DIR or (mode == Transfer.INFER_DEST and (dest_exists or trailing))
            err = await run_copy(fs, Transfer(os.path.join(base, 'src'), dest + ('/' if trailing else ''), treat_dest_as=mode))
            want = {(os.path.join('src', rel) if into else rel): payload(n, salt=len(rel)) for rel, n in names.items()}
            got = read_tree(dest) if os.path.isdir(dest) else None
            if err is not None or got != want:
                return {'confirmed': True, 'what': 'copied tree differs from the source tree under the documented destination rule', 'treat_dest_as': mode, 'destination_exists': dest_exists, 'trailing_slash': trailing,
                        'error': repr(err) if err else None, 'expected_files': sorted(want), 'found_files': None if got is None else sorted(got), 'differing': None if got is None else sorted(r for r in want if got.get(r) != want[r])}
            shutil.rmtree(base)
        # ---- documented errors
        base = os.path.join(tmp, 'errs')
        os.makedirs(os.path.join(base, 'adir'))
        open(os.path.join(base, 'afile'), 'wb').write(payload(PART + 3))
        open(os.path.join(base, 'adir', 'x'), 'wb').write(payload(3))
        os.makedirs(os.path.join(base, 'destdir'))
        open(os.path.join(base, 'destfile'), 'wb').write(b'old')
        cases = [
            ('missing source', Transfer(os.path.join(base, 'nothing'), os.path.join(base, 'o1'), treat_dest_as=Transfer.DEST_IS_TARGET), FileNotFoundError),
            ('file onto directory', Transfer(os.path.join(base, 'afile'), os.path.join(base, 'destdir') + '/', treat_dest_as=Transfer.DEST_IS_TARGET), IsADirectoryError),
            ('directory onto file', Transfer(os.path.join(base, 'adir'), os.path.join(base, 'destfile'), treat_dest_as=Transfer.INFER_DEST), NotADirectoryError),
        ]
        for what, t, exc in cases:
            err = await run_copy(fs, t)
            if not isinstance(err, exc):
                return {'confirmed': True, 'what': 'documented error not raised: ' + what, 'expected': exc.__name__, 'got': repr(err)}
        try:
            Transfer([os.path.join(base, 'afile')], os.path.join(base, 'o2'), treat_dest_as=Transfer.DEST_IS_TARGET)
            return {'confirmed': True, 'what': 'a list of sources onto an exact target was accepted'}
        except NotADirectoryError:
            pass
        return {'confirmed': False, 'scenarios': k + len(cases) + 1}
    finally:
        await fs.close()
        shutil.rmtree(tmp, ignore_errors=True)


print(json.dumps(asyncio.run(main())))
