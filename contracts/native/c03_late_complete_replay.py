"""C03 known finding F-C03-1 - replay on the UNCHANGED tree: an activation timeout followed by a late `mark_job_complete` that
carries a start time leaves the timed-out attempt with a start time (start moved 100 -> NULL -> 300) and bills it.

    mark_job_creating(start=100)                               -> (100, 100, NULL, NULL)
    deactivate_instance('activation_timeout', 400)             -> (NULL, 400, 400, activation_timeout)
    mark_job_complete(start=300, end=500, reason='completed')  -> (300, 400, 400, activation_timeout), 100 ms * quantity billed

`mark_job_complete` is the only writer of `attempts` that assigns BOTH start_time and reason: in attempts_before_update
NEW.reason = 'completed' is not 'activation_timeout' (the start is not cleared), then the end/reason latch restores
reason = 'activation_timeout'.  No MySQL server exists in the sandbox: the statements are run by a small interpreter for the
subset of MySQL the billing triggers are written in (three-valued logic, IF/ELSEIF, SET, SELECT..INTO, INSERT into the
aggregated tables), taken unchanged from the independently written demonstration of seed C03-H (seeded/C03-H/demo.py); it
executes the EFFECTIVE text (last CREATE in build.yaml migration order) of the three attempts triggers and of the stored
procedures' UPDATE attempts statements from the tree under test - nothing about the triggers is restated here.

Run:  /venv/bin/python contracts/native/c03_late_complete_replay.py        (tree: $VERIF_REPO, default /repo)
Prints the row after every statement and one JSON object {'confirmed': bool, 'what': ...}; exit 0 either way (a harness
problem is an exception, never a verdict).
"""
import ast
import asyncio
import collections
import os
import re
import sys

ROOT = os.environ.get('VERIF_REPO') or '/repo'
SQL_DIR = os.path.join(ROOT, 'batch', 'sql')


# --------------------------------------------------------------------------------------
# Where the effective SQL comes from: the migrations of the batch database, in the order
# build.yaml applies them; the effective definition of a routine is its LAST CREATE.
# --------------------------------------------------------------------------------------
def migration_files():
    text = open(os.path.join(ROOT, 'build.yaml')).read()
    i = text.index('databaseName: batch')
    j = text.index('\n    inputs:', i)
    return [n for n in re.findall(r'script: /io/sql/(\S+)', text[i:j]) if n.endswith('.sql')]


def effective(kind, name):
    pat = re.compile(r'CREATE\s+%s\s+%s\b.*?^END\s*\$\$' % (kind, re.escape(name)), re.S | re.M | re.I)
    found = None
    for fn in migration_files():
        src = open(os.path.join(SQL_DIR, fn)).read()
        for m in pat.finditer(src):
            found = (fn, m.group(0))
    assert found is not None, (kind, name)
    return found


# --------------------------------------------------------------------------------------
# A small interpreter for the subset of MySQL the billing triggers are written in
# (three-valued logic, GREATEST/COALESCE with NULLs, IF/ELSEIF/ELSE, SET, SELECT..INTO,
# INSERT..VALUES / INSERT..SELECT into the aggregated_* tables). It runs the text of the
# .sql files; nothing about the triggers is restated here.
# --------------------------------------------------------------------------------------
TOKEN = re.compile(
    r"""\s*(?:(\#[^\n]*|--[^\n]*)|(\d+)|'((?:[^']|'')*)'|(%s)|"""
    r"""((?:`[^`]+`|[A-Za-z_][A-Za-z_0-9]*)(?:\.(?:`[^`]+`|[A-Za-z_][A-Za-z_0-9]*))?)|"""
    r"""(<=>|<=|>=|!=|<>|[-+*/=<>(),;]))"""
)


def tokenize(text):
    text = text.replace('$$', ' ')
    pos, out = 0, []
    while True:
        while pos < len(text) and text[pos].isspace():
            pos += 1
        if pos >= len(text):
            return out
        m = TOKEN.match(text, pos)
        assert m and m.end() > pos, 'cannot tokenize: %r' % text[pos : pos + 40]
        pos = m.end()
        comment, num, string, ph, ident, op = m.groups()
        if comment is not None:
            continue
        if num is not None:
            out.append(('num', int(num)))
        elif string is not None:
            out.append(('str', string.replace("''", "'")))
        elif ph is not None:
            out.append(('ph', '%s'))
        elif ident is not None:
            out.append(('id', ident.replace('`', '')))
        else:
            out.append(('op', op))


def kw(tok):
    return tok[1].upper() if tok is not None and tok[0] == 'id' else None


class Parser:
    def __init__(self, toks):
        self.t, self.i = toks, 0

    def peek(self, k=0):
        return self.t[self.i + k] if self.i + k < len(self.t) else None

    def next(self):
        tok = self.peek()
        assert tok is not None, 'unexpected end of SQL'
        self.i += 1
        return tok

    def accept_op(self, *ops):
        tok = self.peek()
        if tok is not None and tok[0] == 'op' and tok[1] in ops:
            self.i += 1
            return tok[1]
        return None

    def accept_kw(self, *kws):
        if kw(self.peek()) in kws:
            return kw(self.next())
        return None

    def expect_op(self, op):
        assert self.accept_op(op), 'expected %r at %r' % (op, self.t[self.i : self.i + 6])

    def expect_kw(self, k):
        assert self.accept_kw(k), 'expected %s at %r' % (k, self.t[self.i : self.i + 6])

    # ---- expressions
    def expr(self):
        left = self.and_expr()
        while self.accept_kw('OR'):
            left = ('or', left, self.and_expr())
        return left

    def and_expr(self):
        left = self.not_expr()
        while self.accept_kw('AND'):
            left = ('and', left, self.not_expr())
        return left

    def not_expr(self):
        if self.accept_kw('NOT'):
            return ('not', self.not_expr())
        return self.cmp_expr()

    def cmp_expr(self):
        left = self.add_expr()
        while True:
            op = self.accept_op('=', '<=>', '!=', '<>', '<', '<=', '>', '>=')
            if op:
                left = ('cmp', op, left, self.add_expr())
                continue
            if kw(self.peek()) == 'IS':
                self.next()
                neg = bool(self.accept_kw('NOT'))
                self.expect_kw('NULL')
                left = ('isnull', left, neg)
                continue
            return left

    def add_expr(self):
        left = self.mul_expr()
        while True:
            op = self.accept_op('+', '-')
            if not op:
                return left
            left = ('arith', op, left, self.mul_expr())

    def mul_expr(self):
        left = self.unary()
        while True:
            op = self.accept_op('*', '/')
            if not op:
                return left
            left = ('arith', op, left, self.unary())

    def unary(self):
        if self.accept_op('-'):
            return ('arith', '-', ('lit', 0), self.unary())
        return self.primary()

    def primary(self):
        tok = self.next()
        if tok[0] == 'num' or tok[0] == 'str':
            return ('lit', tok[1])
        if tok[0] == 'ph':
            return ('ph',)
        if tok == ('op', '('):
            e = self.expr()
            self.expect_op(')')
            return e
        assert tok[0] == 'id', 'unexpected token %r' % (tok,)
        up = tok[1].upper()
        if up == 'NULL':
            return ('lit', None)
        if up == 'TRUE':
            return ('lit', True)
        if up == 'FALSE':
            return ('lit', False)
        if self.peek() == ('op', '('):
            self.next()
            if up == 'CAST':
                e = self.expr()
                self.expect_kw('AS')
                while self.peek() != ('op', ')'):
                    self.next()
                self.next()
                return e
            args = []
            if self.peek() != ('op', ')'):
                args.append(self.expr())
                while self.accept_op(','):
                    args.append(self.expr())
            self.expect_op(')')
            return ('call', up, args)
        return ('var', tok[1].lower())

    # ---- statements
    def block(self):
        stmts = []
        while True:
            k = kw(self.peek())
            if self.peek() is None or k in ('END', 'ELSEIF', 'ELSE'):
                return stmts
            if k == 'IF':
                self.next()
                arms = []
                cond = self.expr()
                self.expect_kw('THEN')
                arms.append((cond, self.block()))
                orelse = []
                while True:
                    if self.accept_kw('ELSEIF'):
                        cond = self.expr()
                        self.expect_kw('THEN')
                        arms.append((cond, self.block()))
                    elif self.accept_kw('ELSE'):
                        orelse = self.block()
                    else:
                        break
                self.expect_kw('END')
                self.expect_kw('IF')
                self.expect_op(';')
                stmts.append(('if', arms, orelse))
            elif k == 'SET':
                self.next()
                target = self.next()[1].lower()
                self.expect_op('=')
                e = self.expr()
                self.expect_op(';')
                stmts.append(('set', target, e))
            elif k == 'DECLARE':
                self.next()
                name = self.next()[1].lower()
                default = ('lit', None)
                while self.peek() != ('op', ';'):
                    if self.accept_kw('DEFAULT'):
                        default = self.expr()
                    else:
                        self.next()
                self.next()
                stmts.append(('set', name, default))
            else:
                raw, depth = [], 0
                while True:
                    tok = self.next()
                    if tok == ('op', '('):
                        depth += 1
                    elif tok == ('op', ')'):
                        depth -= 1
                    elif tok == ('op', ';') and depth == 0:
                        break
                    raw.append(tok)
                stmts.append(('raw', raw))


def split_top(toks, sep=('op', ',')):
    parts, cur, depth = [], [], 0
    for tok in toks:
        if tok == ('op', '('):
            depth += 1
        elif tok == ('op', ')'):
            depth -= 1
        if tok == sep and depth == 0:
            parts.append(cur)
            cur = []
        else:
            cur.append(tok)
    parts.append(cur)
    return parts


def find_top(toks, word, start=0):
    depth = 0
    for i in range(start, len(toks)):
        if toks[i] == ('op', '('):
            depth += 1
        elif toks[i] == ('op', ')'):
            depth -= 1
        elif depth == 0 and kw(toks[i]) == word:
            return i
    return -1


def parse_expr(toks):
    p = Parser(toks)
    e = p.expr()
    assert p.peek() is None, 'trailing tokens in expression: %r' % (toks,)
    return e


def truth(v):
    return v is not None and bool(v)


def evaluate(e, resolve, placeholders=None):
    tag = e[0]
    if tag == 'lit':
        return e[1]
    if tag == 'ph':
        return placeholders.pop(0)
    if tag == 'var':
        return resolve(e[1])
    if tag == 'or':
        a, b = evaluate(e[1], resolve, placeholders), evaluate(e[2], resolve, placeholders)
        if truth(a) or truth(b):
            return True
        return None if a is None or b is None else False
    if tag == 'and':
        a, b = evaluate(e[1], resolve, placeholders), evaluate(e[2], resolve, placeholders)
        if (a is not None and not a) or (b is not None and not b):
            return False
        return None if a is None or b is None else True
    if tag == 'not':
        a = evaluate(e[1], resolve, placeholders)
        return None if a is None else not a
    if tag == 'isnull':
        a = evaluate(e[1], resolve, placeholders)
        return (a is not None) if e[2] else (a is None)
    if tag == 'cmp':
        op = e[1]
        a, b = evaluate(e[2], resolve, placeholders), evaluate(e[3], resolve, placeholders)
        if op == '<=>':
            return a == b
        if a is None or b is None:
            return None
        if isinstance(a, str) and isinstance(b, str):
            a, b = a.rstrip().lower(), b.rstrip().lower()  # default collation
        return {'=': a == b, '!=': a != b, '<>': a != b, '<': a < b, '<=': a <= b, '>': a > b, '>=': a >= b}[op]
    if tag == 'arith':
        a, b = evaluate(e[2], resolve, placeholders), evaluate(e[3], resolve, placeholders)
        if a is None or b is None:
            return None
        return {'+': a + b, '-': a - b, '*': a * b, '/': (a / b if b else None)}[e[1]]
    if tag == 'call':
        name = e[1]
        args = [evaluate(a, resolve, placeholders) for a in e[2]]
        if name in ('GREATEST', 'LEAST'):
            if any(a is None for a in args):
                return None  # MySQL: NULL if any argument is NULL
            return max(args) if name == 'GREATEST' else min(args)
        if name in ('COALESCE', 'IFNULL'):
            for a in args:
                if a is not None:
                    return a
            return None
        if name == 'IF':
            return args[1] if truth(args[0]) else args[2]
        if name == 'FLOOR':
            return None if args[0] is None else int(args[0] // 1)
        if name == 'RAND':
            return 0.0
        if name == 'UTC_DATE':
            return '1970-01-01'
        raise AssertionError('SQL function not modelled: ' + name)
    raise AssertionError(e)


def column(name):
    return name.split('.', 1)[1] if '.' in name and name.split('.', 1)[0] not in ('new', 'old') else name


class Routine:
    """The body of a trigger, parsed from the text of its effective definition."""

    def __init__(self, name):
        self.file, text = effective('TRIGGER', name)
        body = text[re.search(r'\bBEGIN\b', text).end() : text.rindex('END')]
        p = Parser(tokenize(body))
        self.stmts = p.block()
        assert p.peek() is None, 'unparsed trigger text in %s' % name

    def run(self, env, tables=None, sources=None, ledger=None):
        def resolve(name):
            assert name in env, 'unknown SQL name %r' % name
            return env[name]

        def with_row(row):
            def res(name):
                c = column(name)
                if c in row:
                    return row[c]
                return resolve(name)

            return res

        def run_block(stmts):
            for s in stmts:
                if s[0] == 'set':
                    env[s[1]] = evaluate(s[2], resolve)
                elif s[0] == 'if':
                    for cond, body in s[1]:
                        if truth(evaluate(cond, resolve)):
                            run_block(body)
                            break
                    else:
                        run_block(s[2])
                else:
                    raw = s[1]
                    head = kw(raw[0])
                    if head == 'SELECT':
                        into = find_top(raw, 'INTO')
                        frm = find_top(raw, 'FROM')
                        assert into > 0 and frm > into, raw
                        items = split_top(raw[1:into])
                        names = [t[1].lower() for t in raw[into + 1 : frm] if t[0] == 'id']
                        row = tables[raw[frm + 1][1].lower()]()
                        if row is not None:  # no row: the variables keep their values
                            for n, item in zip(names, items):
                                env[n] = evaluate(parse_expr(item), with_row(row))
                    elif head == 'INSERT':
                        table = raw[2][1].lower()
                        close = raw.index(('op', ')'))
                        cols = [t[1].lower() for t in raw[4:close] if t[0] == 'id']
                        k = cols.index('usage')
                        values = find_top(raw, 'VALUES')
                        if values > 0:
                            depth, j = 0, values + 1
                            while True:
                                if raw[j] == ('op', '('):
                                    depth += 1
                                elif raw[j] == ('op', ')'):
                                    depth -= 1
                                    if depth == 0:
                                        break
                                j += 1
                            item = split_top(raw[values + 2 : j])[k]
                            ledger[table] += evaluate(parse_expr(item), resolve)
                        else:
                            sel = find_top(raw, 'SELECT')
                            frm = find_top(raw, 'FROM', sel)
                            item = split_top(raw[sel + 1 : frm])[k]
                            for row in sources[raw[frm + 1][1].lower()]():
                                ledger[table] += evaluate(parse_expr(item), with_row(row))
                    else:
                        raise AssertionError('statement not modelled: %r' % (raw[:4],))

        run_block(self.stmts)


def procedure_params(text):
    head = text[text.index('(') + 1 : re.search(r'\)\s*BEGIN', text).start()]
    return [m.group(1).lower() for m in re.finditer(r'\b(?:IN|OUT|INOUT)\s+(\w+)', head)]


def attempts_assignments(sql):
    """The SET list of the (single) UPDATE attempts statement in a piece of SQL."""
    ms = re.findall(r'UPDATE\s+attempts\s+SET\s+(.*?)(?:\bWHERE\b|\{where_query\}|;)', sql, re.S)
    assert len(ms) <= 1, sql
    if not ms:
        return None
    out = []
    for part in split_top(tokenize(ms[0])):
        assert part[0][0] == 'id' and part[1] == ('op', '='), part
        out.append((part[0][1].lower(), parse_expr(part[2:])))
    return out


class Database:
    """One job with one attempt on one instance, the attempt's resources, and the total usage
    written to each aggregated_* table. Every update of the attempts row goes through the
    effective attempts_before_update and attempts_after_update triggers, every new
    attempt_resources row through attempt_resources_after_insert."""

    def __init__(self):
        self.before = Routine('attempts_before_update')
        self.after = Routine('attempts_after_update')
        self.res_insert = Routine('attempt_resources_after_insert')
        self.attempt = None
        self.resources = []
        self.ledger = collections.defaultdict(int)
        self.trace = []
        self.tables = {
            'globals': lambda: {'n_tokens': 200},
            'jobs': lambda: {'cores_mcpu': 1000, 'job_group_id': 0},
            'batches': lambda: {'id': 1, 'billing_project': 'bp', 'user': 'u'},
            'attempts': lambda: self.attempt,
        }
        self.sources = {
            'attempt_resources': lambda: [dict(r, ancestor_id=0) for r in self.resources],
            'job_group_self_and_ancestors': lambda: [{'ancestor_id': 0}],
        }

    # INSERT INTO attempts (batch_id, job_id, attempt_id, instance_name) ... ON DUPLICATE KEY UPDATE batch_id = batch_id
    def add_attempt(self):
        if self.attempt is None:
            self.attempt = {
                'batch_id': 1, 'job_id': 1, 'attempt_id': 'a1', 'instance_name': 'i1',
                'start_time': None, 'rollup_time': None, 'end_time': None, 'reason': None,
            }  # fmt: skip
        else:
            self.update_attempt([], {}, 'add_attempt (duplicate key)')

    def update_attempt(self, assignments, params, label, placeholders=None):
        old = dict(self.attempt)
        new = dict(old)

        def resolve(name):
            if name in params:
                return params[name]
            assert name in new, 'unknown SQL name %r in %s' % (name, label)
            return new[name]

        for col, e in assignments:  # MySQL assigns left to right
            new[col] = evaluate(e, resolve, placeholders)
        env = {}
        for c in old:
            env['old.' + c] = old[c]
            env['new.' + c] = new[c]
        self.before.run(env)
        self.attempt = {c: env['new.' + c] for c in old}
        env = {}
        for c in old:
            env['old.' + c] = old[c]
            env['new.' + c] = self.attempt[c]
        self.after.run(env, self.tables, self.sources, self.ledger)
        self.trace.append((label, dict(self.attempt), dict(self.ledger)))

    def call(self, proc, *args, **kwargs):
        _, text = effective('PROCEDURE', proc)
        names = procedure_params(text)
        params = dict(zip(names, args))
        params.update(kwargs)
        if re.search(r'CALL\s+add_attempt\b', text):
            self.add_attempt()
        assignments = attempts_assignments(text)
        if assignments is not None:
            shown = ', '.join('%s=%r' % kv for kv in params.items() if re.search('time|reason', kv[0]) and kv[1] is not None)
            self.update_attempt(assignments, params, '%s(%s)' % (proc, shown))

    def insert_resource(self, resource_id, deduped_resource_id, quantity):
        # INSERT INTO attempt_resources ... ON DUPLICATE KEY UPDATE quantity = quantity
        if any(r['resource_id'] == resource_id for r in self.resources):
            return
        row = {
            'batch_id': 1, 'job_id': 1, 'attempt_id': 'a1',
            'resource_id': resource_id, 'deduped_resource_id': deduped_resource_id, 'quantity': quantity,
        }  # fmt: skip
        self.resources.append(row)
        env = {'new.' + c: v for c, v in row.items()}
        self.res_insert.run(env, self.tables, self.sources, self.ledger)
        self.trace.append(('attempt_resources insert quantity=%d' % quantity, dict(self.attempt), dict(self.ledger)))

    # ---- what the driver sends: the statements come from the driver's own source text
    async def execute_and_fetchone(self, sql, args=(), query_name=None):
        m = re.search(r'CALL\s+(\w+)\s*\(', sql)
        assert m, sql
        self.call(m.group(1), *args)
        return {'rc': 0, 'delta_cores_mcpu': 0}

    async def execute_many(self, sql, args_array, query_name=None):
        m = re.search(r'INSERT INTO `?attempt_resources`?\s*\((.*?)\)', sql)
        assert m, sql
        cols = [c.strip() for c in m.group(1).split(',')]
        for args in args_array:
            row = dict(zip(cols, args))
            self.insert_resource(row['resource_id'], row['deduped_resource_id'], row['quantity'])

    async def execute_update(self, sql, args=(), query_name=None):
        assignments = attempts_assignments(sql)
        assert assignments, sql
        self.update_attempt(assignments, {}, 'billing update %r' % (args[0],), placeholders=list(args))

    # ---- observations
    def billed_msecs(self):
        a = self.attempt
        if a['rollup_time'] is None or a['start_time'] is None:
            return 0
        return max(a['rollup_time'] - a['start_time'], 0)

    def show(self):
        for label, a, ledger in self.trace:
            print('  %-72s start=%-5s rollup=%-5s end=%-5s reason=%-19s usage=%s' % (
                label, a['start_time'], a['rollup_time'], a['end_time'], a['reason'],
                dict(ledger) or '{}'))  # fmt: skip


# --------------------------------------------------------------------------------------
# The driver side: the real functions of batch/batch/driver/{job,main}.py, taken from the
# files with ast and run against the database above.
# --------------------------------------------------------------------------------------
class Log:
    def info(self, *a, **k):
        pass

    warning = exception = error = info


class Instance:
    name = 'i1'
    state = 'active'

    def adjust_free_cores_in_memory(self, delta):
        pass

    async def mark_healthy(self):
        pass


class Response:
    pass


Resource = collections.namedtuple('Resource', ['resource_id', 'deduped_resource_id'])


def driver_functions(db):
    import typing

    body = {}

    async def json_request(request):
        return body['json']

    ns = {
        'collections': collections, 'asyncio': asyncio, 'log': Log(), 'List': typing.List, 'Dict': typing.Dict,
        'Optional': typing.Optional, 'QuantifiedResource': dict, 'Database': object, 'Instance': Instance,
        'json_request': json_request, 'flatten': lambda xxs: [x for xs in xxs for x in xs],
        'web': type('web', (), {'Response': Response}),
    }  # fmt: skip
    wanted = {
        'batch/batch/driver/job.py': ['add_attempt_resources', 'mark_job_started', 'mark_job_creating'],
        'batch/batch/driver/main.py': ['billing_update_1'],
    }
    for rel, names in wanted.items():
        src = open(os.path.join(ROOT, rel)).read()
        for node in ast.parse(src).body:
            if isinstance(node, ast.AsyncFunctionDef) and node.name in names:
                node.decorator_list = []
                exec(compile(ast.Module([node], []), rel, 'exec'), ns)
    app = {'db': db, 'resource_name_to_id': {'compute/n1-preemptible/1': Resource(7, 7)}}
    class Request(dict):
        pass

    request = Request()
    request.app = app

    async def billing_update(timestamp):
        body['json'] = {'timestamp': timestamp, 'attempts': [{'batch_id': 1, 'job_id': 1, 'attempt_id': 'a1'}]}
        await ns['billing_update_1'](request, Instance())

    return app, ns, billing_update


CPU = [{'name': 'compute/n1-preemptible/1', 'quantity': 1000}]
QUANTITY = 1000


def control():
    """Ordinary life of an attempt: schedule, started, heartbeat, complete. Bills end - start."""
    db = Database()
    app, ns, billing_update = driver_functions(db)

    async def run():
        db.call('schedule_job', 1, 1, 'a1', 'i1')
        await ns['mark_job_started'](app, 1, 1, 'a1', Instance(), 100, CPU)
        await billing_update(160)
        assert db.billed_msecs() == 60 and set(db.ledger.values()) == {60 * QUANTITY}, (db.attempt, dict(db.ledger))
        db.call('mark_job_complete', 1, 1, 'a1', 'i1', 'Success', None, 100, 300, 'completed', 301)

    asyncio.run(run())
    assert db.attempt['start_time'] == 100 and db.attempt['rollup_time'] == 300 and db.attempt['end_time'] == 300
    assert len(db.ledger) == 4 and set(db.ledger.values()) == {200 * QUANTITY}, dict(db.ledger)
    print('control (schedule, started 100, heartbeat 160, complete 300): billed 200 ms in all 4 aggregated tables - ok')


def main():
    import json

    control()
    db = Database()
    app, ns, billing_update = driver_functions(db)
    starts, problems = [], []

    def check(step):
        a = db.attempt
        if a['start_time'] is not None:
            if not all(a['start_time'] <= s for s in starts):
                problems.append('after %s: start_time moved later: %r -> %r' % (step, starts, a['start_time']))
            starts.append(a['start_time'])
        if a['reason'] == 'activation_timeout' and (db.billed_msecs() != 0 or any(db.ledger.values())):
            problems.append('after %s: an activation timeout bills %d ms (aggregated: %r)' % (step, db.billed_msecs(), dict(db.ledger)))

    async def run():
        await ns['mark_job_creating'](app, 1, 1, 'a1', Instance(), 100, CPU)
        check('mark_job_creating')
        db.call('deactivate_instance', 'i1', 'activation_timeout', 400)
        check('deactivate_instance')
        a = db.attempt
        assert (a['start_time'], a['rollup_time'], a['end_time'], a['reason']) == (None, 400, 400, 'activation_timeout'), a
        # the worker's job_complete report (start 300, end 500 on the worker clock) reaches the database after the deactivation
        db.call('mark_job_complete', 1, 1, 'a1', 'i1', 'Failed', None, 300, 500, 'completed', 501)
        check('late mark_job_complete')

    asyncio.run(run())
    print('activation timeout, then a late complete report:')
    db.show()
    a = db.attempt
    print(json.dumps({
        'confirmed': bool(problems), 'what': '; '.join(problems) or 'the timed-out attempt keeps start_time NULL and bills nothing',
        'final_row': [a['start_time'], a['rollup_time'], a['end_time'], a['reason']], 'tree': ROOT,
    }))


if __name__ == '__main__':
    main()
