"""Native witness search for C26 on the real TimeLimitedMaxSizeCache (module loaded from VERIF_REPO with inert stand-ins for
prometheus_client / prometheus_async, and a minimal SortedSet when sortedcontainers is not installed; time.monotonic_ns is
replaced by a controllable clock).  Each finding carries a `kind` so that a known finding can be told from a new one."""
import asyncio, importlib.util, json, os, sys, types

repo = os.environ['VERIF_REPO']


class _M:
    def __init__(self, *a, **k):
        pass

    def labels(self, **k):
        return self

    def inc(self):
        pass


sys.modules['prometheus_client'] = types.SimpleNamespace(Counter=_M, Summary=_M)
paio = types.ModuleType('prometheus_async.aio')


async def _time(metric, fut):
    return await fut


paio.time = _time
sys.modules['prometheus_async'] = types.ModuleType('prometheus_async')
sys.modules['prometheus_async.aio'] = paio
try:
    import sortedcontainers  # noqa: F401
except ImportError:
    class SortedSet:
        def __init__(self, key=None):
            self._key, self._items = key, []

        def add(self, x):
            if x not in self._items:
                self._items.append(x)

        def remove(self, x):
            self._items.remove(x)

        def __len__(self):
            return len(self._items)

        def __getitem__(self, i):
            return sorted(self._items, key=self._key)[i]

        def __contains__(self, x):
            return x in self._items

    sys.modules['sortedcontainers'] = types.SimpleNamespace(SortedSet=SortedSet)
spec = importlib.util.spec_from_file_location('tlmsc_real', os.path.join(repo, 'gear/gear/time_limited_max_size_cache.py'))
mod = importlib.util.module_from_spec(spec)
spec.loader.exec_module(mod)
Cache = mod.TimeLimitedMaxSizeCache
NOW = [0]
WALL_OFFSET = [10**18]  # the wall clock: elapsed time plus an offset that an operator / NTP may step in either direction
mod.time = types.SimpleNamespace(monotonic_ns=lambda: NOW[0], monotonic=lambda: NOW[0] / 1e9, perf_counter_ns=lambda: NOW[0], perf_counter=lambda: NOW[0] / 1e9,
                                 time_ns=lambda: NOW[0] + WALL_OFFSET[0], time=lambda: (NOW[0] + WALL_OFFSET[0]) / 1e9)


async def settle(n=6):
    for _ in range(n):
        await asyncio.sleep(0)


async def scenario_capacity():
    gates, loads = {}, []

    async def load(k):
        loads.append(k)
        await gates.setdefault(k, asyncio.Event()).wait()
        return 'v%s' % k

    for slots in (1, 2):
        for nkeys in (2, 3, 4):
            gates.clear()
            c = Cache(load, 10**9, slots, 'c')
            ts = [asyncio.ensure_future(c.lookup(i)) for i in range(nkeys)]
            await settle()
            worst = 0
            for i in range(nkeys):
                gates.setdefault(i, asyncio.Event()).set()
                await settle()
                worst = max(worst, len(c._cache))
            await asyncio.gather(*ts)
            if worst > slots or len(c._cache) > slots:
                return {'confirmed': True, 'kind': 'capacity', 'what': 'cache holds more entries than num_slots after concurrent misses on distinct keys', 'num_slots': slots, 'concurrent_keys': nkeys, 'entries_seen': worst}
    return None


async def scenario_single_flight():
    loads = []
    gate = asyncio.Event()

    async def load(k):
        loads.append(k)
        await gate.wait()
        return 'v'

    c = Cache(load, 10**9, 4, 'c')
    ts = [asyncio.ensure_future(c.lookup('k')) for _ in range(3)]
    await settle()
    gate.set()
    rs = await asyncio.gather(*ts)
    if loads != ['k'] or rs != ['v'] * 3:
        return {'confirmed': True, 'kind': 'single-flight', 'what': 'concurrent lookups of one key started %d loads' % len(loads), 'results': rs}
    # creator cancelled while the load is pending, then a later lookup of the same key
    loads.clear()
    gate.clear()
    c = Cache(load, 10**9, 4, 'c')
    t1 = asyncio.ensure_future(c.lookup('k'))
    await settle()
    t1.cancel()
    await settle()
    inflight = [t for t in asyncio.all_tasks() if t is not asyncio.current_task() and not t.done() and 'load' in repr(t.get_coro())]
    t3 = asyncio.ensure_future(c.lookup('k'))
    await settle()
    n_concurrent = len([t for t in asyncio.all_tasks() if t is not asyncio.current_task() and not t.done() and 'load' in repr(t.get_coro())])
    gate.set()
    await asyncio.gather(t1, t3, return_exceptions=True)
    if n_concurrent > 1:
        return {'confirmed': True, 'kind': 'single-flight', 'what': 'after the creator was cancelled its load keeps running unregistered and a later lookup starts a second concurrent load of the same key', 'loads_started': list(loads), 'loads_in_flight_together': n_concurrent}
    return None


async def scenario_freshness():
    async def load(k):
        return ('v', NOW[0])

    NOW[0] = 0
    c = Cache(load, 100, 4, 'c')
    await c.lookup('k')
    for t in (1, 50, 99, 100, 101, 250):
        NOW[0] = t
        v = await c.lookup('k')
        if NOW[0] - v[1] >= 100:
            return {'confirmed': True, 'kind': 'freshness', 'what': 'lookup returned a value as old as its lifetime', 'lifetime_ns': 100, 'loaded_at': v[1], 'returned_at': NOW[0]}
    return None


async def scenario_expiry_race():
    gates = {}

    async def load(k):
        await gates.setdefault(k, asyncio.Event()).wait()
        return ('v', k, NOW[0])

    NOW[0] = 0
    c = Cache(load, 100, 2, 'c')
    for k in ('a', 'b'):
        gates.setdefault(k, asyncio.Event()).set()
        await c.lookup(k)
    NOW[0] = 150  # both entries are stale now
    gates['a'] = asyncio.Event()
    ta = asyncio.ensure_future(c.lookup('a'))  # drops the stale entry, reloads (gated)
    await settle()
    gates.setdefault('c', asyncio.Event()).set()
    await c.lookup('c')
    gates.setdefault('d', asyncio.Event()).set()
    await c.lookup('d')
    gates['a'].set()
    await ta
    await settle()
    if len(c._cache) > 2:
        return {'confirmed': True, 'kind': 'capacity', 'what': 'cache holds %d entries with num_slots = 2 after a stale key was reloaded while other lookups refilled its slot' % len(c._cache)}
    return None


async def scenario_two_stale():
    async def load(k):
        return ('v', k, NOW[0])

    NOW[0] = 0
    c = Cache(load, 100, 4, 'c')
    await c.lookup('a')
    NOW[0] = 10
    await c.lookup('b')
    NOW[0] = 200
    v = await c.lookup('b')
    if NOW[0] - v[2] >= 100:
        return {'confirmed': True, 'kind': 'freshness', 'what': 'with two stale entries, lookup of the younger one returned a value older than the lifetime', 'lifetime_ns': 100, 'loaded_at': v[2], 'returned_at': NOW[0]}
    return None


async def scenario_poison():
    gate = asyncio.Event()
    n = [0]

    async def load(k):
        n[0] += 1
        if n[0] == 1:
            await gate.wait()
        return 'v%d' % n[0]

    c = Cache(load, 10**9, 4, 'c')
    creator = asyncio.ensure_future(c.lookup('k'))
    await settle()
    creator.cancel()
    await settle()
    try:
        v = await asyncio.wait_for(c.lookup('k'), 5)
    except BaseException as e:  # pylint: disable=broad-except
        return {'confirmed': True, 'kind': 'poisoned-key', 'what': 'after the task that loaded k was cancelled, a later, independent lookup(k) raises %r: the cancelled future stays registered' % e}
    return None


async def scenario_isolation():
    gate = asyncio.Event()

    async def load(k):
        await gate.wait()
        return 'v'

    c = Cache(load, 10**9, 4, 'c')
    creator = asyncio.ensure_future(c.lookup('k'))
    await settle()
    waiter = asyncio.ensure_future(c.lookup('k'))
    await settle()
    creator.cancel()
    await settle()
    gate.set()
    await settle()
    res = await asyncio.gather(waiter, return_exceptions=True)
    if isinstance(res[0], BaseException):
        return {'confirmed': True, 'kind': 'isolation', 'what': 'a lookup that was not cancelled and whose load did not fail raises %r because the task that started the shared load was cancelled' % res[0], 'history': ['A = lookup(k) starts the load', 'B = lookup(k) waits for the same future', 'A is cancelled', 'B raises CancelledError']}
    return None


try:
    PAYLOAD = json.load(sys.stdin)
except Exception:  # pylint: disable=broad-except
    PAYLOAD = {}
async def scenario_wall_clock_step():
    """an entry's age is elapsed time: stepping the wall clock backwards must not keep a value alive beyond its lifetime"""
    version = ['v1']

    async def load(k):
        return version[0]

    NOW[0] = 5 * 10**9
    c = Cache(load, 10 * 10**9, 4, 'c')
    await c.lookup('k')
    WALL_OFFSET[0] -= 3600 * 10**9  # wall clock set back one hour
    version[0] = 'v2'
    NOW[0] += 57 * 10**9  # 57 s really elapse: the entry (lifetime 10 s) is long expired
    got = await c.lookup('k')
    WALL_OFFSET[0] += 3600 * 10**9
    if got != 'v2':
        return {'confirmed': True, 'kind': 'freshness-wall-clock', 'what': 'lookup returned %r, loaded 57 s ago, although the lifetime is 10 s (the wall clock was set back one hour in between: entry age is not measured on a monotonic clock)' % (got,), 'lifetime_s': 10, 'elapsed_s': 57}
    return None


async def scenario_completion_gap():
    """a lookup that arrives after the load task has finished but before the lookup that started it has resumed: it must join
    that load (or hit the cache), never start a second load, and nobody may fail"""
    loads = []
    ev = asyncio.Event()

    async def load(k):
        loads.append(k)
        await ev.wait()
        return 'v%d' % len(loads)

    c = Cache(load, 10**12, 4, 'c')
    first = asyncio.ensure_future(c.lookup('k'))
    await settle()
    results = {}

    async def late():
        await ev.wait()  # wakes right after the load task (same event, registered later), before `first` resumes
        try:
            results['late'] = await c.lookup('k')
        except BaseException as e:  # pylint: disable=broad-except
            results['late'] = e

    lt = asyncio.ensure_future(late())
    await settle()
    ev.set()
    try:
        results['first'] = await asyncio.wait_for(first, 5)
    except BaseException as e:  # pylint: disable=broad-except
        results['first'] = e
    await asyncio.wait_for(lt, 5)
    bad = [k for k, v in results.items() if isinstance(v, BaseException)]
    if len(loads) != 1 or bad or results.get('late') != results.get('first'):
        return {'confirmed': True, 'kind': 'single-flight-completion-gap', 'what': 'a lookup arriving between the end of the load and the wake-up of the lookup that started it: key loaded %d time(s), results %r' % (len(loads), {k: repr(v) for k, v in results.items()})}
    return None


SKIP = set(PAYLOAD.get('skip_kinds', []))
ONLY = PAYLOAD.get('only')


async def main():
    scen = {'capacity': scenario_capacity, 'capacity2': scenario_expiry_race, 'single-flight': scenario_single_flight, 'freshness': scenario_freshness, 'freshness2': scenario_two_stale, 'poison': scenario_poison, 'isolation': scenario_isolation, 'freshness-wall-clock': scenario_wall_clock_step, 'single-flight-completion-gap': scenario_completion_gap}
    for kind, f in scen.items():
        if kind in SKIP or (ONLY and kind != ONLY):
            continue
        try:
            r = await asyncio.wait_for(f(), 20)
        except Exception as e:  # pylint: disable=broad-except
            import traceback
            return {'confirmed': False, 'harness_error': '%s: %r' % (f.__name__, e), 'traceback': traceback.format_exc()[-800:]}
        if r:
            return r
    return {'confirmed': False}


print(json.dumps(asyncio.run(main())))
