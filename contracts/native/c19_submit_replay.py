"""Native scenarios for C19 on the REAL hailtop.batch_client.aioclient.Batch of the tree under test (create_job_group / create_job /
submit and everything below it) against an in-memory stand-in for BatchClient._post / _patch that records every request.

Oracle, from the property: every spec-carrying request (create-fast, update-fast, job-groups/create, jobs/create) of ONE submit()
call carries at most max_bunch_size specs and at most max_bunch_bytesize spec bytes - the limits of THAT call - and the requests of
a successful call carry exactly the pending specs, job groups in order, jobs in order inside a request.
A scenario is a sequence of submit() calls on one Batch; a call may be made to fail on its first spec-carrying request (the server
rejects it) and the next call retries with other limits, optionally after one more job was added.
stdin JSON: {} ; prints {'confirmed': bool, 'what': ..., 'input': scenario, 'scenarios': n}."""
import asyncio
import contextlib
import itertools
import json
import sys
import types

from contracts.native import stubimport


def _dumps(obj, default=None, option=None):
    # orjson: compact separators, UTF-8 output, non-ASCII characters not escaped
    return json.dumps(obj, ensure_ascii=False, separators=(',', ':')).encode('utf-8')


_orjson = types.ModuleType('orjson')
_orjson.dumps = _dumps
_orjson.loads = json.loads
sys.modules['orjson'] = _orjson
stubimport.install()
from hailtop.batch_client import aioclient  # noqa: E402

json.load(sys.stdin)


class Rejected(Exception):
    pass


class Resp:
    def __init__(self, payload):
        self._payload = payload

    async def json(self):
        return self._payload


class FakeClient:
    billing_project = 'test'

    def __init__(self):
        self.reject_specs = False
        self.requests = []
        self.n_updates = 0

    async def _post(self, url, data=None, json=None, **kwargs):
        await asyncio.sleep(0)
        if data is not None:
            body = _orjson.loads(bytes(data._value))
            self.requests.append((url, body))
            if self.reject_specs:
                raise Rejected(url)
        else:
            self.requests.append((url, json))
        if url == '/api/v1alpha/batches/create-fast':
            return Resp({'id': 7, 'start_job_group_id': 1, 'start_job_id': 1})
        if url == '/api/v1alpha/batches/create':
            self.n_updates += 1
            return Resp({'id': 7, 'update_id': self.n_updates})
        if url.endswith('/update-fast'):
            return Resp({'start_job_group_id': 1, 'start_job_id': 1})
        if url.endswith('/updates/create'):
            self.n_updates += 1
            return Resp({'update_id': self.n_updates})
        return Resp({})

    async def _patch(self, url, **kwargs):
        self.requests.append((url, None))
        return Resp({'start_job_group_id': 1, 'start_job_id': 1})


class Progress:
    class Task:
        def update(self, *a, **k):
            pass

    @contextlib.contextmanager
    def with_task(self, *a, **k):
        yield Progress.Task()


def spec_requests(requests):
    out = []
    for url, body in requests:
        if url.endswith('/create-fast') or url.endswith('/update-fast'):
            out.append((url, body['job_groups'], body['bunch']))
        elif url.endswith('/job-groups/create'):
            out.append((url, body, []))
        elif url.endswith('/jobs/create'):
            out.append((url, [], body))
    return out


async def run(sc):
    client = FakeClient()
    b = aioclient.Batch(client, None, token='t')
    groups = [b.create_job_group(attributes={'name': 'g%d' % i}) for i in range(sc['n_groups'])]
    for i in range(sc['n_jobs']):
        if groups:
            groups[i % len(groups)].create_job('ubuntu:22.04', ['echo', 's%04d' % i], attributes={'name': 'j%d' % i})
        else:
            b.create_job('ubuntu:22.04', ['echo', 's%04d' % i], attributes={'name': 'j%d' % i})
    for step, call in enumerate(sc['calls']):
        if call.get('add_job_before'):
            b.create_job('ubuntu:22.04', ['echo', 'late%d' % step])
        exp_groups = [json.loads(_dumps(s)) for s in b._job_group_specs]
        exp_jobs = [json.loads(_dumps(s)) for s in b._job_specs]
        biggest = max([len(_dumps(s)) for s in b._job_group_specs + b._job_specs], default=1)
        mb = biggest + 1 + call['slack_bytes']  # every spec is below the byte limit: the documented precondition
        ms = call['max_size']
        client.requests.clear()
        client.reject_specs = call['fail']
        failed = False
        try:
            await b.submit(max_bunch_bytesize=mb, max_bunch_size=ms, progress=Progress())
        except Rejected:
            failed = True
        sent = spec_requests(client.requests)
        for url, gs, js in sent:
            n = len(gs) + len(js)
            nb = sum(len(_dumps(s)) for s in gs + js)
            if n > ms:
                return 'call %d (max_bunch_size=%d, max_bunch_bytesize=%d): request %s carries %d specs' % (step, ms, mb, url, n)
            if nb > mb:
                return 'call %d (max_bunch_size=%d, max_bunch_bytesize=%d): request %s carries %d spec bytes' % (step, ms, mb, url, nb)
        if call['fail'] != failed and (exp_groups or exp_jobs):
            return 'call %d: harness expectation broken (fail=%r, failed=%r)' % (step, call['fail'], failed)
        if not failed:
            got_g = [s for _, gs, _ in sent for s in gs]
            got_j = [s for _, _, js in sent for s in js]
            if got_g != exp_groups:
                return 'call %d: job group specs on the wire differ from the pending job group specs' % step
            if sorted(got_j, key=lambda s: s['job_id']) != exp_jobs:
                return 'call %d: job specs on the wire differ from the pending job specs' % step
            if any(js != sorted(js, key=lambda s: s['job_id']) for _, _, js in sent):
                return 'call %d: jobs out of order inside a request' % step
    return None


LIMITS = [{'slack_bytes': 1 << 20, 'max_size': 1024}, {'slack_bytes': 400, 'max_size': 4}, {'slack_bytes': 0, 'max_size': 2}, {'slack_bytes': 2000, 'max_size': 1}]
scenarios = []
for (ng, nj) in ((0, 1), (1, 3), (2, 9)):
    for l1, l2 in itertools.product(LIMITS, LIMITS):
        for fail1 in (False, True):
            for add in (False, True):
                if not fail1 and not add:
                    continue  # after a successful submit nothing is pending
                scenarios.append({'n_groups': ng, 'n_jobs': nj, 'calls': [dict(l1, fail=fail1), dict(l2, fail=False, add_job_before=add)]})
res = {'confirmed': False, 'scenarios': len(scenarios)}
for sc in scenarios:
    try:
        what = asyncio.run(run(sc))
    except AssertionError as e:
        what = 'AssertionError inside the client on an input that satisfies the documented preconditions: %s' % (str(e)[:200],)
    if what:
        res = {'confirmed': True, 'what': what, 'input': sc, 'scenarios': len(scenarios)}
        break
print(json.dumps(res))
