"""Native witness search for C30: classes PR and WatchedBranch of ci/ci/github.py are extracted by AST (the module imports
gidgethub / the batch client / prometheus, not installed offline) and driven with plain fakes.  Prints one JSON object."""
import ast, asyncio, enum, itertools, json, logging, os, sys, types

repo = os.environ['VERIF_REPO']
src = open(os.path.join(repo, 'ci/ci/github.py')).read()
tree = ast.parse(src)
keep = []
for n in tree.body:
    if isinstance(n, ast.ClassDef) and n.name in ('PR', 'WatchedBranch', 'GithubStatus'):
        keep.append(n)
    if isinstance(n, ast.Assign) and isinstance(n.targets[0], ast.Name) and n.targets[0].id in ('HIGH_PRIORITY', 'STACKED_PR', 'WIP', 'DO_NOT_TEST', 'DO_NOT_MERGE'):
        keep.append(n)
    if isinstance(n, ast.FunctionDef) and n.name in ('github_status',):
        keep.append(n)


class _G:
    def labels(self, **k):
        return self

    def inc(self):
        pass

    def dec(self):
        pass


class HTTPException(Exception):
    pass


import typing

log = logging.getLogger('c30')
log.addHandler(logging.NullHandler())
log.propagate = False
CTX = 'ci-test'
ns = dict(typing.__dict__)
ns.update(DEPLOY_STEPS=(), Code=object, enum=enum, Enum=enum.Enum, log=log, TRACKED_PRS=_G(), GITHUB_STATUS_CONTEXT=CTX, AUTHORIZED_USERS=[], asyncio=asyncio,
          gidgethub=types.SimpleNamespace(HTTPException=HTTPException), aiohttp=types.SimpleNamespace(client_exceptions=types.SimpleNamespace(ClientResponseError=type('ClientResponseError', (Exception,), {}))),
          FQBranch=types.SimpleNamespace(from_gh_json=lambda head: ('branch', head.get('ref'))), Batch=object, MergeFailureBatch=object, Database=object, BatchClient=object, UserData=dict, gh_aiohttp=types.SimpleNamespace(GitHubAPI=object))
utree = ast.parse(open(os.path.join(repo, 'ci/ci/utils.py')).read())
ukeep = [n for n in utree.body if (isinstance(n, ast.ClassDef) and n.name == 'GithubStatus') or (isinstance(n, ast.FunctionDef) and n.name == 'github_status')]
exec(compile(ast.Module(body=ukeep, type_ignores=[]), 'utils-extract', 'exec'), ns)
exec(compile(ast.Module(body=keep, type_ignores=[]), 'github-extract', 'exec'), ns)
PR, WB, GS = ns['PR'], ns['WatchedBranch'], ns['GithubStatus']


class FakeBatch:
    def __init__(self, target_sha):
        self.attributes = {'target_sha': target_sha}
        self.id = 1


def make(review='approved', statuses=None, batch_sha='T1', branch_sha='T1', labels=(), build='success'):
    wb = WB(0, types.SimpleNamespace(repo=types.SimpleNamespace(short_str=lambda: 'o/r', owner='o', name='r', url='u'), name='main', short_str=lambda: 'o/r:main'), False, True, [])
    wb.sha = branch_sha
    pr = PR(1, 't', 'b', ('branch', 'x'), 'S1', wb, 'dev', set(), set(), set(labels), [])
    pr.review_state = review
    pr.last_known_github_status = dict(statuses if statuses is not None else {CTX: GS.SUCCESS})
    pr.batch = FakeBatch(batch_sha) if batch_sha is not None else None
    pr.build_state = build
    wb.prs = {1: pr}
    return wb, pr


def check_mergeable():
    for review, sts, bsha, tsha, labels in itertools.product(('approved', 'pending', 'changes_requested', None), ({CTX: GS.SUCCESS}, {}, {CTX: GS.SUCCESS, 'other': GS.FAILURE}, {CTX: GS.SUCCESS, 'other': GS.PENDING}, {'other': GS.SUCCESS}), ('T1', 'T0', None), ('T1', None), ((), ('WIP',), ('stacked PR',), ('prio:high',))):
        wb, pr = make(review, sts, bsha, tsha, labels)
        try:
            got = pr.is_mergeable()
        except AssertionError:
            continue
        want = review == 'approved' and len(sts) > 0 and all(v == GS.SUCCESS for v in sts.values()) and bsha is not None and bsha == tsha and tsha is not None and not (set(labels) & {'WIP', 'stacked PR'})
        if got and not want:
            return {'confirmed': True, 'what': 'is_mergeable() is True for a PR that is not approved / not fully green / not tested against the current target commit / labelled do-not-merge', 'review_state': review, 'statuses': {k: v.name for k, v in sts.items()}, 'batch_target_sha': bsha, 'branch_sha': tsha, 'labels': list(labels)}
    return None


class FakeGH:
    def __init__(self, accept=True):
        self.puts, self.accept = [], accept

    async def put(self, url, data=None):
        self.puts.append((url, data))
        if not self.accept:
            raise HTTPException()


def check_try_to_merge():
    wb, pr = make()
    pr2 = PR(2, 't', 'b', ('branch', 'y'), 'S2', wb, 'dev', set(), set(), set(), [])
    pr2.review_state, pr2.last_known_github_status, pr2.batch, pr2.build_state = 'approved', {CTX: GS.SUCCESS}, FakeBatch('T1'), 'success'
    wb.prs = {1: pr, 2: pr2}
    gh = FakeGH()
    asyncio.run(wb.try_to_merge(gh))
    if len(gh.puts) != 1:
        return {'confirmed': True, 'what': 'two mergeable PRs: %d merges were requested in one pass for one target commit' % len(gh.puts), 'requests': gh.puts}
    if gh.puts[0][1].get('sha') not in ('S1', 'S2'):
        return {'confirmed': True, 'what': 'merge request does not name the tested head commit', 'request': gh.puts[0]}
    # a second pass before the new target commit has been read and tested must not merge the other PR
    still = [p.number for p in wb.prs.values() if p.is_up_to_date()]
    asyncio.run(wb.try_to_merge(gh))
    if len(gh.puts) != 1 or still:
        return {'confirmed': True, 'what': 'after a successful merge another PR is still considered up to date and is merged against the same (now stale) target commit', 'branch_sha_after_merge': wb.sha, 'prs_still_up_to_date': still, 'merge_requests': [u for u, _ in gh.puts]}
    if not (wb.github_changed and wb.state_changed):
        return {'confirmed': True, 'what': 'after a merge no refresh from GitHub is scheduled', 'github_changed': wb.github_changed, 'state_changed': wb.state_changed}
    return None


def check_new_head():
    wb, pr = make()
    wb.batch_changed = wb.state_changed = False
    pr.update_from_gh_json({'number': 1, 'title': 't', 'body': 'b', 'user': {'login': 'dev'}, 'assignees': [], 'requested_reviewers': [], 'labels': [], 'head': {'sha': 'S2', 'ref': 'x'}})
    try:
        m = pr.is_mergeable()
    except AssertionError:
        m = False
    if m or pr.batch is not None or pr.build_state is not None:
        return {'confirmed': True, 'what': 'after a new head commit the PR keeps its old batch / build state (mergeable=%s)' % m, 'batch_kept': pr.batch is not None, 'build_state': pr.build_state}
    return None


def check_labels():
    wb, pr = make(labels=('prio:high',))
    pr.update_from_gh_json({'number': 1, 'title': 't', 'body': 'b', 'user': {'login': 'dev'}, 'assignees': [], 'requested_reviewers': [], 'labels': [{'name': 'prio:high'}, {'name': 'WIP'}], 'head': {'sha': 'S1', 'ref': 'x'}})
    try:
        m = pr.is_mergeable()
    except AssertionError:
        m = False
    if m or 'WIP' not in pr.labels:
        return {'confirmed': True, 'what': 'a do-not-merge label added on GitHub is not taken over (labels=%r) and the PR stays mergeable=%s' % (sorted(pr.labels), m)}
    pr.update_from_gh_json({'number': 1, 'title': 't', 'body': 'b', 'user': {'login': 'dev'}, 'assignees': [], 'requested_reviewers': [], 'labels': [], 'head': {'sha': 'S1', 'ref': 'x'}})
    if pr.labels != set():
        return {'confirmed': True, 'what': 'labels removed on GitHub are kept: %r' % sorted(pr.labels)}
    return None


class PagingGH:
    def __init__(self, pages, decision='APPROVED'):
        self.pages, self.decision, self.queries = pages, decision, []

    async def post(self, url, data=None):
        q = data['query']
        self.queries.append(q)
        idx = 0
        for i in range(len(self.pages)):
            if 'after: "cur%d"' % i in q:
                idx = i + 1
        nodes = self.pages[idx]
        return {'data': {'repository': {'pullRequest': {'reviewDecision': self.decision, 'commits': {'nodes': [{'commit': {'statusCheckRollup': {'contexts': {'nodes': nodes, 'pageInfo': {'endCursor': 'cur%d' % idx, 'hasNextPage': idx + 1 < len(self.pages)}}}}}]}}}}}


def check_paging():
    def ctxs(names, bad=()):
        return [{'__typename': 'StatusContext', 'context': n, 'state': 'FAILURE' if n in bad else 'SUCCESS', 'isRequired': True} for n in names]

    for pages, bad in (([ctxs(['c%d' % i for i in range(10)]), ctxs(['lint', 'docs'], bad=('lint',))], 'lint'), ([ctxs(['a']), ctxs(['b']), ctxs(['c'], bad=('c',))], 'c')):
        wb, pr = make(statuses={})
        gh = PagingGH(pages)
        asyncio.run(pr._update_github(gh))
        got = pr.last_known_github_status
        want = {c['context'] for p in pages for c in p}
        if set(got) != want or got.get(bad) != GS.FAILURE:
            return {'confirmed': True, 'what': 'status checks beyond the first page(s) are lost: a failing required check is not recorded', 'pages': [[c['context'] for c in p] for p in pages], 'failing_check': bad, 'recorded': {k: v.name for k, v in got.items()}, 'graphql_requests': len(gh.queries)}
    return None


def check_start_build_resets():
    """_start_build with every external step failing at once: build_state must have been reset before anything else"""
    wb, pr = make()

    async def authorized(db):
        return True

    pr.authorized = authorized
    seen = {}

    def repo_dir():
        seen['build_state_when_building_starts'] = pr.build_state
        seen['batch_when_building_starts'] = pr.batch
        raise RuntimeError('stop here')

    pr.repo_dir = repo_dir
    ns['MergeFailureBatch'] = lambda e, attributes=None: FakeBatch(attributes['target_sha'])
    ns['concurrent'] = __import__('concurrent.futures').futures and __import__('concurrent')
    asyncio.run(pr._start_build(None, None))
    if seen.get('build_state_when_building_starts') == 'success' or seen.get('batch_when_building_starts') is not None:
        return {'confirmed': True, 'what': "_start_build starts a new test batch while build_state is still 'success' (the green status of the previous batch is carried over to the batch against the new target commit)", 'seen': {k: (v if isinstance(v, (str, type(None))) else 'batch') for k, v in seen.items()}}
    return None


class Batch30:
    def __init__(self, tsha):
        self.attributes = {'target_sha': tsha}
        self.id = 7

    async def status(self):
        return {'state': 'success', 'complete': True}

    async def cancel(self):
        pass


class BC30:
    def list_batches(self, q):
        async def it():
            if 'source_sha=' in q:
                yield Batch30('T1')

        return it()


class DB30:
    async def execute_and_fetchone(self, *a):
        return None


class GH30:
    """GitHub as the whole update loop sees it: branch head T1, one open PR (head S1), two required checks"""

    def __init__(self):
        self.puts, self.posts, self.conclusion, self.decision = [], [], 'SUCCESS', 'REVIEW_REQUIRED'

    async def getitem(self, url):
        return {'object': {'sha': 'T1'}}

    def getiter(self, url):
        async def it():
            yield {'number': 1, 'title': 't', 'body': 'b', 'user': {'login': 'dev'}, 'assignees': [], 'requested_reviewers': [], 'labels': [], 'head': {'sha': 'S1', 'ref': 'x'}}

        return it()

    async def post(self, url, data=None):
        if url != '/graphql':
            self.posts.append((url, data))
            return {}
        nodes = [{'__typename': 'StatusContext', 'context': CTX, 'state': 'SUCCESS', 'isRequired': True}, {'__typename': 'CheckRun', 'name': 'lint', 'conclusion': self.conclusion, 'isRequired': True}]
        return {'data': {'repository': {'pullRequest': {'reviewDecision': self.decision, 'commits': {'nodes': [{'commit': {'statusCheckRollup': {'contexts': {'nodes': nodes, 'pageInfo': {'endCursor': 'c', 'hasNextPage': False}}}}}]}}}}}

    async def put(self, url, data=None):
        self.puts.append((url, data))


def check_failed_refresh():
    """history: poll (all green, review pending); then the reviewer approves while the required check run `lint` is re-run and
    still in progress (GitHub: conclusion null); poll; batch callback.  The PR must not be merged while GitHub reports a
    required check of the head commit as not (yet) successful."""
    ns['deploy_config'] = types.SimpleNamespace(external_url=lambda *a: 'u')
    ns['MAX_CONCURRENT_PR_BATCHES'] = 3
    ns['Batch'] = Batch30

    class Dev:
        gh_username = 'dev'

    ns['AUTHORIZED_USERS'][:] = [Dev()]
    try:
        for conclusion in (None, 'SOMETHING_NEW'):
            wb, pr = make(review='pending', statuses={CTX: GS.SUCCESS, 'lint': GS.SUCCESS})
            pr.build_state = None
            pr.batch = Batch30('T1')

            async def noassign(gh):
                pass

            pr.assign_gh_reviewer_if_requested = noassign
            gh, bc, db = GH30(), BC30(), DB30()
            log_ = []

            async def history():
                await wb.update(db, bc, gh, False)
                log_.append('poll 1: review=%s statuses=%s' % (pr.review_state, {k: v.name for k, v in pr.last_known_github_status.items()}))
                if gh.puts:
                    return
                gh.decision, gh.conclusion = 'APPROVED', conclusion
                for step in ('poll 2', 'batch callback'):
                    try:
                        if step == 'poll 2':
                            await wb.update(db, bc, gh, False)
                        else:
                            await wb.notify_batch_changed(db, bc, gh, False)
                        log_.append('%s: review=%s statuses=%s' % (step, pr.review_state, {k: v.name for k, v in pr.last_known_github_status.items()}))
                    except ValueError as e:
                        log_.append('%s raised ValueError(%s): review=%s statuses=%s' % (step, e, pr.review_state, {k: v.name for k, v in pr.last_known_github_status.items()}))
                    if gh.puts:
                        return

            asyncio.run(history())
            if gh.puts:
                return {'confirmed': True, 'what': 'PR merged while GitHub reports the required check run `lint` of its head commit with conclusion %r (not successful): the refresh that failed on it had already recorded the approval next to the statuses of the earlier refresh' % (conclusion,), 'history': log_, 'merge_requests': gh.puts}
    finally:
        ns['AUTHORIZED_USERS'][:] = []
    return None


res = None
for f in (check_mergeable, check_try_to_merge, check_new_head, check_labels, check_paging, check_start_build_resets, check_failed_refresh):
    try:
        res = f()
    except Exception as e:  # pylint: disable=broad-except
        import traceback
        res = {'confirmed': False, 'harness_error': '%s: %r' % (f.__name__, e), 'traceback': traceback.format_exc()[-900:]}
        break
    if res:
        break
print(json.dumps(res or {'confirmed': False}))
