"""Native helper for C14 (listing scope): runs the REAL query builders of batch/front_end/query/query_v1.py with one mechanical
change - the function returns its WHERE condition list just before the statement that formats the final SQL text - over a
corpus of search terms, under line tracing.  Output: for every builder the conditions produced per term, and the source lines
`condition = ...` of the builder that the corpus did not execute (must be none: the corpus then covers every kind of term).
The conditions are parsed and judged by the checker (contracts/C14.py), not here."""
import ast
import json
import os
import sys
import types

from contracts.native import stubimport

stubimport.install()
repo = os.environ['VERIF_REPO']
pkg = types.ModuleType('batch.front_end')
pkg.__path__ = [os.path.join(repo, 'batch/batch/front_end')]
import batch  # noqa: E402,F401

sys.modules['batch.front_end'] = pkg
from batch.front_end.query import query_v1  # noqa: E402

path = os.path.join(repo, 'batch/batch/front_end/query/query_v1.py')
tree = ast.parse(open(path).read())
BUILDERS = {'parse_list_batches_query_v1': ('where_conditions', ('u', None, None)), 'parse_job_group_jobs_query_v1': ('where_conditions', (1, 0, None, None, False))}
states = sorted(query_v1.job_state_search_term_to_states)
CORPUS = {
    'parse_list_batches_query_v1': ['k=v', 'has:k', 'user:bob', 'billing_project:bp', 'open', 'closed', 'complete', 'running', 'cancelled', 'failure', 'success'],
    'parse_job_group_jobs_query_v1': ['job_id=5', 'k=v', 'has:k'] + states,
}
out = {'builders': {}, 'errors': []}
for name, (listvar, proto) in BUILDERS.items():
    fn = [n for n in tree.body if isinstance(n, ast.FunctionDef) and n.name == name]
    if not fn:
        out['errors'].append('anchor-moved: ' + name)
        continue
    fn = fn[0]
    idx = [i for i, s in enumerate(fn.body) if isinstance(s, ast.Assign) and isinstance(s.targets[0], ast.Name) and s.targets[0].id == 'sql']
    if len(idx) != 1:
        out['errors'].append('%s: no single top-level `sql = ...` statement' % name)
        continue
    new = ast.FunctionDef(name=name, args=fn.args, body=fn.body[: idx[0]] + [ast.Return(value=ast.Name(id=listvar, ctx=ast.Load()))], decorator_list=[], returns=None, type_comment=None, type_params=[])
    mod = ast.Module(body=[new], type_ignores=[])
    ast.copy_location(new, fn)
    ast.fix_missing_locations(mod)
    ns = dict(query_v1.__dict__)
    exec(compile(mod, 'query_v1-cut', 'exec'), ns)
    f = ns[name]
    cond_lines = {s.lineno: ast.unparse(s)[:80] for s in ast.walk(fn) if isinstance(s, ast.Assign) and isinstance(s.targets[0], ast.Name) and s.targets[0].id == 'condition'}
    hit = set()

    def tracer(frame, event, arg):
        if frame.f_code.co_filename == 'query_v1-cut':
            if event == 'line':
                hit.add(frame.f_lineno)
            return tracer
        return None

    rows = []
    for term in CORPUS[name]:
        for neg in ('', '!'):
            for extra in (False, True):
                args = list(proto)
                args[1 if name == 'parse_list_batches_query_v1' else 2] = neg + term
                if extra:
                    if name == 'parse_list_batches_query_v1':
                        args[2] = 77
                    else:
                        args[3], args[4] = 9, True
                sys.settrace(tracer)
                try:
                    conds = f(*args)
                except Exception as e:  # pylint: disable=broad-except
                    conds = None
                    out['errors'].append('%s(%r): %r' % (name, neg + term, e))
                finally:
                    sys.settrace(None)
                rows.append({'term': neg + term, 'extra': extra, 'conditions': conds})
    out['builders'][name] = {'rows': rows, 'uncovered_condition_sites': [cond_lines[l] for l in sorted(cond_lines) if l not in hit]}
print(json.dumps(out))
