"""C11 - fair-share allocation is max-min fair (water filling).

PoolScheduler._compute_fair_share(free_cores_mcpu), verified on its real body.  Inputs: the rows the aggregate query returns
(assumed contract of the database iterator: one row per user, non-negative integer columns).  r_u = running cores,
d_u = ready cores (demand), t_u = r_u + d_u, a_u = result[u]['allocated_cores_mcpu'].

Postconditions (from the property text), with M the final water level (`mark`) and the users partitioned by the two
sorted sets into pending P, allocating A and done D:
  * 0 <= a_u <= d_u for every user;                                   (never more than the demand, never negative)
  * u in D: a_u == d_u and t_u <= M;  u in A: r_u + a_u == M <= t_u;  u in P: a_u == 0 and r_u >= M
    - every user left short sits exactly at the common level M, or is already above it and gets nothing;
  * free <= 0 on entry: every a_u == 0;
  * totals, with the ghost sum TOTAL of everything handed out: TOTAL == free0 when the cores run out exactly between levels,
    |TOTAL - free0| <= |A|/2 when the last level is rounded, TOTAL < free0 only if every user got its whole demand.
The two sorted sets are finite sets with the assumed contract of sortedcontainers.SortedSet: s[0] is a member with the least
key; add / remove / len / truth value as for sets (the key dictionaries are not changed after loading - an obligation).
Ghost sums (SUMR = sum of r_u over A, TOTAL) are updated in lockstep with the set operations; that they ARE those sums is the
same induction over operations as for the cardinality counters of vc/pyvc.py finite maps (paper lemma), used once: the final
loop over A adds sum over A of (M - r_u) = |A|*M - SUMR.
"""
from __future__ import annotations

import ast as pyast
import os

import z3

from vc import core, pyvc
from vc.pyvc import Contract, Fork, Ghost, LoopSpec, SExc, SList, SMap, SRecord, to_z3

POOL = 'batch/batch/driver/instance_collection/pool.py'
U = pyvc.U
ROW = pyvc.rec_type(user='U', n_ready_jobs='int', ready_cores_mcpu='int', n_running_jobs='int', running_cores_mcpu='int', allocated_cores_mcpu='int')


def fair_share():
    def setup(eng, st):
        RUN, READY, ISUSER = eng.uf('RUN', ['U'], 'int'), eng.uf('READY', ['U'], 'int'), eng.uf('ISUSER', ['U'], 'bool')
        R = st.env['RECORDS']
        rs = pyvc.sort_of(ROW)
        q, u = z3.Int('ax_q'), z3.Const('ax_u', U)
        row = lambda i: z3.Select(R.arr, i)  # noqa: E731
        # the database iterator: one row per user, non-negative integers (GROUP BY user, CAST(... AS SIGNED) of sums of counters)
        st.assume(z3.ForAll([q], z3.Implies(z3.And(q >= 0, q < R.len), z3.And(ISUSER(rs.user(row(q))), RUN(rs.user(row(q))) == rs.running_cores_mcpu(row(q)), READY(rs.user(row(q))) == rs.ready_cores_mcpu(row(q)),
                                                                                 rs.running_cores_mcpu(row(q)) >= 0, rs.ready_cores_mcpu(row(q)) >= 0))))
        st.assume(z3.ForAll([u], z3.Implies(ISUSER(u), z3.Exists([q], z3.And(q >= 0, q < R.len, rs.user(row(q)) == u)))))
        for n, f in (('RUN', RUN), ('READY', READY), ('ISUSER', ISUSER)):
            st.env[n] = pyvc.SFunc(n, (lambda f: lambda e, s, args, kw, node: f(to_z3(args[0], 'U')))(f))
        st.env['self'] = SRecord('PoolScheduler', {})
        rs2 = pyvc.sort_of(ROW)

        def alloc_view(e, s_, args, kw, node):
            m = args[0]
            k = z3.Const(pyvc.fresh_name('av_k'), U)
            return z3.Lambda([k], rs2.allocated_cores_mcpu(z3.Select(m.val, k)))

        st.env['alloc_view'] = pyvc.SFunc('alloc_view', alloc_view)

    def sorted_set(eng, st, args, kw, node):
        return SMap(z3.K(U, z3.BoolVal(False)), z3.K(U, z3.BoolVal(True)), z3.IntVal(0), 'U', 'bool')

    def fetchall(eng, st, args, kw, node):
        return st.env['RECORDS']

    def least(keymap):
        def model(eng, st, args, kw, node):
            s, idx = args
            if not (isinstance(idx, int) and idx == 0):
                raise core.Undecided('SortedSet indexed by other than 0')
            eng.oblige(st, 'safety/first-of-a-non-empty-sorted-set@L%d' % node.lineno, s.size > 0, kind='safety')
            km = st.env[keymap]
            u, v = z3.Const(pyvc.fresh_name('least_user'), U), z3.Const(pyvc.fresh_name('any_user'), U)
            # assumed contract of SortedSet.__getitem__(0): a member whose key is least
            st.assume(z3.Select(s.has, u))
            st.assume(z3.ForAll([v], z3.Implies(z3.Select(s.has, v), z3.Select(km.val, u) <= z3.Select(km.val, v))))
            return u
        return model

    def set_add(sumname):
        def model(eng, st, args, kw, node):
            return None
        return model

    # ghost bookkeeping attached to the real statements (anchors are statement texts of the real source)
    ghosts = [
        Ghost('allocating_users_by_total_cores.add(lowest_running_user)', 'SUMR = SUMR + user_running_cores_mcpu[lowest_running_user]'),
        Ghost('allocating_users_by_total_cores.remove(lowest_total_user)', 'SUMR = SUMR - user_running_cores_mcpu[lowest_total_user]'),
        Ghost('allocate_cores(lowest_total_user, mark)', 'TOTAL = TOTAL + result[lowest_total_user]["allocated_cores_mcpu"]'),
        Ghost('allocate_cores(user, mark)', 'TOTAL = TOTAL + result[user]["allocated_cores_mcpu"]\nPSR = PSR + user_running_cores_mcpu[user]'),
        Ghost('break', 'ROUNDED = True', where='before'),
    ]
    A, P = 'allocating_users_by_total_cores', 'pending_users_by_running_cores'
    al = lambda u: 'result[%s]["allocated_cores_mcpu"]' % u  # noqa: E731
    part = [
        ('sets-partition-the-users', 'forall("U", lambda u: implies(u in %s or u in %s, ISUSER(u)) and not (u in %s and u in %s))' % (P, A, P, A)),
        ('tables-hold-the-rows', 'forall("U", lambda u: implies(ISUSER(u), u in result and u in user_running_cores_mcpu and u in user_total_cores_mcpu and user_running_cores_mcpu[u] == RUN(u) and user_total_cores_mcpu[u] == RUN(u) + READY(u)))'),
        ('pending-users-are-at-or-above-the-level-with-nothing', 'forall("U", lambda u: implies(u in %s, RUN(u) >= mark and %s == 0))' % (P, al('u'))),
        ('allocating-users-span-the-level-with-nothing-yet', 'forall("U", lambda u: implies(u in %s, RUN(u) <= mark and mark <= RUN(u) + READY(u) and %s == 0))' % (A, al('u'))),
        ('done-users-have-their-whole-demand-below-the-level', 'forall("U", lambda u: implies(ISUSER(u) and not (u in %s) and not (u in %s), RUN(u) + READY(u) <= mark and %s == READY(u)))' % (P, A, al('u'))),
    ]
    loop0 = LoopSpec(index='k', invariants=[
        ('users-loaded-so-far-are-pending-with-nothing', 'forall("U", lambda u: (u in %s) == exists(lambda q: 0 <= q < k and RECORDS[q].user == u))' % P),
        ('allocating-set-empty', 'len(%s) == 0 and forall("U", lambda u: not (u in %s))' % (A, A)),
        ('tables-hold-the-rows-so-far', 'forall("U", lambda u: implies(u in %s, u in result and u in user_running_cores_mcpu and u in user_total_cores_mcpu and user_running_cores_mcpu[u] == RUN(u) and user_total_cores_mcpu[u] == RUN(u) + READY(u) and %s == 0))' % (P, al('u'))),
        ('only-loaded-users-in-the-tables', 'forall("U", lambda u: implies(u in result or u in user_running_cores_mcpu or u in user_total_cores_mcpu, u in %s))' % P),
    ], modifies=['record'])
    loop1 = LoopSpec(invariants=part + [
        ('level-and-budget-non-negative', 'mark >= 0 and len(%s) >= 0 and len(%s) >= 0 and implies(FREE0 > 0, free_cores_mcpu >= 0)' % (A, P)),
        ('without-free-cores-nothing-moves', 'implies(FREE0 <= 0, free_cores_mcpu == FREE0 and mark == 0 and SUMR == 0 and TOTAL == 0 and len(%s) == 0 and forall("U", lambda u: implies(ISUSER(u), u in %s)))' % (A, P)),
        ('nothing-rounded-yet', 'not ROUNDED'),
        ('budget-conserved', 'free_cores_mcpu + len(%s) * mark - SUMR + TOTAL == FREE0' % A),
    ], modifies=['SUMR', 'TOTAL', 'ROUNDED', 'result'])
    ENUM = 'ENUM_allocating_users_by_total_cores'
    loop2 = LoopSpec(index='m', invariants=[
        ('users-handled-so-far-sit-at-the-level', 'forall(lambda q: implies(0 <= q < m, RUN(%s[q]) + %s == mark))' % (ENUM, al('%s[q]' % ENUM))),
        ('others-untouched', 'forall("U", lambda u: implies(not exists(lambda q: 0 <= q < m and %s[q] == u), %s == OLD_ALLOC[u]))' % (ENUM, al('u'))),
        ('running-total', 'TOTAL == TOTAL_BEFORE + m * mark - PSR'),
        ('tables-unchanged', 'forall("U", lambda u: implies(ISUSER(u), u in result and user_running_cores_mcpu[u] == RUN(u)))'),
    ], modifies=['TOTAL', 'PSR', 'result'])
    return Contract(
        path=POOL, qualname='PoolScheduler._compute_fair_share', float_as_real=True,
        types={'free_cores_mcpu': 'int', 'user_running_cores_mcpu': 'Map[U, int]', 'user_total_cores_mcpu': 'Map[U, int]', 'result': ('map', 'U', ROW), 'record': ROW, 'mark': 'int',
               'lowest_running': 'int', 'lowest_total': 'int'},
        extra_inputs={'RECORDS': ('list', ROW)}, setup=setup,
        calls={'sortedcontainers.SortedSet': sorted_set, 'self.db.execute_and_fetchall': fetchall, 'subscript:%s' % P: least('user_running_cores_mcpu'), 'subscript:%s' % A: least('user_total_cores_mcpu'),
               'sorted': lambda eng, st, args, kw, node: args[0], '.items': lambda eng, st, args, kw, node: args[0], 'dict': lambda eng, st, args, kw, node: args[0]},
        ghosts=ghosts + [
            Ghost('re:^for user in allocating_users_by_total_cores', 'TOTAL_BEFORE = TOTAL\nPSR = 0\nOLD_ALLOC = alloc_view(result)\nghost_assume(implies(len(allocating_users_by_total_cores) == 0, SUMR == 0), "SUMR is the sum of r_u over the allocating set (updated with every add / remove): an empty set sums to zero")', where='before'),
            Ghost('re:^for user in allocating_users_by_total_cores', 'ghost_assume(PSR == SUMR, "SUMR is updated by +r_u / -r_u with every add / remove of the allocating set, so it is the sum of r_u over that set, and PSR is that sum taken along the enumeration the final loop iterates")', where='after'),
        ],
        ghost_init={'FREE0': 'free_cores_mcpu', 'SUMR': '0', 'TOTAL': '0', 'ROUNDED': 'False', 'TOTAL_BEFORE': '0', 'PSR': '0'},
        loops={0: loop0, 1: loop1, 2: loop2},  # by loop ordinal: the loading loop, the water-filling loop, the final hand-out loop
        ensures=[
            ('never-negative-never-more-than-the-demand', 'forall("U", lambda u: implies(ISUSER(u), 0 <= %s and %s <= READY(u)))' % (al('u'), al('u'))),
            ('a-user-left-short-sits-at-the-common-level-or-is-above-it-with-nothing', 'forall("U", lambda u: implies(ISUSER(u) and %s < READY(u), RUN(u) + %s == mark or (%s == 0 and RUN(u) >= mark)))' % (al('u'), al('u'), al('u'))),
            ('a-user-with-its-whole-demand-is-at-or-below-the-level', 'forall("U", lambda u: implies(ISUSER(u) and %s == READY(u) and READY(u) > 0, RUN(u) + READY(u) <= mark))' % al('u')),
            ('nothing-without-free-cores', 'implies(FREE0 <= 0, forall("U", lambda u: implies(ISUSER(u), %s == 0)))' % al('u')),
            ('total-never-exceeds-the-free-cores-by-more-than-rounding', 'implies(FREE0 > 0, 2 * (TOTAL - FREE0) <= len(%s)) and implies(FREE0 <= 0, TOTAL == 0)' % A),
            ('all-free-cores-handed-out-when-demand-allows', 'implies(FREE0 > 0 and exists("U", lambda u: ISUSER(u) and %s < READY(u)), 2 * (FREE0 - TOTAL) <= len(%s))' % (al('u'), A)),
            ('exact-when-nothing-was-rounded', 'implies(FREE0 > 0 and not ROUNDED and exists("U", lambda u: ISUSER(u) and %s < READY(u)), TOTAL == FREE0)' % al('u')),
        ],
        raises={}, canaries=[('everyone-always-satisfied', 'forall("U", lambda u: implies(ISUSER(u), %s == READY(u)))' % al('u')), ('nobody-ever-gets-anything', 'TOTAL == 0')],
    )


def native_witness(ctx):
    script = open(os.path.join(os.path.dirname(__file__), 'native', 'c11_replay.py')).read()
    return core.run_native(script, {'size': 'small'}, timeout=600)


def build(ctx):
    c = fair_share()
    eng = pyvc.Engine(ctx, c)
    eng.run()
    ctx.add(core.decided('C11/fair-share/no-call-outside-the-contract', not eng.unmodelled, repr(eng.unmodelled), kind='frame'))
    script = open(os.path.join(os.path.dirname(__file__), 'native', 'c11_replay.py')).read()
    ctx.witness_search = lambda: core.run_native(script, {'size': 'small'}, timeout=600)
    ctx.assume('database iterator: one row per user, running_cores_mcpu and ready_cores_mcpu non-negative integers (GROUP BY user; CAST(COALESCE(SUM(..), 0) AS SIGNED) of counters that C01 shows to be counts)')
    ctx.assume('sortedcontainers.SortedSet: s[0] is a member whose key is least; add / remove / len / bool / iteration as for a finite set (cardinality kept by the executor); the key dictionaries are not written after the loading loop (they are only subscripted afterwards - checked by the executor: no store reaches them)')
    ctx.assume('float arithmetic treated as real arithmetic: int(mark - r + 0.5) on integers and int(free / n + 0.5) (exact below 2**52; the quotient is within half an ulp, far from the next half-integer for pools of fewer than 2**20 users)')
    ctx.assume('the final re-ordering dict(sorted(result.items(), ...)) keeps keys and values (order of the returned dict is not part of the property)')
    ctx.undecided('that the scheduler loop honours the allocation (schedule_loop_body) and that the free-core figure passed in is accurate (C10)')


def thorough(ctx):
    script = open(os.path.join(os.path.dirname(__file__), 'native', 'c11_replay.py')).read()
    r = core.run_native(script, {'size': 'large'}, timeout=1800)
    if 'error' in r:
        raise core.CheckerBug('native scenario host failed: %r' % (r,))
    ctx.bounded_standin('native-water-filling-grid', 'real _compute_fair_share vs exact rational water filling: all multisets of <= 3 users with running, ready in {0,1,2,3,5,8} and 12 free-core values incl. 0 and negative', r.get('cases', 0), not r.get('confirmed'), detail=repr(r) if r.get('confirmed') else '')
