"""C11 - fair-share allocation is max-min fair (water filling).

PoolScheduler._compute_fair_share(free_cores_mcpu), verified on its real body.  Inputs: the rows the aggregate query returns
(assumed contract of the database iterator: one row per user, non-negative integer columns).  r_u = running cores,
d_u = ready cores (demand), t_u = r_u + d_u, a_u = result[u]['allocated_cores_mcpu'].

Postconditions (from the property text), with M the final water level (`mark`) and the users partitioned by the two
sorted sets into pending P, allocating A and done D:
  * 0 <= a_u <= d_u for every user;                                   (never more than the demand, never negative)
  * u in D: a_u == d_u and t_u <= M;  u in A: r_u + a_u == M <= t_u;  u in P: a_u == 0 and r_u >= M
    - every user left short sits exactly at the common level M, or is already above it and gets nothing;
  * free <= 0 on entry: every a_u == 0;
  * totals, with the ghost sum TOTAL of everything handed out: TOTAL == free0 when the cores run out exactly between levels,
    |TOTAL - free0| <= |A|/2 when the last level is rounded, TOTAL < free0 only if every user got its whole demand.
The two sorted sets are finite sets with the assumed contract of sortedcontainers.SortedSet: s[0] is a member with the least
key; add / remove / len / truth value as for sets (the key dictionaries are not changed after loading - an obligation).
Ghost sums (SUMR = sum of r_u over A, TOTAL) are updated in lockstep with the set operations; that they ARE those sums is the
same induction over operations as for the cardinality counters of vc/pyvc.py finite maps (paper lemma), used once: the final
loop over A adds sum over A of (M - r_u) = |A|*M - SUMR.
"""
from __future__ import annotations

import ast as pyast
import os

import z3

from vc import core, pyvc
from vc.pyvc import Contract, Fork, Ghost, LoopSpec, SExc, SList, SMap, SRecord, to_z3

POOL = 'batch/batch/driver/instance_collection/pool.py'
U = pyvc.U
ROW = pyvc.rec_type(user='U', n_ready_jobs='int', ready_cores_mcpu='int', n_running_jobs='int', running_cores_mcpu='int', allocated_cores_mcpu='int')


def fair_share(keys=None):
    """keys: {sorted-set local: its real key lambda} (sorted_set_keys); the s[0] model orders by the REAL key function"""
    keys = keys or {}

    def setup(eng, st):
        RUN, READY, ISUSER = eng.uf('RUN', ['U'], 'int'), eng.uf('READY', ['U'], 'int'), eng.uf('ISUSER', ['U'], 'bool')
        R = st.env['RECORDS']
        rs = pyvc.sort_of(ROW)
        q, u = z3.Int('ax_q'), z3.Const('ax_u', U)
        row = lambda i: z3.Select(R.arr, i)  # noqa: E731
        # the database iterator: one row per user, non-negative integers (GROUP BY user, CAST(... AS SIGNED) of sums of counters)
        st.assume(z3.ForAll([q], z3.Implies(z3.And(q >= 0, q < R.len), z3.And(ISUSER(rs.user(row(q))), RUN(rs.user(row(q))) == rs.running_cores_mcpu(row(q)), READY(rs.user(row(q))) == rs.ready_cores_mcpu(row(q)),
                                                                                 rs.running_cores_mcpu(row(q)) >= 0, rs.ready_cores_mcpu(row(q)) >= 0))))
        st.assume(z3.ForAll([u], z3.Implies(ISUSER(u), z3.Exists([q], z3.And(q >= 0, q < R.len, rs.user(row(q)) == u)))))
        for n, f in (('RUN', RUN), ('READY', READY), ('ISUSER', ISUSER)):
            st.env[n] = pyvc.SFunc(n, (lambda f: lambda e, s, args, kw, node: f(to_z3(args[0], 'U')))(f))
        st.env['self'] = SRecord('PoolScheduler', {})
        rs2 = pyvc.sort_of(ROW)

        def alloc_view(e, s_, args, kw, node):
            m = args[0]
            k = z3.Const(pyvc.fresh_name('av_k'), U)
            return z3.Lambda([k], rs2.allocated_cores_mcpu(z3.Select(m.val, k)))

        st.env['alloc_view'] = pyvc.SFunc('alloc_view', alloc_view)

    def sorted_set(eng, st, args, kw, node):
        if args or set(kw) != {'key'}:
            raise core.Undecided('SortedSet built from an iterable / without a key function')
        return SMap(z3.K(U, z3.BoolVal(False)), z3.K(U, z3.BoolVal(True)), z3.IntVal(0), 'U', 'bool')

    def fetchall(eng, st, args, kw, node):
        return st.env['RECORDS']

    def least(setname, keymap):
        def model(eng, st, args, kw, node):
            s, idx = args
            if not (isinstance(idx, int) and idx == 0):
                raise core.Undecided('SortedSet indexed by other than 0')
            eng.oblige(st, 'safety/first-of-a-non-empty-sorted-set@L%d' % node.lineno, s.size > 0, kind='safety')
            u, v = z3.Const(pyvc.fresh_name('least_user'), U), z3.Const(pyvc.fresh_name('any_user'), U)

            def lookup(name):
                m = st.env.get(name)
                if not isinstance(m, SMap):
                    raise core.Undecided('sorted-set key reads %s, which is not a dictionary of the call' % name)
                return m.val

            # the key function is the lambda the real code passes (closures bind late: the current dictionaries); only when the
            # constructor is not of the understood form (obligation sorted-sets/each-set-is-built-...) the documented dictionary
            if setname in keys:
                ku, kv = key_term(keys[setname], u, lookup), key_term(keys[setname], v, lookup)
            else:
                ku, kv = z3.Select(st.env[keymap].val, u), z3.Select(st.env[keymap].val, v)
            # assumed contract of SortedSet.__getitem__(0): a member whose key is least
            st.assume(z3.Select(s.has, u))
            st.assume(z3.ForAll([v], z3.Implies(z3.Select(s.has, v), ku <= kv)))
            return u
        return model

    def set_add(sumname):
        def model(eng, st, args, kw, node):
            return None
        return model

    # ghost bookkeeping attached to the real statements (anchors are statement texts of the real source)
    ghosts = [
        Ghost('allocating_users_by_total_cores.add(lowest_running_user)', 'SUMR = SUMR + user_running_cores_mcpu[lowest_running_user]'),
        Ghost('allocating_users_by_total_cores.remove(lowest_total_user)', 'SUMR = SUMR - user_running_cores_mcpu[lowest_total_user]'),
        Ghost('allocate_cores(lowest_total_user, mark)', 'TOTAL = TOTAL + result[lowest_total_user]["allocated_cores_mcpu"]'),
        Ghost('allocate_cores(user, mark)', 'TOTAL = TOTAL + result[user]["allocated_cores_mcpu"]\nPSR = PSR + user_running_cores_mcpu[user]'),
        Ghost('break', 'ROUNDED = True', where='before'),
    ]
    A, P = 'allocating_users_by_total_cores', 'pending_users_by_running_cores'
    al = lambda u: 'result[%s]["allocated_cores_mcpu"]' % u  # noqa: E731
    part = [
        ('sets-partition-the-users', 'forall("U", lambda u: implies(u in %s or u in %s, ISUSER(u)) and not (u in %s and u in %s))' % (P, A, P, A)),
        ('tables-hold-the-rows', 'forall("U", lambda u: implies(ISUSER(u), u in result and u in user_running_cores_mcpu and u in user_total_cores_mcpu and user_running_cores_mcpu[u] == RUN(u) and user_total_cores_mcpu[u] == RUN(u) + READY(u)))'),
        ('pending-users-are-at-or-above-the-level-with-nothing', 'forall("U", lambda u: implies(u in %s, RUN(u) >= mark and %s == 0))' % (P, al('u'))),
        ('allocating-users-span-the-level-with-nothing-yet', 'forall("U", lambda u: implies(u in %s, RUN(u) <= mark and mark <= RUN(u) + READY(u) and %s == 0))' % (A, al('u'))),
        ('done-users-have-their-whole-demand-below-the-level', 'forall("U", lambda u: implies(ISUSER(u) and not (u in %s) and not (u in %s), RUN(u) + READY(u) <= mark and %s == READY(u)))' % (P, A, al('u'))),
    ]
    loop0 = LoopSpec(index='k', invariants=[
        ('users-loaded-so-far-are-pending-with-nothing', 'forall("U", lambda u: (u in %s) == exists(lambda q: 0 <= q < k and RECORDS[q].user == u))' % P),
        ('allocating-set-empty', 'len(%s) == 0 and forall("U", lambda u: not (u in %s))' % (A, A)),
        ('tables-hold-the-rows-so-far', 'forall("U", lambda u: implies(u in %s, u in result and u in user_running_cores_mcpu and u in user_total_cores_mcpu and user_running_cores_mcpu[u] == RUN(u) and user_total_cores_mcpu[u] == RUN(u) + READY(u) and %s == 0))' % (P, al('u'))),
        ('only-loaded-users-in-the-tables', 'forall("U", lambda u: implies(u in result or u in user_running_cores_mcpu or u in user_total_cores_mcpu, u in %s))' % P),
    ], modifies=['record'])
    loop1 = LoopSpec(invariants=part + [
        ('level-and-budget-non-negative', 'mark >= 0 and len(%s) >= 0 and len(%s) >= 0 and implies(FREE0 > 0, free_cores_mcpu >= 0)' % (A, P)),
        ('without-free-cores-nothing-moves', 'implies(FREE0 <= 0, free_cores_mcpu == FREE0 and mark == 0 and SUMR == 0 and TOTAL == 0 and len(%s) == 0 and forall("U", lambda u: implies(ISUSER(u), u in %s)))' % (A, P)),
        ('nothing-rounded-yet', 'not ROUNDED'),
        ('budget-conserved', 'free_cores_mcpu + len(%s) * mark - SUMR + TOTAL == FREE0' % A),
    ], modifies=['SUMR', 'TOTAL', 'ROUNDED', 'result'])
    ENUM = 'ENUM_allocating_users_by_total_cores'
    loop2 = LoopSpec(index='m', invariants=[
        ('users-handled-so-far-sit-at-the-level', 'forall(lambda q: implies(0 <= q < m, RUN(%s[q]) + %s == mark))' % (ENUM, al('%s[q]' % ENUM))),
        ('others-untouched', 'forall("U", lambda u: implies(not exists(lambda q: 0 <= q < m and %s[q] == u), %s == OLD_ALLOC[u]))' % (ENUM, al('u'))),
        ('running-total', 'TOTAL == TOTAL_BEFORE + m * mark - PSR'),
        ('tables-unchanged', 'forall("U", lambda u: implies(ISUSER(u), u in result and user_running_cores_mcpu[u] == RUN(u)))'),
    ], modifies=['TOTAL', 'PSR', 'result'])
    return Contract(
        path=POOL, qualname='PoolScheduler._compute_fair_share', float_as_real=True,
        types={'free_cores_mcpu': 'int', 'user_running_cores_mcpu': 'Map[U, int]', 'user_total_cores_mcpu': 'Map[U, int]', 'result': ('map', 'U', ROW), 'record': ROW, 'mark': 'int',
               'lowest_running': 'int', 'lowest_total': 'int'},
        extra_inputs={'RECORDS': ('list', ROW)}, setup=setup,
        calls={'sortedcontainers.SortedSet': sorted_set, 'self.db.execute_and_fetchall': fetchall, 'subscript:%s' % P: least(P, 'user_running_cores_mcpu'), 'subscript:%s' % A: least(A, 'user_total_cores_mcpu'),
               'sorted': lambda eng, st, args, kw, node: args[0], '.items': lambda eng, st, args, kw, node: args[0], 'dict': lambda eng, st, args, kw, node: args[0]},
        ghosts=ghosts + [
            Ghost('re:^for user in allocating_users_by_total_cores', 'TOTAL_BEFORE = TOTAL\nPSR = 0\nOLD_ALLOC = alloc_view(result)\nghost_assume(implies(len(allocating_users_by_total_cores) == 0, SUMR == 0), "SUMR is the sum of r_u over the allocating set (updated with every add / remove): an empty set sums to zero")', where='before'),
            Ghost('re:^for user in allocating_users_by_total_cores', 'ghost_assume(PSR == SUMR, "SUMR is updated by +r_u / -r_u with every add / remove of the allocating set, so it is the sum of r_u over that set, and PSR is that sum taken along the enumeration the final loop iterates")', where='after'),
        ],
        ghost_init={'FREE0': 'free_cores_mcpu', 'SUMR': '0', 'TOTAL': '0', 'ROUNDED': 'False', 'TOTAL_BEFORE': '0', 'PSR': '0'},
        loops={0: loop0, 1: loop1, 2: loop2},  # by loop ordinal: the loading loop, the water-filling loop, the final hand-out loop
        ensures=[
            ('never-negative-never-more-than-the-demand', 'forall("U", lambda u: implies(ISUSER(u), 0 <= %s and %s <= READY(u)))' % (al('u'), al('u'))),
            ('a-user-left-short-sits-at-the-common-level-or-is-above-it-with-nothing', 'forall("U", lambda u: implies(ISUSER(u) and %s < READY(u), RUN(u) + %s == mark or (%s == 0 and RUN(u) >= mark)))' % (al('u'), al('u'), al('u'))),
            ('a-user-with-its-whole-demand-is-at-or-below-the-level', 'forall("U", lambda u: implies(ISUSER(u) and %s == READY(u) and READY(u) > 0, RUN(u) + READY(u) <= mark))' % al('u')),
            ('nothing-without-free-cores', 'implies(FREE0 <= 0, forall("U", lambda u: implies(ISUSER(u), %s == 0)))' % al('u')),
            ('total-never-exceeds-the-free-cores-by-more-than-rounding', 'implies(FREE0 > 0, 2 * (TOTAL - FREE0) <= len(%s)) and implies(FREE0 <= 0, TOTAL == 0)' % A),
            ('all-free-cores-handed-out-when-demand-allows', 'implies(FREE0 > 0 and exists("U", lambda u: ISUSER(u) and %s < READY(u)), 2 * (FREE0 - TOTAL) <= len(%s))' % (al('u'), A)),
            ('exact-when-nothing-was-rounded', 'implies(FREE0 > 0 and not ROUNDED and exists("U", lambda u: ISUSER(u) and %s < READY(u)), TOTAL == FREE0)' % al('u')),
        ],
        raises={}, canaries=[('everyone-always-satisfied', 'forall("U", lambda u: implies(ISUSER(u), %s == READY(u)))' % al('u')), ('nobody-ever-gets-anything', 'TOTAL == 0')],
    )


# ------------------------------------------------------------------------------------------------------------------
# (wave 4) what the contract above ASSUMED about its surroundings, now stated as obligations on the real text:
#   * the embedded query (vc/sqlparse.py): one row per user, every column the code reads is the integer SUM over ALL rows
#     of that user in this pool, users are left out only on their aggregated sums and only when they have no ready demand;
#   * the key functions of the two SortedSets (the real lambdas) order the sets the way the loop invariants need
#     (pending: by running cores, allocating: by total cores = running + ready), and the s[0] model uses the REAL lambda;
#   * every container the computation writes is created by the call itself (nothing shared between the overlapping calls of the
#     scheduling loop and the autoscaler: the coroutine suspends at the `async for`).

TABLE = 'user_inst_coll_resources'
MUTATORS = {'add', 'remove', 'discard', 'clear', 'update', 'append', 'extend', 'pop', 'popitem', 'insert', 'setdefault', 'sort', 'reverse', 'appendleft', 'popleft', 'difference_update', 'intersection_update',
            'symmetric_difference_update', '__setitem__', '__delitem__'}
FRESH_CTORS = {'dict', 'list', 'set', 'sorted', 'defaultdict', 'collections.defaultdict', 'sortedcontainers.SortedSet', 'SortedSet', 'sortedcontainers.SortedList', 'sortedcontainers.SortedDict', 'frozenset', 'tuple'}


_NATIVE = {}


def _native(name):
    """result of contracts/native/<name> on the tree under test (run once per check)"""
    if name not in _NATIVE:
        _NATIVE[name] = core.run_native(open(os.path.join(os.path.dirname(__file__), 'native', name)).read(), {}, timeout=300)
    return _NATIVE[name]


def _add(ctx, o, script):
    """add an obligation of the surroundings; when it fails, the native scenario host looks for a failing input on the real code
    (a replayed input only ever strengthens the report: the verdict is the obligation's)"""
    if o.backend == 'syntactic':
        if o.status == 'failed':
            r = _native(script)
            if isinstance(r, dict) and r.get('confirmed'):
                o.info['__replay__'] = r
                o.detail = '%s | replayed on the real code: %s; input %s' % (o.detail, r.get('what'), r.get('input'))
        ctx.add(o)
    else:
        ctx.add(o, replay=lambda model, obl: _native(script))


def fn_ast():
    tree = pyast.parse(core.read_repo(POOL))
    for n in tree.body:
        if isinstance(n, pyast.ClassDef) and n.name == 'PoolScheduler':
            for m in n.body:
                if isinstance(m, (pyast.AsyncFunctionDef, pyast.FunctionDef)) and m.name == '_compute_fair_share':
                    return m
    raise core.Undecided('PoolScheduler._compute_fair_share not found in %s' % POOL)


# ---- sorted-set keys -------------------------------------------------------------------------------------------------

def sorted_set_keys(fn):
    """{local name: the lambda node passed as key=} for every `x = ...SortedSet(key=lambda ...)` of the function"""
    out, bad = {}, []
    for n in pyast.walk(fn):
        if isinstance(n, (pyast.Assign, pyast.AnnAssign)) and isinstance(n.value, pyast.Call) and pyast.unparse(n.value.func).endswith('SortedSet'):
            tg = n.targets if isinstance(n, pyast.Assign) else [n.target]
            kws = {k.arg: k.value for k in n.value.keywords}
            if len(tg) != 1 or not isinstance(tg[0], pyast.Name) or n.value.args or set(kws) != {'key'} or not isinstance(kws['key'], pyast.Lambda) or tg[0].id in out:
                bad.append('L%d: %s' % (n.lineno, pyast.unparse(n)[:120]))
                continue
            out[tg[0].id] = kws['key']
    return out, bad


def key_term(lam, u, lookup):
    """the value of the key lambda at user `u` as an integer term; `lookup(dict name)` gives the integer array of a dictionary
    (closures bind late: the CURRENT dictionaries).  Anything but integer arithmetic over <dict>[<param>] stays undecided."""
    a = lam.args
    if len(a.args) != 1 or a.posonlyargs or a.kwonlyargs or a.vararg or a.kwarg or a.defaults:
        raise core.Undecided('sorted-set key is not a one-argument lambda: %s' % pyast.unparse(lam))
    par = a.args[0].arg

    def tr(e):
        if isinstance(e, pyast.Constant) and isinstance(e.value, int) and not isinstance(e.value, bool):
            return z3.IntVal(e.value)
        if isinstance(e, pyast.Subscript) and isinstance(e.value, pyast.Name) and isinstance(e.slice, pyast.Name) and e.slice.id == par and e.value.id != par:
            return z3.Select(lookup(e.value.id), u)
        if isinstance(e, pyast.BinOp) and isinstance(e.op, (pyast.Add, pyast.Sub, pyast.Mult)):
            l, r = tr(e.left), tr(e.right)
            return l + r if isinstance(e.op, pyast.Add) else l - r if isinstance(e.op, pyast.Sub) else l * r
        if isinstance(e, pyast.UnaryOp) and isinstance(e.op, (pyast.USub, pyast.UAdd)):
            return -tr(e.operand) if isinstance(e.op, pyast.USub) else tr(e.operand)
        raise core.Undecided('sorted-set key outside integer arithmetic over the per-user dictionaries: %s' % pyast.unparse(lam))

    return tr(lam.body)


def sorted_set_obligations(ctx, fn):
    keys, bad = sorted_set_keys(fn)
    want = {'pending_users_by_running_cores': ('running-cores', lambda R, T, x: z3.Select(R, x)), 'allocating_users_by_total_cores': ('total-cores', lambda R, T, x: z3.Select(T, x))}
    ctx.add(core.decided('C11/sorted-sets/each-set-is-built-empty-once-with-a-key-function', not bad and set(keys) == set(want), 'found %s; not understood: %s' % (sorted(keys), bad), kind='scan'))
    R, T = z3.Array('c11_running', U, z3.IntSort()), z3.Array('c11_total', U, z3.IntSort())
    u, v = z3.Const('c11_u', U), z3.Const('c11_v', U)

    def lookup(name):
        if name == 'user_running_cores_mcpu':
            return R
        if name == 'user_total_cores_mcpu':
            return T
        raise core.Undecided('sorted-set key reads %s, which is not one of the two per-user dictionaries' % name)

    for name, (what, spec) in want.items():
        if name not in keys:
            continue
        ku, kv = key_term(keys[name], u, lookup), key_term(keys[name], v, lookup)
        # for ALL contents of the two dictionaries and all users u, v: whatever the key function puts first is first in the
        # order the invariants speak about (running cores r_u for the pending set, total cores t_u for the allocating set)
        ctx.add(core.valid('C11/sorted-sets/%s-is-ordered-by-%s' % (name, what), [], z3.Implies(ku <= kv, spec(R, T, u) <= spec(R, T, v)), kind='vc', source=pyast.unparse(keys[name])))
    if 'allocating_users_by_total_cores' in keys:
        ku, kv = key_term(keys['allocating_users_by_total_cores'], u, lookup), key_term(keys['allocating_users_by_total_cores'], v, lookup)
        ctx.add(core.satisfiable('C11/sorted-sets/canary/allocating-set-ordered-by-running-cores', [ku <= kv, z3.Not(z3.Select(R, u) <= z3.Select(R, v))], kind='canary'))
    return keys


# ---- working state ---------------------------------------------------------------------------------------------------

def _root(e):
    """(root name, went through an attribute?) of a subscript / attribute chain"""
    attr = False
    while True:
        if isinstance(e, pyast.Subscript):
            e = e.value
        elif isinstance(e, pyast.Attribute):
            e, attr = e.value, True
        elif isinstance(e, pyast.Call) and isinstance(e.func, pyast.Attribute) and e.func.attr in ('items', 'values', 'keys', 'get'):
            e = e.func.value
        else:
            break
    return (e.id if isinstance(e, pyast.Name) else None), attr, e


def working_state_obligations(ctx, fn):
    """every object the computation writes to (item stores, deletions, mutating method calls - in the body, its local functions
    and lambdas) hangs off a local name of this call that was bound to a freshly created object; nothing is stored on `self`"""
    params = {a.arg for a in fn.args.posonlyargs + fn.args.args + fn.args.kwonlyargs} | ({fn.args.vararg.arg} if fn.args.vararg else set()) | ({fn.args.kwarg.arg} if fn.args.kwarg else set())
    inner_params = set()
    for n in pyast.walk(fn):
        if n is not fn and isinstance(n, (pyast.FunctionDef, pyast.AsyncFunctionDef, pyast.Lambda)):
            a = n.args
            inner_params |= {x.arg for x in a.posonlyargs + a.args + a.kwonlyargs}
    bindings = {}  # local name -> [(kind, value node, line)]

    def bind(t, kind, val, line):
        if isinstance(t, pyast.Name):
            bindings.setdefault(t.id, []).append((kind, val, line))
        elif isinstance(t, (pyast.Tuple, pyast.List)):
            for x in t.elts:
                bind(x, 'unpack', val, line)

    writes, on_self, scope = [], [], []
    for n in pyast.walk(fn):
        if isinstance(n, pyast.Assign):
            for t in n.targets:
                bind(t, 'assign', n.value, n.lineno)
        elif isinstance(n, pyast.AnnAssign) and n.value is not None:
            bind(n.target, 'assign', n.value, n.lineno)
        elif isinstance(n, pyast.AugAssign):
            bind(n.target, 'aug', n.value, n.lineno)
        elif isinstance(n, (pyast.For, pyast.AsyncFor)):
            bind(n.target, 'iter', n.iter, n.lineno)
        elif isinstance(n, (pyast.With, pyast.AsyncWith)):
            for it in n.items:
                if it.optional_vars is not None:
                    bind(it.optional_vars, 'with', it.context_expr, n.lineno)
        elif isinstance(n, pyast.NamedExpr):
            bind(n.target, 'assign', n.value, n.lineno)
        elif isinstance(n, (pyast.Global, pyast.Nonlocal)):
            scope.append('L%d: %s' % (n.lineno, pyast.unparse(n)))
        tgs = []
        if isinstance(n, pyast.Assign):
            tgs = list(n.targets)
        elif isinstance(n, (pyast.AugAssign, pyast.AnnAssign)):
            tgs = [n.target]
        elif isinstance(n, pyast.Delete):
            tgs = list(n.targets)
        elif isinstance(n, pyast.Call) and isinstance(n.func, pyast.Attribute) and n.func.attr in MUTATORS:
            tgs = [pyast.Subscript(value=n.func.value, slice=pyast.Constant(value=0), ctx=pyast.Store())]
        flat = []
        for t in tgs:
            flat += list(t.elts) if isinstance(t, (pyast.Tuple, pyast.List)) else [t]
        for t in flat:
            if isinstance(t, (pyast.Subscript, pyast.Attribute)):
                root, attr, base = _root(t)
                line = getattr(n, 'lineno', 0)
                if root == 'self':
                    on_self.append('L%d: %s' % (line, pyast.unparse(n)[:100]))
                else:
                    writes.append((root, attr, line, pyast.unparse(n)[:100]))

    memo = {}

    def fresh_value(v, kind):
        """does this expression create an object owned by the call?"""
        if kind == 'aug' or kind == 'unpack' or kind == 'with':
            return False
        if kind == 'iter':
            r, attr, base = _root(v)
            return r is not None and not attr and fresh_name(r)
        if isinstance(v, (pyast.Dict, pyast.List, pyast.Set, pyast.ListComp, pyast.DictComp, pyast.SetComp, pyast.Tuple)):
            return True
        if isinstance(v, pyast.Call):
            f = pyast.unparse(v.func)
            if f in FRESH_CTORS:
                return True
            if f.startswith('self.db.'):  # the cursor / rows of this call's own query
                return True
            return False
        if isinstance(v, pyast.Name):
            return fresh_name(v.id)
        if isinstance(v, pyast.Subscript):  # an element of an own container
            r, attr, base = _root(v)
            return r is not None and not attr and fresh_name(r)
        return False

    def fresh_name(name):
        if name in memo:
            return memo[name]
        memo[name] = False  # cycles: not fresh
        ok = name not in params and name not in inner_params and name in bindings and all(fresh_value(v, k) for k, v, _ in bindings[name])
        memo[name] = ok
        return ok

    notfresh = []
    for root, attr, line, txt in writes:
        if root is None:
            notfresh.append('L%d: %s (written object is not reached from a local name)' % (line, txt))
        elif root in inner_params and root not in bindings and root not in params:
            raise core.Undecided('a local function of _compute_fair_share writes through its parameter %s (L%d): ownership not decidable on the text' % (root, line))
        elif attr or not fresh_name(root):
            why = 'a parameter' if root in params else 'reached through an attribute' if attr else 'bound at %s' % ', '.join('L%d to `%s`' % (ln, pyast.unparse(v)[:60]) for k, v, ln in bindings.get(root, [])) if root in bindings else 'not a local of this call'
            notfresh.append('L%d: %s writes to %s, which is %s' % (line, txt, root, why))
    _add(ctx, core.decided('C11/working-state/every-container-the-computation-writes-is-created-by-this-call', not notfresh and not scope and bool(writes), '; '.join(notfresh + scope) or 'written: %s' % sorted({w[0] for w in writes}), kind='frame'), 'c11_overlap_replay.py')
    ctx.add(core.decided('C11/working-state/nothing-is-stored-on-the-scheduler-object', not on_self, '; '.join(on_self), kind='frame'))
    seen = {w[0] for w in writes}
    sets = set(sorted_set_keys(fn)[0])
    ctx.add(core.decided('C11/working-state/vacuity/the-scan-sees-the-writes-to-both-sorted-sets-and-the-tables', sets <= seen and len(seen) > len(sets), 'written: %s' % sorted(map(str, seen)), kind='vacuity'))


# ---- the embedded query ------------------------------------------------------------------------------------------------

def _count_params(e):
    import dataclasses
    from vc import sqlast
    if isinstance(e, sqlast.Param):
        return 1
    n = 0
    if dataclasses.is_dataclass(e):
        for f in dataclasses.fields(e):
            v = getattr(e, f.name)
            for x in (v if isinstance(v, (list, tuple)) else [v]):
                n += _count_params(x)
    elif isinstance(e, (list, tuple)):
        for x in e:
            n += _count_params(x)
    return n


def _summed_column(e, need_int):
    """the column c if e is [CAST(] [COALESCE(] SUM(c) [, 0)] [AS SIGNED)], else None; need_int: the CAST ... AS SIGNED is required
    (SUM of an integer column is a DECIMAL; the code does float arithmetic and int() on the value)"""
    from vc import sqlast
    is_int = False
    if isinstance(e, sqlast.Cast) and e.type.base.upper() == 'SIGNED' and not e.type.args:
        e, is_int = e.expr, True
    if isinstance(e, sqlast.Func) and e.name.upper() == 'COALESCE' and len(e.args) == 2 and isinstance(e.args[1], sqlast.Lit) and e.args[1].value == 0 and e.args[1].kind == 'int':
        e = e.args[0]
    if isinstance(e, sqlast.Func) and e.name.upper() == 'SUM' and not e.distinct and not e.star and e.over is None and len(e.args) == 1 and isinstance(e.args[0], sqlast.Name) and (is_int or not need_int):
        return e.args[0].parts[-1].lower()
    return None


def _sql_term(e, col, param, leaf=None):
    """an SQL scalar expression over ONE row as a z3 term: ('int' | 'bool' | 'str', term).  col(name) / param(index) give the
    terms of columns and placeholders; leaf(e), tried first on every subexpression, may supply a term (aggregates in HAVING).
    All columns involved are NOT NULL (obligation), so the logic is two-valued."""
    from vc import sqlast
    if leaf is not None:
        r = leaf(e)
        if r is not None:
            return r
    if isinstance(e, sqlast.Name):
        return col(e.parts[-1].lower())
    if isinstance(e, sqlast.Param):
        return param(e.index)
    if isinstance(e, sqlast.Lit) and e.kind == 'int':
        return 'int', z3.IntVal(e.value)
    if isinstance(e, sqlast.Lit) and e.kind == 'str':
        return 'str', z3.StringVal(e.value)
    if isinstance(e, sqlast.UnOp) and e.op.upper() == 'NOT':
        k, t = _sql_term(e.operand, col, param, leaf)
        if k == 'bool':
            return 'bool', z3.Not(t)
    if isinstance(e, sqlast.UnOp) and e.op == '-':
        k, t = _sql_term(e.operand, col, param, leaf)
        if k == 'int':
            return 'int', -t
    if isinstance(e, sqlast.BinOp):
        op = e.op.upper()
        (kl, l), (kr, r) = _sql_term(e.left, col, param, leaf), _sql_term(e.right, col, param, leaf)
        if op in ('AND', 'OR', '&&', '||') and kl == kr == 'bool':
            return 'bool', (z3.And if op in ('AND', '&&') else z3.Or)(l, r)
        if op in ('+', '-', '*') and kl == kr == 'int':
            return 'int', l + r if op == '+' else l - r if op == '-' else l * r
        if op in ('=', '<>', '!=') and kl == kr and kl in ('int', 'str'):
            return 'bool', l == r if op == '=' else l != r
        if op in ('<', '<=', '>', '>=') and kl == kr == 'int':
            return 'bool', {'<': l < r, '<=': l <= r, '>': l > r, '>=': l >= r}[op]
    raise core.Undecided('fair-share query: expression outside the modelled subset: %s' % (e,))


def query_obligations(ctx, fn):
    from vc import sqlast, sqlparse
    calls = [n for n in pyast.walk(fn) if isinstance(n, pyast.Call) and pyast.unparse(n.func).startswith('self.db.')]
    if len(calls) != 1 or not calls[0].args or not (isinstance(calls[0].args[0], pyast.Constant) and isinstance(calls[0].args[0].value, str)):
        raise core.Undecided('_compute_fair_share does not issue exactly one query with a literal text: %s' % [pyast.unparse(c)[:80] for c in calls])
    call = calls[0]
    try:
        stn = sqlparse.parse_statement(call.args[0].value, POOL, call.args[0].lineno)
    except sqlparse.SqlUnsupported as e:
        raise core.Undecided('fair-share query not parsed: %s' % e)
    sel = getattr(stn, 'select', None)
    if not isinstance(sel, sqlast.Select):
        raise core.Undecided('fair-share query is not a plain SELECT: %s' % type(sel).__name__)
    tables = sqlparse.effective_tables(core.REPO)
    tab = tables.get(TABLE)
    if tab is None:
        raise core.Undecided('table %s not found in the replayed migrations' % TABLE)
    P = 'C11/query/'
    # (1) where the rows come from: the per-user, per-pool, per-token resource rows, of THIS pool
    nparams = _count_params(stn)
    qargs = call.args[1] if len(call.args) > 1 else None
    args_ok = isinstance(qargs, (pyast.Tuple, pyast.List)) and [pyast.unparse(x) for x in qargs.elts] == ['self.pool.name'] and nparams == 1
    from_ok = isinstance(sel.from_, sqlast.TableRef) and sel.from_.name.lower() == TABLE and not sel.distinct
    _add(ctx, core.decided(P + 'reads-the-resource-rows-with-the-name-of-this-pool-as-the-only-argument', bool(args_ok and from_ok), 'FROM %s; arguments %s; %d placeholder(s)' % (sel.from_, pyast.unparse(qargs) if qargs is not None else None, nparams), kind='scan'), 'c11_query_replay.py')
    if not from_ok:
        raise core.Undecided('fair-share query reads from %s: not the single table the obligations are stated over' % (sel.from_,))
    ints = {c for c, d in tab.columns.items() if d.type.upper() in ('INT', 'BIGINT', 'SMALLINT', 'TINYINT', 'MEDIUMINT')}
    strs = {c for c, d in tab.columns.items() if d.type.upper() in ('VARCHAR', 'CHAR', 'TEXT')}
    used = []

    def col(name):
        used.append(name)
        if name in ints:
            return 'int', z3.Int('row.' + name)
        if name in strs:
            return 'str', z3.String('row.' + name)
        raise core.Undecided('fair-share query: %s is not an integer / string column of %s' % (name, TABLE))

    def param(i):
        if i != 0:
            raise core.Undecided('fair-share query: more than one placeholder')
        return 'str', z3.String('arg.pool_name')

    pool_row = z3.String('row.inst_coll') == z3.String('arg.pool_name')
    W = z3.BoolVal(True)
    if sel.where is not None:
        k, W = _sql_term(sel.where, col, param)
        if k != 'bool':
            raise core.Undecided('fair-share query: WHERE is not a condition')
    nullable = sorted(c for c in set(used) | {'user', 'inst_coll'} if tab.columns[c].nullable)
    _add(ctx, core.decided(P + 'columns-in-the-row-filter-are-not-null', not nullable, 'nullable: %s' % nullable, kind='scan'), 'c11_query_replay.py')
    # (2) the row filter: exactly the rows of this pool - in particular EVERY token row of a user (a single token row holds
    # deltas and may be negative or zero; only the sum over the tokens is the user's figure), and no row of another pool
    _add(ctx, core.valid(P + 'row-filter-keeps-every-row-of-the-user-in-this-pool-so-each-sum-ranges-over-all-of-them', [pool_row], W, kind='vc', where=str(sel.where)), 'c11_query_replay.py')
    _add(ctx, core.valid(P + 'row-filter-keeps-only-rows-of-this-pool', [W], pool_row, kind='vc', where=str(sel.where)), 'c11_query_replay.py')
    ctx.add(core.satisfiable(P + 'vacuity/some-row-passes-the-row-filter', [W], kind='vacuity'))
    if sel.where is not None:
        ctx.add(core.satisfiable(P + 'canary/row-filter-lets-every-row-pass', [z3.Not(W)], kind='canary'))
    # (3) one row per user
    gk = [g.parts[-1].lower() if isinstance(g, sqlast.Name) else None for g in sel.group_by]
    one_row = 'user' in gk and all(g in ('user', 'inst_coll') for g in gk) and sel.limit is None and sel.offset is None
    _add(ctx, core.decided(P + 'one-row-per-user-and-no-user-cut-off', bool(one_row), 'GROUP BY %s LIMIT %s' % ([str(g) for g in sel.group_by], sel.limit), kind='scan'), 'c11_query_replay.py')
    # (4) the columns
    read = sorted({n.slice.value for n in pyast.walk(fn) if isinstance(n, pyast.Subscript) and isinstance(n.ctx, pyast.Load) and isinstance(n.value, pyast.Name) and n.value.id == 'record'
                   and isinstance(n.slice, pyast.Constant) and isinstance(n.slice.value, str)} | {'user', 'running_cores_mcpu', 'ready_cores_mcpu'})
    cols, dup = {}, []
    for c in sel.columns:
        nm = (c.alias or (c.expr.parts[-1] if isinstance(c.expr, sqlast.Name) else None))
        if nm is None or nm.lower() in cols:
            dup.append(str(c))
            continue
        cols[nm.lower()] = c.expr
    wrong = []
    for k in read:
        e = cols.get(k)
        if e is None:
            wrong.append('%s: not selected' % k)
        elif k == 'user':
            if not (isinstance(e, sqlast.Name) and e.parts[-1].lower() == 'user'):
                wrong.append('user: %s' % e)
        elif _summed_column(e, True) != k or k not in ints:
            wrong.append('%s: %s' % (k, e))
    _add(ctx, core.decided(P + 'each-column-the-code-reads-is-the-integer-sum-of-that-column-over-the-user-s-rows', not wrong and not dup, '; '.join(wrong + dup) or 'read: %s' % read, kind='scan'), 'c11_query_replay.py')
    misnamed = ['%s: %s' % (k, e) for k, e in cols.items() if k in ints and k not in read and _summed_column(e, False) != k]
    _add(ctx, core.decided(P + 'every-other-column-named-after-a-counter-is-the-sum-of-that-counter', not misnamed, '; '.join(misnamed), kind='scan'), 'c11_query_replay.py')
    # (5) which users are left out: decided on the aggregated sums only, and only users without ready demand
    agg = {k: _summed_column(e, False) for k, e in cols.items() if k != 'user'}
    H = z3.BoolVal(True)
    hv = {}

    def hcol(name):
        raise core.CheckerBug('HAVING names are handled by hterm')

    bad_h = []
    if sel.having is not None:
        from vc import sqlast as _a

        def hterm(e):
            # a bare name in HAVING is the select alias (MySQL resolves HAVING names against the select list first); SUM(c) is the same sum
            c = _summed_column(e, False)
            if c is not None:
                return 'int', hv.setdefault(c, z3.Int('sum.' + c))
            if isinstance(e, _a.Name):
                nm = e.parts[-1].lower()
                if agg.get(nm) is not None:
                    return 'int', hv.setdefault(agg[nm], z3.Int('sum.' + agg[nm]))
                bad_h.append('%s is not one of the aggregated columns' % nm)
                return 'int', z3.Int('raw.' + nm)
            if isinstance(e, _a.Func):
                raise core.Undecided('fair-share query: HAVING uses %s' % e)
            return None

        k, H = _sql_term(sel.having, hcol, param, hterm)
        if k != 'bool':
            raise core.Undecided('fair-share query: HAVING is not a condition')
    _add(ctx, core.decided(P + 'users-are-filtered-on-their-aggregated-sums-only', not bad_h, '; '.join(bad_h) or 'HAVING %s' % sel.having, kind='scan'), 'c11_query_replay.py')
    S = lambda c: hv.setdefault(c, z3.Int('sum.' + c))  # noqa: E731
    # what the counters are (C01 / C06): numbers of jobs and their cores; no ready jobs, no ready cores
    facts = [S('n_ready_jobs') >= 0, S('n_running_jobs') >= 0, S('ready_cores_mcpu') >= 0, S('running_cores_mcpu') >= 0, z3.Implies(S('n_ready_jobs') == 0, S('ready_cores_mcpu') == 0)]
    _add(ctx, core.valid(P + 'a-user-left-out-of-the-result-has-no-ready-demand', facts + [z3.Not(H)], S('ready_cores_mcpu') == 0, kind='vc', having=str(sel.having)), 'c11_query_replay.py')
    ctx.add(core.satisfiable(P + 'vacuity/some-user-passes-the-filter-on-the-sums', facts + [H], kind='vacuity'))
    if sel.having is not None:
        ctx.add(core.satisfiable(P + 'canary/no-user-is-ever-left-out', facts + [z3.Not(H)], kind='canary'))
    ctx.assume('user_inst_coll_resources: per user and pool the sums over the token rows are the numbers of ready / running jobs and their cores (C01, C06: non-negative; no ready jobs means no ready cores); MySQL resolves a bare name in HAVING against the select list first')


def native_witness(ctx):
    script = open(os.path.join(os.path.dirname(__file__), 'native', 'c11_replay.py')).read()
    r = core.run_native(script, {'size': 'small'}, timeout=600)
    if isinstance(r, dict) and r.get('confirmed'):
        return r
    # (wave 4) the surroundings: the query on token rows with negative deltas, two overlapping computations on one scheduler
    for name in ('c11_query_replay.py', 'c11_overlap_replay.py'):
        q = _native(name)
        if isinstance(q, dict) and q.get('confirmed'):
            return q
    return r


def build(ctx):
    # decided on the text first: they stand even when the loop contracts no longer fit a changed body (vc/check.py fallback)
    fn = fn_ast()
    working_state_obligations(ctx, fn)
    keys = sorted_set_obligations(ctx, fn)
    query_obligations(ctx, fn)
    c = fair_share(keys)
    eng = pyvc.Engine(ctx, c)
    eng.run()
    ctx.add(core.decided('C11/fair-share/no-call-outside-the-contract', not eng.unmodelled, repr(eng.unmodelled), kind='frame'))
    script = open(os.path.join(os.path.dirname(__file__), 'native', 'c11_replay.py')).read()
    ctx.witness_search = lambda: core.run_native(script, {'size': 'small'}, timeout=600)
    ctx.assume('database iterator: one row per user, running_cores_mcpu and ready_cores_mcpu non-negative integers (GROUP BY user; CAST(COALESCE(SUM(..), 0) AS SIGNED) of counters that C01 shows to be counts)')
    ctx.assume('sortedcontainers.SortedSet: s[0] is a member whose key is least; add / remove / len / bool / iteration as for a finite set (cardinality kept by the executor); the key dictionaries are not written after the loading loop (they are only subscripted afterwards - checked by the executor: no store reaches them)')
    ctx.assume('float arithmetic treated as real arithmetic: int(mark - r + 0.5) on integers and int(free / n + 0.5) (exact below 2**52; the quotient is within half an ulp, far from the next half-integer for pools of fewer than 2**20 users)')
    ctx.assume('the final re-ordering dict(sorted(result.items(), ...)) keeps keys and values (order of the returned dict is not part of the property)')
    ctx.undecided('that the scheduler loop honours the allocation (schedule_loop_body) and that the free-core figure passed in is accurate (C10)')


def thorough(ctx):
    script = open(os.path.join(os.path.dirname(__file__), 'native', 'c11_replay.py')).read()
    r = core.run_native(script, {'size': 'large'}, timeout=1800)
    if 'error' in r:
        raise core.CheckerBug('native scenario host failed: %r' % (r,))
    ctx.bounded_standin('native-water-filling-grid', 'real _compute_fair_share vs exact rational water filling: all multisets of <= 3 users with running, ready in {0,1,2,3,5,8} and 12 free-core values incl. 0 and negative', r.get('cases', 0), not r.get('confirmed'), detail=repr(r) if r.get('confirmed') else '')
