"""C40 - weighted transfer semaphore is safe and releases on cancellation.

Target: hailtop/aiotools/weighted_semaphore.py  WeightedSemaphore.acquire / release, _AcquireManager.__aenter__ / __aexit__.

Method: atomic segments (vc/segments.py).  Shared state: self.value, self.events (list of (weight, event), max frozen).
Ghost state: held (sum of the weights granted and not yet released), stt[e] status of an event (0 unused/withdrawn,
1 waiting in the queue, 2 granted - event set, grant not yet taken over by its waiter, 3 taken over), wt[e] its weight.
Local ghost of a task: MINE (its event), got (weight this call has obtained and not given back).

Invariant (holds at every await and at every return/raise, for every schedule and any number of tasks):
  value >= 0  and  value + held == max            (=> held <= max: never grants more than the capacity)
  every queue entry (n, e): stt[e] == 1, wt[e] == n, 0 <= n <= max, events pairwise distinct
Guarantee of every segment (what it may do to OTHER tasks' events): only the grant step 1 -> 2, weights never change.
Contract of acquire(n), 0 <= n:   normal return: got == n (the caller holds n);
  exit by CancelledError: got == 0 and stt[MINE] not in {1, 2}  - no entry of this waiter remains queued and no grant made
  to it is left unreturned ("a cancelled waiter does not consume capacity; a granted weight is returned on cancellation");
  AssertionError only when n > max, with nothing changed.
"""
from __future__ import annotations

import ast

import z3

from vc import core, pyvc
from vc.pyvc import Contract, Ghost, LoopSpec, SList, SRecord, to_z3, from_z3, fresh_name
from vc.segments import Monitor

PATH = 'hail/python/hailtop/aiotools/weighted_semaphore.py'
ENTRY = ('tuple', ('int', 'U'))

INV = [
    ('capacity', "self.value >= 0 and self.value + held == self.max"),
    ('queue-entries-are-waiting', "forall(lambda i: implies(0 <= i < len(self.events), stt[self.events[i][1]] == 1 and wt[self.events[i][1]] == self.events[i][0] and 0 <= self.events[i][0] <= self.max))"),
    ('queue-events-distinct', "forall(lambda i, j: implies(0 <= i < j and j < len(self.events), self.events[i][1] != self.events[j][1]))"),
]
GUAR = [
    ('others-only-granted', "forall('U', lambda e: implies(e != MINE, (stt[e] == seg_stt[e] or (seg_stt[e] == 1 and stt[e] == 2)) and implies(seg_stt[e] != 0, wt[e] == seg_wt[e])))"),
]

MON = Monitor(
    fields={'value': 'int', 'max': 'int', 'events': 'List[Tuple[int, U]]'},
    ghosts={'held': 'int', 'stt': 'Array[U, int]', 'wt': 'Array[U, int]'},
    inv=INV,
    guar=GUAR,
    frozen=['max'],
)
NOEVENT = z3.Const('NOEVENT', pyvc.U)


# ---- models of the collaborators (asyncio.Event, sortedcontainers.SortedKeyList) ----------------------------------


def _event_new(eng, st, args, kw, node):
    e = z3.Const(fresh_name('event'), pyvc.U)
    st.assume(z3.Select(st.env['stt'], e) == 0)  # a new object: never queued, never granted
    st.assume(e != NOEVENT)
    st.env['MINE'] = e
    return e


def _event_set(eng, st, args, kw, node):
    e = to_z3(args[0], 'U')
    # ghost: the grant.  held grows by the weight registered for this waiter
    st.env['held'] = st.env['held'] + z3.Select(st.env['wt'], e)
    st.env['stt'] = z3.Store(st.env['stt'], e, z3.IntVal(2))
    return None


def _event_is_set(eng, st, args, kw, node):
    return z3.Select(st.env['stt'], to_z3(args[0], 'U')) >= 2


def _sorted_add(eng, st, args, kw, node):
    lst, x = args[0], args[1]
    xz = to_z3(x, ENTRY)
    p = z3.Int(fresh_name('ins_pos'))
    st.assume(z3.And(p >= 0, p <= lst.len))
    i = z3.Int(fresh_name('ins_i'))
    arr = z3.Lambda([i], z3.If(i < p, z3.Select(lst.arr, i), z3.If(i == p, xz, z3.Select(lst.arr, i - 1))))
    new = SList(lst.len + 1, arr, ENTRY)
    eng.assign(node.func.value, new, st)
    # ghost: the event now waits with this weight
    n, e = x
    st.env['stt'] = z3.Store(st.env['stt'], to_z3(e, 'U'), z3.IntVal(1))
    st.env['wt'] = z3.Store(st.env['wt'], to_z3(e, 'U'), eng.num(n))
    return None


def _sorted_remove(eng, st, args, kw, node):
    lst, x = args[0], args[1]
    xz = to_z3(x, ENTRY)
    p = z3.Int(fresh_name('rm_pos'))
    j = z3.Int(fresh_name('rm_j'))
    present = z3.Exists([j], z3.And(j >= 0, j < lst.len, z3.Select(lst.arr, j) == xz))
    eng.oblige(st, 'safety/remove-finds-its-entry@L%d' % node.lineno, present, kind='safety')
    st.assume(z3.And(p >= 0, p < lst.len, z3.Select(lst.arr, p) == xz))
    i = z3.Int(fresh_name('rm_i'))
    arr = z3.Lambda([i], z3.If(i < p, z3.Select(lst.arr, i), z3.Select(lst.arr, i + 1)))
    eng.assign(node.func.value, SList(lst.len - 1, arr, ENTRY), st)
    n, e = x
    st.env['stt'] = z3.Store(st.env['stt'], to_z3(e, 'U'), z3.IntVal(0))
    return None


def _after_resume(eng, st, args):
    # ghost: the waiter takes over the grant made to its event
    e = to_z3(args[0], 'U')
    st.env['got'] = st.env['got'] + z3.Select(st.env['wt'], e)
    st.env['stt'] = z3.Store(st.env['stt'], e, z3.IntVal(3))


def _after_cancel(eng, st, args):
    # ghost: if the grant had already been made, the cancelled waiter is the only one who can give it back
    e = to_z3(args[0], 'U')
    was_granted = z3.Select(st.env['stt'], e) == 2
    st.env['got'] = st.env['got'] + z3.If(was_granted, z3.Select(st.env['wt'], e), 0)
    st.env['stt'] = z3.Store(st.env['stt'], e, z3.If(was_granted, z3.IntVal(3), z3.Select(st.env['stt'], e)))


WAIT = MON.cut_model(
    'await-event.wait',
    rely_normal=["wt[MINE] == cut_wt[MINE] and stt[MINE] == 2"],
    rely_cancel=[
        "wt[MINE] == cut_wt[MINE] and (stt[MINE] == 1 or stt[MINE] == 2)",
        # assumed rely (paper argument, listed in evidence): an entry leaves the queue only through the grant
        # (pop + set: status 1 -> 2) or through its own waiter, so a still-waiting event is still queued with its weight
        "implies(stt[MINE] == 1, (cut_wt[MINE], MINE) in self.events)",
    ],
    after_normal=_after_resume,
    after_cancel=_after_cancel,
)


def _release_call(eng, st, args, kw, node):
    """modular call of self.release(n) from inside acquire (cancellation handler of the repaired code)"""
    n = eng.num(args[1])
    eng.oblige(st, 'call/release/pre-nonnegative@L%d' % node.lineno, n >= 0)
    for name, e in INV:
        eng.oblige(st, 'call/release/pre-inv/%s@L%d' % (name, node.lineno), eng.ev_bool_str(e, st))
    MON.snapshot(st, 'call')
    rec = st.env['self']
    for f, t in MON.fields.items():
        if f in MON.frozen:
            continue
        rec.fields[f] = pyvc.fresh_value(pyvc.parse_type(t), 'self.' + f)
        for w in pyvc.wf_constraints(rec.fields[f]):
            st.assume(w)
    for g, t in MON.ghosts.items():
        st.env[g] = pyvc.fresh_value(pyvc.parse_type(t), g)
    MON.assume_inv(eng, st)
    st.assume(eng.ev_bool_str(RELEASE_EFFECT.replace('seg_', 'call_'), st))
    st.env['got'] = st.env['got'] - n
    return None


RELEASE_EFFECT = "forall('U', lambda e: (stt[e] == seg_stt[e] or (seg_stt[e] == 1 and stt[e] == 2)) and implies(seg_stt[e] != 0, wt[e] == seg_wt[e]))"

COMMON_CALLS = {
    'Event': _event_new,
    'asyncio.Event': _event_new,
    '.set': _event_set,
    '.is_set': _event_is_set,
    '.add': _sorted_add,
    '.remove': _sorted_remove,
    '.wait': WAIT,
    'WeightedSemaphore.release': _release_call,
}


def _setup(eng, st):
    MON.setup(eng, st)
    st.env['MINE'] = NOEVENT
    st.assume(z3.Select(st.env['stt'], NOEVENT) == 0)  # NOEVENT is not an event
    st.env['got'] = z3.IntVal(0)
    MON.assume_inv(eng, st)
    MON.begin_segment(eng, st)
    st.env['entry_held'] = st.env['held']
    st.env['entry_value'] = st.env['self'].fields['value']
    st.env['entry_events'] = st.env['self'].fields['events']


class SegEngine(pyvc.Engine):
    """segment end obligations at every exit of the method"""

    def at_return(self, st, res):
        MON.end_segment(self, st, 'return')
        super().at_return(st, res)

    def at_raise(self, st, exc):
        MON.end_segment(self, st, 'raise-%s' % (exc.cls or 'exc'))
        super().at_raise(st, exc)


def acquire_contract():
    return Contract(
        path=PATH,
        qualname='WeightedSemaphore.acquire',
        types={'n': 'int'},
        self_fields=MON.fields,
        requires=['n >= 0'],
        setup=_setup,
        calls=COMMON_CALLS,
        ghosts=[Ghost(anchor='self.value -= n', where='after', code="held = held + n\ngot = got + n")],
        ensures=[('caller-holds-exactly-n', 'got == n'), ('own-event-not-left-waiting-or-granted', 'stt[MINE] != 1 and stt[MINE] != 2')],
        raises={
            'AssertionError': "n > self.max and held == entry_held and self.value == entry_value and self.events == entry_events",
            'CancelledError': "got == 0 and stt[MINE] != 1 and stt[MINE] != 2",
        },
        canaries=[('acquire-never-changes-value', 'self.value == entry_value')],
    )


def release_contract():
    return Contract(
        path=PATH,
        qualname='WeightedSemaphore.release',
        types={'n': 'int'},
        self_fields=MON.fields,
        requires=['n >= 0'],
        setup=_setup,
        calls=COMMON_CALLS,
        ghosts=[
            Ghost(anchor='self.value += n', where='after', code="held = held - n"),
        ],
        loops={0: LoopSpec(invariants=INV + [('effect-so-far', RELEASE_EFFECT)], modifies=['held', 'stt', 'wt'])},
        ensures=[('effect-on-events-is-grants-only', RELEASE_EFFECT)],
        canaries=[('release-grants-nothing', 'len(self.events) == len(entry_events)')],
    )


def _manager(ctx):
    """_AcquireManager: __aenter__ acquires self._n, __aexit__ releases self._n on every exit (AST obligations)."""
    src = core.read_repo(PATH)
    tree = ast.parse(src)
    enter = pyvc.find_function(tree, '_AcquireManager.__aenter__')
    exit_ = pyvc.find_function(tree, '_AcquireManager.__aexit__')
    init = pyvc.find_function(tree, '_AcquireManager.__init__')
    for q in ('__aenter__', '__aexit__', '__init__'):
        ctx.under_contract(PATH, '_AcquireManager.' + q)
    body_e = [ast.unparse(s) for s in enter.body]
    body_x = [ast.unparse(s) for s in exit_.body]
    body_i = [ast.unparse(s) for s in init.body]
    ctx.add(core.decided('_AcquireManager/enter-acquires-own-weight', body_e[:1] == ['await self._ws.acquire(self._n)'] and 'return self' in body_e, repr(body_e), kind='scan'))
    ctx.add(core.decided('_AcquireManager/exit-releases-own-weight-unconditionally', body_x == ['self._ws.release(self._n)'], repr(body_x), kind='scan'))
    ctx.add(core.decided('_AcquireManager/weight-and-semaphore-fixed-at-construction', sorted(body_i) == ['self._n = n', 'self._ws = ws'], repr(body_i), kind='scan'))
    writers = [n for n in ast.walk(tree) if isinstance(n, (ast.Assign, ast.AugAssign)) and any('._n' in ast.unparse(t) for t in (n.targets if isinstance(n, ast.Assign) else [n.target]))]
    ctx.add(core.decided('_AcquireManager/weight-never-reassigned', len(writers) == 1, repr([ast.unparse(w) for w in writers]), kind='scan'))
    wsrc = ast.unparse(pyvc.find_function(tree, 'WeightedSemaphore.acquire_manager'))
    ctx.add(core.decided('acquire_manager/binds-self-and-n', 'return _AcquireManager(self, n)' in wsrc, wsrc, kind='scan'))
    init_ws = [ast.unparse(s) for s in pyvc.find_function(tree, 'WeightedSemaphore.__init__').body]
    ctx.add(core.decided('WeightedSemaphore.__init__/establishes-invariant', init_ws[:2] == ['self.max = value', 'self.value = value'] and any(s.startswith('self.events = SortedKeyList(') for s in init_ws), repr(init_ws), kind='scan'))
    ctx.under_contract(PATH, 'WeightedSemaphore.__init__')
    # callers release exactly what they acquired, once: the transfer semaphore is used through acquire_manager + `async with`
    # only - no caller acquires or releases it directly (a release in a finally would give back weight a cancelled, still
    # queued acquire never received)
    import os as _os
    direct = []
    root = _os.path.join(core.REPO, 'hail/python/hailtop')
    for d, _, files in _os.walk(root):
        for f in files:
            if not f.endswith('.py'):
                continue
            path = _os.path.join(d, f)
            if path.endswith('aiotools/weighted_semaphore.py'):
                continue
            txt = open(path).read()
            if 'xfer_sema' not in txt and 'WeightedSemaphore' not in txt:
                continue
            for n in ast.walk(ast.parse(txt)):
                if isinstance(n, ast.Call) and isinstance(n.func, ast.Attribute) and n.func.attr in ('acquire', 'release') and 'xfer_sema' in ast.unparse(n.func.value):
                    direct.append('%s:%d %s' % (_os.path.relpath(path, core.REPO), n.lineno, ast.unparse(n)[:60]))
    ctx.add(core.decided('callers/transfer-semaphore-used-only-through-acquire_manager', not direct, repr(direct), kind='scan'))


def _rely_lemmas(ctx):
    """Rely(a,c) is stable under one Guar step of another task: Rely(a,b) /\\ GuarOther(b,c) => Rely(a,c), Rely reflexive.
    Pointwise at my event (others' guarantee quantifies over all events but their own, and mine is not theirs)."""
    sa, sb, sc = z3.Ints('stt_a stt_b stt_c')
    wa, wb, wc = z3.Ints('wt_a wt_b wt_c')
    rely = lambda s0, w0, s1, w1: z3.And(w1 == w0, z3.Or(s1 == s0, z3.And(s0 == 1, s1 == 2)))
    guar_other = lambda s0, w0, s1, w1: z3.And(z3.Or(s1 == s0, z3.And(s0 == 1, s1 == 2)), z3.Implies(s0 != 0, w1 == w0))
    ctx.add(core.valid('rely/reflexive', [], rely(sa, wa, sa, wa)))
    ctx.add(core.valid('rely/stable-under-other-tasks-guarantee', [sa == 1, rely(sa, wa, sb, wb), guar_other(sb, wb, sc, wc)], rely(sa, wa, sc, wc)))
    ctx.add(core.valid('rely/implies-cut-knowledge', [sa == 1, rely(sa, wa, sb, wb)], z3.And(wb == wa, z3.Or(sb == 1, sb == 2))))


REPLAY = r'''
import sys, json, os, asyncio, importlib.util
spec = importlib.util.spec_from_file_location('ws_real', os.path.join(os.environ['VERIF_REPO'], 'hail/python/hailtop/aiotools/weighted_semaphore.py'))
m = importlib.util.module_from_spec(spec); spec.loader.exec_module(m)
async def scenario(cap, holders, waiter_w, cancel_after_grant):
    ws = m.WeightedSemaphore(cap)
    for h in holders: await ws.acquire(h)
    t = asyncio.ensure_future(ws.acquire(waiter_w))
    await asyncio.sleep(0)
    if cancel_after_grant:
        ws.release(holders[0]); holders = holders[1:]   # grants the waiter (event set) before it runs again
    t.cancel()
    try:
        await t
        got = True
    except asyncio.CancelledError:
        got = False
    for h in holders: ws.release(h)
    if got: ws.release(waiter_w)
    return ws.value, len(ws.events)
res = {'confirmed': False}
for (cap, holders, w, late) in [(10, [10], 5, False), (10, [10], 5, True), (10, [6, 4], 7, False), (10, [6, 4], 3, True), (4, [4], 4, False)]:
    v, q = asyncio.run(scenario(cap, list(holders), w, late))
    if v != cap or q != 0:
        res = {'confirmed': True, 'input': {'capacity': cap, 'holders': holders, 'cancelled_waiter_weight': w, 'cancelled_after_being_granted': late}, 'final_value': v, 'entries_left_in_queue': q, 'required': {'final_value': cap, 'entries_left_in_queue': 0}}
        break
print(json.dumps(res))
'''

REPLAY_SAFETY = r'''
import sys, json, os, asyncio, importlib.util, itertools
spec = importlib.util.spec_from_file_location('ws_real', os.path.join(os.environ['VERIF_REPO'], 'hail/python/hailtop/aiotools/weighted_semaphore.py'))
m = importlib.util.module_from_spec(spec); spec.loader.exec_module(m)
async def run(cap, weights, policy):
    ws = m.WeightedSemaphore(cap); st = {'now': 0, 'max': 0}; rel = {}; done = set()
    async def job(i, w):
        async with ws.acquire_manager(w):
            st['now'] += w; st['max'] = max(st['max'], st['now'])
            ev = asyncio.Event(); rel[i] = ev
            await ev.wait()
            st['now'] -= w
        done.add(i)
    tasks = [asyncio.ensure_future(job(i, w)) for i, w in enumerate(weights)]
    for step in range(4 * len(weights) + 4):
        for _ in range(4): await asyncio.sleep(0)
        holders = [i for i in rel if i not in done and not rel[i].is_set()]
        if not holders: break
        pick = holders[0] if policy == 'first' else (holders[-1] if policy == 'last' else max(holders, key=lambda i: weights[i]))
        rel[pick].set()
    for _ in range(4): await asyncio.sleep(0)
    stuck = [i for i in range(len(weights)) if i not in done]
    for t in tasks: t.cancel()
    await asyncio.gather(*tasks, return_exceptions=True)
    return st['max'], ws.value, stuck
res = {'confirmed': False}
found = False
for cap in (4, 10):
    for weights in itertools.product((1, 3, 4, 6), repeat=4):
        if any(w > cap for w in weights): continue
        for policy in ('first', 'last', 'heaviest'):
            mx, v, stuck = asyncio.run(run(cap, list(weights), policy))
            if mx > cap or stuck:
                res = {'confirmed': True, 'input': {'capacity': cap, 'weights': list(weights), 'release_policy': policy}, 'max_held': mx, 'tasks_never_granted': stuck}
                found = True; break
        if found: break
    if found: break
print(json.dumps(res))
'''


REPLAY_CANCEL = r'''
import sys, json, os, asyncio, importlib.util, itertools
spec = importlib.util.spec_from_file_location('ws_real', os.path.join(os.environ['VERIF_REPO'], 'hail/python/hailtop/aiotools/weighted_semaphore.py'))
m = importlib.util.module_from_spec(spec); spec.loader.exec_module(m)
async def run(cap, waiters, cancel):
    # a holder takes the whole capacity, the waiters queue (in order), one of them is cancelled, the holder leaves
    ws = m.WeightedSemaphore(cap); held = {'now': 0, 'max': 0}; got = set(); gates = {}
    async def job(name, w):
        async with ws.acquire_manager(w):
            held['now'] += w; held['max'] = max(held['max'], held['now']); got.add(name)
            gates[name] = asyncio.Event()
            await gates[name].wait()
            held['now'] -= w
    h = asyncio.ensure_future(job('holder', cap))
    for _ in range(3): await asyncio.sleep(0)
    ts = []
    for i, w in enumerate(waiters):
        ts.append(asyncio.ensure_future(job(i, w)))
        for _ in range(3): await asyncio.sleep(0)
    ts[cancel].cancel()
    for _ in range(3): await asyncio.sleep(0)
    gates['holder'].set()
    for step in range(4 * len(waiters) + 4):
        for _ in range(4): await asyncio.sleep(0)
        open_ = [n for n in list(gates) if n != 'holder' and not gates[n].is_set()]
        if not open_: break
        gates[open_[0]].set()
    for _ in range(6): await asyncio.sleep(0)
    never = [i for i in range(len(waiters)) if i != cancel and i not in got]
    value = ws.value
    for t in ts + [h]: t.cancel()
    await asyncio.gather(*ts, h, return_exceptions=True)
    return held['max'], value, never
res = {'confirmed': False}
for cap in (4, 8):
    for n in (2, 3):
        for ws_ in itertools.product((1, 2, 4), repeat=n):
            for c in range(n):
                mx, v, never = asyncio.run(run(cap, list(ws_), c))
                if mx > cap or v != cap or never:
                    res = {'confirmed': True, 'input': {'capacity': cap, 'queued_waiter_weights': list(ws_), 'cancelled_waiter': c}, 'max_held': mx, 'value_after_everything_was_released': v, 'waiters_never_granted': never}
                    print(json.dumps(res)); sys.exit(0)
print(json.dumps(res))
'''

_CACHE = {}


def _search():
    if 'r' not in _CACHE:
        r = core.run_native(REPLAY, {}, timeout=60)
        if not r.get('confirmed'):
            r = core.run_native(REPLAY_CANCEL, {}, timeout=120)
        if not r.get('confirmed'):
            r = core.run_native(REPLAY_SAFETY, {}, timeout=120)
        _CACHE['r'] = r
    return _CACHE['r']


def native_witness(ctx):
    return _search()


def build(ctx):
    for c in (release_contract(), acquire_contract()):
        eng = SegEngine(ctx, c)
        eng.replayer = lambda model, obl: _search()
        eng.run()
    _manager(ctx)
    _rely_lemmas(ctx)
    ctx.witness_search = _search
    ctx.assume('asyncio runs one coroutine at a time and switches tasks only at an await (atomic segments)')
    ctx.assume('asyncio.Event: wait() returns normally only after set(); a task cancelled while awaiting gets CancelledError at that await, also when the event was set but the task had not yet resumed')
    ctx.assume('sortedcontainers.SortedKeyList: add inserts one element, pop(0)/[0] address the first element, remove deletes the given element (ValueError if absent); ordering by weight is not needed for this property')
    ctx.assume('rely assumed, not proved: while a waiter\'s event has status 1 its entry (weight, event) is still in the queue - entries are removed only by the grant step (pop + set, status 1 -> 2) or by their own waiter; the converse direction (queue entries have status 1) IS part of the proved invariant')
    ctx.assume('a new Event() is an object no other task refers to (ghost status 0)')
    ctx.assume('callers release exactly what they acquired, once: discharged for _AcquireManager (the only caller pattern: acquire_manager + async with); held is then the sum of outstanding grants')
    ctx.undecided('fairness/liveness of waiters (not part of the property)')
