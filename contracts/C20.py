"""C20 - bounded gather respects its bound and its error contract.

Ghost model of asyncio.Semaphore seen from ONE coroutine: HELD = number of units this coroutine currently holds
(`async with sema` / acquire: +1, release: -1; releasing needs HELD >= 1).  A partial function "runs within the bound" iff
it is called while its task holds one unit, and a helper "respects the bound" iff it gives back exactly what it took:
HELD at every exit == HELD at entry (otherwise the semaphore ends above/below its configured value).

 (A) run_with_sema / run_with_sema_return_exceptions (nested coroutines of the two gathers): pf() is called holding exactly one
     unit, nothing is held afterwards; the value / the exception of pf is returned / raised unchanged; the
     return-exceptions variant turns EVERY exception (BaseException, CancelledError included) into (None, exc).
 (B) bounded_gather2_return_exceptions / bounded_gather2_raise_exceptions bodies: one task per partial function in submission
     order, all handed to asyncio.gather in that order (assumed contract of gather: results in argument order, first exception
     raised), awaited without the caller's unit; caller's unit restored on return (HELD == 1); with cancel_on_error every task
     is finished or cancelled, and all are awaited, before the exception leaves (loop invariant over the task list).
 (C) WithoutSemaphore: __aenter__ releases exactly one unit, __aexit__ takes exactly one back.
 (D) bounded_gather2 dispatch; bounded_gather hands a semaphore of `parallelism` units of which it holds one.
 (E) OnlineBoundedGather2.call.run_and_cleanup: f runs holding one unit; cancellation of the job is not an error; the FIRST
     other exception is stored and shuts the pool down, later ones are discarded; the job always leaves _pending;
     __aexit__ re-raises the stored exception after all jobs are gone; call() refuses after shutdown; _shutdown cancels every
     unfinished job.
"""
from __future__ import annotations

import ast as pyast
import os

import z3

from vc import core, pyvc
from vc.pyvc import Contract, Fork, LoopSpec, SExc, SRecord, to_z3, with_model

UTILS = 'hail/python/hailtop/utils/utils.py'
NONE_U = z3.Const('nothing', pyvc.U)


def _strict(ctx, eng, label):
    ctx.add(core.decided('C20/%s/no-call-outside-the-contract' % label, not eng.unmodelled, repr(eng.unmodelled), kind='frame'))


def _sema_with(name='sema'):
    """`async with sema:` - acquiring may be cancelled while waiting (nothing held then); the exit releases the unit"""

    def enter(eng, st, node):
        ok = st.fork()
        ok.env['HELD'] = ok.env['HELD'] + 1
        bad = st.fork()
        e = z3.Const(pyvc.fresh_name('acquire_cancelled'), pyvc.U)
        bad.assume(eng.isinst_pred(e, 'CancelledError'))
        bad.assume(e != NONE_U)
        bad.env['last_exc'] = e
        return [(ok, ('value', None)), (bad, ('raise', SExc(term=e)))]

    def exit_(eng, st, exc):
        st.env['HELD'] = st.env['HELD'] - 1
        return [(st, None)]

    return with_model(enter, exit_)


def _exc_info(eng, st, args, kw, node):
    e = st.env.get('__current_exc__')
    return (None, e, None)


def _pf_call(eng, st, args, kw, node):
    """await pf(): the partial function returns a value or raises anything (BaseException)"""
    eng.oblige(st, 'partial-function-runs-holding-exactly-one-unit', st.env['HELD'] == 1)
    st.env['n_calls'] = st.env['n_calls'] + 1
    v = z3.Const(pyvc.fresh_name('pf_value'), pyvc.U)
    e = z3.Const(pyvc.fresh_name('pf_exc'), pyvc.U)
    raise Fork(node, [('pf-returns', None, 'value', v, lambda s: s.env.__setitem__('PF_VALUE', v)), ('pf-raises', e != NONE_U, 'raise', SExc(term=e), lambda s: s.env.__setitem__('last_exc', e))])


def runners():
    g = {'HELD': '0', 'n_calls': '0', 'PF_VALUE': 'NOTHING', 'last_exc': 'NOTHING'}
    a = Contract(
        path=UTILS, qualname='bounded_gather2_raise_exceptions.run_with_sema', types={'pf': 'U'}, consts={'NOTHING': NONE_U},
        calls={'with:sema': _sema_with(), 'pf': _pf_call}, ghost_init=dict(g),
        ensures=[('returns-the-partial-functions-value-having-run-it-once-and-holds-nothing', 'n_calls == 1 and result == PF_VALUE and HELD == 0')],
        raises={'*': 'exc == last_exc'}, on_raise=[('holds-nothing-after-an-error', 'HELD == 0'), ('at-most-one-run', 'n_calls <= 1')],
        canaries=[('never-runs', 'n_calls == 0')],
    )
    b = Contract(
        path=UTILS, qualname='bounded_gather2_return_exceptions.run_with_sema_return_exceptions', types={'pf': 'U'}, consts={'NOTHING': NONE_U},
        calls={'with:sema': _sema_with(), 'pf': _pf_call, 'sys.exc_info': _exc_info}, ghost_init=dict(g),
        ensures=[
            ('value-in-place-or-exception-in-place', '(n_calls == 1 and last_exc == NOTHING and result[0] == PF_VALUE and result[1] is None) or (last_exc != NOTHING and result[0] is None and result[1] == last_exc)'),
            ('holds-nothing-afterwards', 'HELD == 0'),
        ],
        raises={},  # every exception, CancelledError and other BaseExceptions included, is returned in place
        canaries=[('never-an-exception-in-place', 'result[1] is None')],
    )
    return [(a, 'run-with-sema'), (b, 'run-with-sema-return-exceptions')]


# ---- (C) WithoutSemaphore ------------------------------------------------------------------------------------------------------


def without_semaphore():
    def release(eng, st, args, kw, node):
        st.env['n_release'] = st.env['n_release'] + 1
        return None

    def acquire(eng, st, args, kw, node):
        st.env['n_acquire'] = st.env['n_acquire'] + 1
        return None

    fields = {'_sema': 'U', '_acquire_on_error': 'bool'}
    ent = Contract(path=UTILS, qualname='WithoutSemaphore.__aenter__', self_fields=fields, calls={'self._sema.release': release}, ghost_init={'n_release': '0'},
                   ensures=[('gives-up-exactly-one-unit', 'n_release == 1')], raises={}, canaries=[('releases-nothing', 'n_release == 0')])
    ext = Contract(
        path=UTILS, qualname='WithoutSemaphore.__aexit__', self_fields=fields, types={'exc_type': 'U', 'exc_val': 'U', 'exc_tb': 'U'}, calls={'self._sema.acquire': acquire}, ghost_init={'n_acquire': '0'},
        ensures=[
            ('takes-the-unit-back-on-a-normal-exit', 'implies(exc_val is None, n_acquire == 1)'),
            # what the bound needs: the unit given up on entry is taken back on EVERY exit, else the caller's own release
            # (`async with sema` around it) leaves the semaphore one above its configured value
            ('takes-the-unit-back-on-an-exceptional-exit', 'implies(not (exc_val is None), n_acquire == 1)'),
            ('never-more-than-one', 'n_acquire <= 1'),
        ],
        raises={}, canaries=[('never-acquires', 'n_acquire == 0')],
    )
    return [(ent, 'without-semaphore-enter'), (ext, 'without-semaphore-exit')]


def _without(acquire_back_on_error):
    """`async with WithoutSemaphore(sema):` as its contract (C): gives up one unit, takes it back on exit.
    acquire_back_on_error: what __aexit__ does on an exceptional exit is read from the REAL class on every run (see build)"""

    def enter(eng, st, node):
        ce = node.items[0].context_expr
        eng.oblige(st, 'gives-up-a-unit-it-holds', st.env['HELD'] >= 1)
        eng.oblige(st, 'of-the-gathers-own-semaphore', to_z3(eng.ev(ce.args[0], st), 'U') == to_z3(eng.ev(pyast.Name(id=st.env['__sema_name__'], ctx=pyast.Load()), st) if st.env['__sema_name__'] in st.env else eng.ev(pyast.parse(st.env['__sema_name__'], mode='eval').body, st), 'U'))
        st.env['HELD'] = st.env['HELD'] - 1
        return [(st, ('value', None))]

    def exit_(eng, st, exc):
        if exc is None or acquire_back_on_error:
            st.env['HELD'] = st.env['HELD'] + 1
        return [(st, None)]

    return with_model(enter, exit_)


def build(ctx):
    for c, label in runners() + without_semaphore():
        eng = pyvc.Engine(ctx, c)
        eng.run()
        _strict(ctx, eng, label)
