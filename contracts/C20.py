"""C20 - bounded gather respects its bound and its error contract.

Ghost model of asyncio.Semaphore seen from ONE coroutine: HELD = number of units this coroutine currently holds
(`async with sema` / acquire: +1, release: -1; releasing needs HELD >= 1).  A partial function "runs within the bound" iff
it is called while its task holds one unit, and a helper "respects the bound" iff it gives back exactly what it took:
HELD at every exit == HELD at entry (otherwise the semaphore ends above/below its configured value).

 (A) run_with_sema / run_with_sema_return_exceptions (nested coroutines of the two gathers): pf() is called holding exactly one
     unit, nothing is held afterwards; the value / the exception of pf is returned / raised unchanged; the
     return-exceptions variant turns EVERY exception (BaseException, CancelledError included) into (None, exc).
 (B) bounded_gather2_return_exceptions / bounded_gather2_raise_exceptions bodies: one task per partial function in submission
     order, all handed to asyncio.gather in that order (assumed contract of gather: results in argument order, first exception
     raised), awaited without the caller's unit; caller's unit restored on return (HELD == 1); with cancel_on_error every task
     is finished or cancelled, and all are awaited, before the exception leaves (loop invariant over the task list).
 (C) WithoutSemaphore: __aenter__ releases exactly one unit, __aexit__ takes exactly one back.
 (D) bounded_gather2 dispatch; bounded_gather hands a semaphore of `parallelism` units of which it holds one.
 (E) OnlineBoundedGather2.call.run_and_cleanup: f runs holding one unit; cancellation of the job is not an error; the FIRST
     other exception is stored and shuts the pool down, later ones are discarded; the job always leaves _pending;
     __aexit__ re-raises the stored exception after all jobs are gone; call() refuses after shutdown; _shutdown cancels every
     unfinished job.
"""
from __future__ import annotations

import ast as pyast
import os

import z3

from vc import core, pyvc
from vc.pyvc import Contract, Fork, LoopSpec, SExc, SMap, SRecord, to_z3, with_model

UTILS = 'hail/python/hailtop/utils/utils.py'
NONE_U = z3.Const("nothing", pyvc.U)
U = pyvc.U


def _strict(ctx, eng, label):
    ctx.add(core.decided('C20/%s/no-call-outside-the-contract' % label, not eng.unmodelled, repr(eng.unmodelled), kind='frame'))


def _sema_with(name='sema'):
    """`async with sema:` - acquiring may be cancelled while waiting (nothing held then); the exit releases the unit"""

    def enter(eng, st, node):
        ok = st.fork()
        ok.env['HELD'] = ok.env['HELD'] + 1
        bad = st.fork()
        e = z3.Const(pyvc.fresh_name('acquire_cancelled'), pyvc.U)
        bad.assume(eng.isinst_pred(e, 'CancelledError'))
        bad.assume(e != NONE_U)
        bad.env['last_exc'] = e
        return [(ok, ('value', None)), (bad, ('raise', SExc(term=e)))]

    def exit_(eng, st, exc):
        st.env['HELD'] = st.env['HELD'] - 1
        return [(st, None)]

    return with_model(enter, exit_)


def _exc_info(eng, st, args, kw, node):
    e = st.env.get('__current_exc__')
    return (None, e, None)


def _pf_call(eng, st, args, kw, node):
    """await pf(): the partial function returns a value or raises anything (BaseException)"""
    eng.oblige(st, 'partial-function-runs-holding-exactly-one-unit', st.env['HELD'] == 1)
    st.env['n_calls'] = st.env['n_calls'] + 1
    v = z3.Const(pyvc.fresh_name('pf_value'), pyvc.U)
    e = z3.Const(pyvc.fresh_name('pf_exc'), pyvc.U)
    raise Fork(node, [('pf-returns', None, 'value', v, lambda s: s.env.__setitem__('PF_VALUE', v)), ('pf-raises', e != NONE_U, 'raise', SExc(term=e), lambda s: s.env.__setitem__('last_exc', e))])


def runners():
    g = {'HELD': '0', 'n_calls': '0', 'PF_VALUE': 'NOTHING', 'last_exc': 'NOTHING'}
    a = Contract(
        path=UTILS, qualname='bounded_gather2_raise_exceptions.run_with_sema', types={'pf': 'U'}, consts={'NOTHING': NONE_U},
        calls={'with:sema': _sema_with(), 'pf': _pf_call}, ghost_init=dict(g),
        ensures=[('returns-the-partial-functions-value-having-run-it-once-and-holds-nothing', 'n_calls == 1 and result == PF_VALUE and HELD == 0')],
        raises={'*': 'exc == last_exc'}, on_raise=[('holds-nothing-after-an-error', 'HELD == 0'), ('at-most-one-run', 'n_calls <= 1')],
        canaries=[('never-runs', 'n_calls == 0')],
    )
    b = Contract(
        path=UTILS, qualname='bounded_gather2_return_exceptions.run_with_sema_return_exceptions', types={'pf': 'U'}, consts={'NOTHING': NONE_U},
        calls={'with:sema': _sema_with(), 'pf': _pf_call, 'sys.exc_info': _exc_info}, ghost_init=dict(g),
        ensures=[
            ('value-in-place-or-exception-in-place', '(n_calls == 1 and last_exc == NOTHING and result[0] == PF_VALUE and result[1] is None) or (last_exc != NOTHING and result[0] is None and result[1] == last_exc)'),
            ('holds-nothing-afterwards', 'HELD == 0'),
        ],
        raises={},  # every exception, CancelledError and other BaseExceptions included, is returned in place
        canaries=[('never-an-exception-in-place', 'result[1] is None')],
    )
    return [(a, 'run-with-sema'), (b, 'run-with-sema-return-exceptions')]


# ---- (C) WithoutSemaphore ------------------------------------------------------------------------------------------------------


def without_semaphore():
    def release(eng, st, args, kw, node):
        st.env['n_release'] = st.env['n_release'] + 1
        return None

    def acquire(eng, st, args, kw, node):
        st.env['n_acquire'] = st.env['n_acquire'] + 1
        return None

    fields = {'_sema': 'U', '_acquire_on_error': 'bool'}
    ent = Contract(path=UTILS, qualname='WithoutSemaphore.__aenter__', self_fields=fields, calls={'self._sema.release': release}, ghost_init={'n_release': '0'},
                   ensures=[('gives-up-exactly-one-unit', 'n_release == 1')], raises={}, canaries=[('releases-nothing', 'n_release == 0')])
    ext = Contract(
        path=UTILS, qualname='WithoutSemaphore.__aexit__', self_fields=fields, types={'exc_type': 'U', 'exc_val': 'U', 'exc_tb': 'U'}, calls={'self._sema.acquire': acquire}, ghost_init={'n_acquire': '0'},
        ensures=[
            ('takes-the-unit-back-on-a-normal-exit', 'implies(exc_val is None, n_acquire == 1)'),
            # what the bound needs: the unit given up on entry is taken back on EVERY exit, else the caller's own release
            # (`async with sema` around it) leaves the semaphore one above its configured value
            ('takes-the-unit-back-on-an-exceptional-exit', 'implies(not (exc_val is None), n_acquire == 1)'),
            ('never-more-than-one', 'n_acquire <= 1'),
        ],
        raises={}, canaries=[('never-acquires', 'n_acquire == 0')],
    )
    return [(ent, 'without-semaphore-enter'), (ext, 'without-semaphore-exit')]


# ---- (B) the two gathers ---------------------------------------------------------------------------------------------------------


def gathers():
    def without_enter(eng, st, node):
        ce = node.items[0].context_expr
        if ce.keywords or len(ce.args) != 1:
            raise core.Undecided('WithoutSemaphore called with other than one positional argument')
        eng.oblige(st, 'gives-up-a-unit-it-holds', st.env['HELD'] >= 1)
        eng.oblige(st, 'of-the-gathers-own-semaphore', to_z3(eng.ev(ce.args[0], st), 'U') == to_z3(st.env['sema'], 'U'))
        st.env['HELD'] = st.env['HELD'] - 1
        return [(st, ('value', None))]

    def without_exit(eng, st, exc):
        # the callee's CONTRACT (C): the unit is taken back on every exit.  Whether the real __aexit__ meets it is the callee's
        # own obligation (WithoutSemaphore.__aexit__/post/...), not re-examined at each call site
        st.env['HELD'] = st.env['HELD'] + 1
        return [(st, None)]

    def coro(name):
        return lambda eng, st, args, kw, node: eng.uf('coro_' + name, ['U'], 'U')(to_z3(args[0], 'U'))

    def create_task(eng, st, args, kw, node):
        return eng.uf('task_of', ['U'], 'U')(to_z3(args[0], 'U'))

    def star_is_tasks(node):
        return len(node.args) == 1 and isinstance(node.args[0], pyast.Starred) and isinstance(node.args[0].value, pyast.Name) and node.args[0].value.id == 'tasks' and not node.keywords

    def gather(eng, st, args, kw, node):
        # assumed contract of asyncio.gather(*aws): awaits all; returns their results in ARGUMENT order, or raises the first exception
        eng.oblige(st, 'gather-receives-exactly-the-tasks-in-order', z3.BoolVal(star_is_tasks(node)))
        eng.oblige(st, 'tasks-are-awaited-without-the-callers-unit', st.env['HELD'] == 0)
        tasks = st.env['tasks']
        R = pyvc.fresh_value(('list', 'U'), 'gathered')
        res = eng.uf('result_of', ['U'], 'U')
        j = z3.Int(pyvc.fresh_name('g_j'))
        e = z3.Const(pyvc.fresh_name('gather_exc'), pyvc.U)

        def ok(s):
            s.assume(R.len == tasks.len)
            s.assume(z3.ForAll([j], z3.Implies(z3.And(j >= 0, j < R.len), z3.Select(R.arr, j) == res(z3.Select(tasks.arr, j)))))
            s.env['GATHERED'] = True

        def bad(s):
            s.env['last_exc'] = e
            s.env['GATHER_FAILED'] = True

        raise Fork(node, [('all-done', None, 'value', R, ok), ('first-exception', e != NONE_U, 'raise', SExc(term=e), bad)])

    def wait(eng, st, args, kw, node):
        eng.oblige(st, 'waits-for-all-the-tasks', eng.equal(args[0], st.env['tasks']))
        eng.oblige(st, 'tasks-are-awaited-without-the-callers-unit', st.env['HELD'] == 0)
        st.env['WAITED'] = True
        return None

    DONE = lambda eng, t: eng.uf('task_done', ['U'], 'bool')(to_z3(t, 'U'))  # noqa: E731

    def done(eng, st, args, kw, node):
        return DONE(eng, args[0])

    def cancelled(eng, st, args, kw, node):
        return eng.uf('task_cancelled', ['U'], 'bool')(to_z3(args[0], 'U'))

    def exception(eng, st, args, kw, node):
        x = eng.uf('task_exception', ['U'], 'U')(to_z3(args[0], 'U'))
        st.env['last_task_exc'] = x
        return x

    def cancel(eng, st, args, kw, node):
        k = st.env['k']
        eng.oblige(st, 'cancels-the-task-of-this-iteration', to_z3(args[0], 'U') == z3.Select(st.env['tasks'].arr, k))
        st.env['CANC'] = z3.Store(st.env['CANC'], k, True)
        return None

    def setup(eng, st):
        st.env['task_done'] = pyvc.SFunc('task_done', lambda e, s, args, kw, node: DONE(e, args[0]))
        for n in ('task_of', 'result_of'):
            st.env[n] = pyvc.SFunc(n, (lambda n: lambda e, s, args, kw, node: e.uf(n, ['U'], 'U')(to_z3(args[0], 'U')))(n))
        for n in ('coro_run_with_sema', 'coro_run_with_sema_return_exceptions'):
            st.env[n] = pyvc.SFunc(n, (lambda n: lambda e, s, args, kw, node: e.uf(n, ['U'], 'U')(to_z3(args[0], 'U')))(n))

    ORDER = 'len(result) == len(pfs) and forall(lambda i: implies(0 <= i < len(pfs), result[i] == result_of(task_of(%s(pfs[i])))))'
    common = dict(
        path=UTILS, consts={'NOTHING': NONE_U, 'EMPTYB': z3.K(z3.IntSort(), z3.BoolVal(False))}, setup=setup,
        ghost_init={'HELD': '1', 'GATHERED': 'False', 'GATHER_FAILED': 'False', 'WAITED': 'False', 'CANC': 'EMPTYB', 'last_exc': 'NOTHING', 'last_task_exc': 'NOTHING'},
        requires=[],
    )
    calls = {'with:WithoutSemaphore': with_model(without_enter, without_exit), 'asyncio.create_task': create_task, 'asyncio.gather': gather, 'asyncio.wait': wait, 'sys.exc_info': _exc_info,
             '.done': done, '.cancelled': cancelled, '.exception': exception, '.cancel': cancel}
    ret = Contract(
        qualname='bounded_gather2_return_exceptions', types={'sema': 'U', 'tasks': 'List[U]'}, extra_inputs={'pfs': 'List[U]'},
        calls=dict(calls, run_with_sema_return_exceptions=coro('run_with_sema_return_exceptions')),
        ensures=[
            ('one-outcome-per-partial-function-in-submission-order', ORDER % 'coro_run_with_sema_return_exceptions'),
            ('callers-unit-restored', 'HELD == 1'),
        ],
        raises={'*': 'exc == last_exc'}, on_raise=[('callers-unit-restored-when-the-gather-itself-fails', 'HELD == 1')],
        canaries=[('no-results', 'len(result) == 0')], **common,
    )
    SETTLED = 'forall(lambda j: implies(0 <= j < %s, task_done(tasks[j]) or CANC[j]))'
    rai = Contract(
        qualname='bounded_gather2_raise_exceptions', types={'sema': 'U', 'cancel_on_error': 'bool', 'tasks': 'List[U]', 'task': 'U', 'exc': 'U'}, extra_inputs={'pfs': 'List[U]'},
        calls=dict(calls, run_with_sema=coro('run_with_sema')),
        loops={'re:^for task in tasks': LoopSpec(index='k', invariants=[('tasks-so-far-finished-or-cancelled', SETTLED % 'k'), ('nothing-awaited-yet', 'not WAITED and HELD == 1 and GATHER_FAILED')], modifies=['CANC', 'last_task_exc'])},
        ensures=[
            ('one-result-per-partial-function-in-submission-order', ORDER % 'coro_run_with_sema'),
            ('callers-unit-restored', 'HELD == 1'),
        ],
        raises={'*': 'exc == last_exc'},
        on_raise=[
            ('raises-the-first-exception', 'exc == last_exc'),
            ('cancel-on-error-every-task-finished-or-cancelled-before-the-exception-leaves', 'implies(cancel_on_error, ' + SETTLED % 'len(tasks)' + ')'),
            ('cancel-on-error-all-tasks-awaited-before-the-exception-leaves', 'implies(cancel_on_error and len(tasks) > 0, WAITED)'),
            ('callers-unit-restored-on-errors', 'HELD == 1'),
        ],
        canaries=[('no-results', 'len(result) == 0')], **common,
    )
    return [(ret, 'gather-return-exceptions'), (rai, 'gather-raise-exceptions')]



# ---- (D) dispatch ---------------------------------------------------------------------------------------------------------------


def dispatch():
    def star_pfs(node):
        return len(node.args) == 2 and isinstance(node.args[1], pyast.Starred) and isinstance(node.args[1].value, pyast.Name) and node.args[1].value.id == 'pfs'

    def variant(which):
        def model(eng, st, args, kw, node):
            eng.oblige(st, 'same-semaphore-and-all-partial-functions-in-order', z3.And(z3.BoolVal(star_pfs(node)), to_z3(args[0], 'U') == to_z3(st.env['sema'], 'U')))
            eng.oblige(st, 'called-holding-the-callers-unit', st.env['HELD'] == 1)
            st.env['VARIANT'] = z3.IntVal(which)
            if which == 2:
                st.env['COE'] = eng.truthy(kw.get('cancel_on_error', False))
                eng.oblige(st, 'only-cancel-on-error-is-passed', z3.BoolVal(set(kw) <= {'cancel_on_error'}))
            else:
                eng.oblige(st, 'no-options-for-the-return-exceptions-variant', z3.BoolVal(not kw))
            v = z3.Const(pyvc.fresh_name('variant_result'), pyvc.U)
            st.env['INNER'] = v
            return v
        return model

    d = Contract(
        path=UTILS, qualname='bounded_gather2', types={'sema': 'U', 'return_exceptions': 'bool', 'cancel_on_error': 'bool'}, consts={'NOTHING': NONE_U},
        calls={'bounded_gather2_return_exceptions': variant(1), 'bounded_gather2_raise_exceptions': variant(2)}, ghost_init={'HELD': '1', 'VARIANT': '0', 'COE': 'False', 'INNER': 'NOTHING'},
        ensures=[
            ('exceptions-in-place-iff-asked-for', 'VARIANT == (1 if return_exceptions else 2) and result == INNER'),
            ('cancellation-of-the-rest-iff-asked-for', 'implies(not return_exceptions, COE == cancel_on_error)'),
        ],
        raises={'ValueError': 'return_exceptions and cancel_on_error'}, canaries=[('always-raising-variant', 'VARIANT == 2')],
    )

    def mk_sema(eng, st, args, kw, node):
        st.env['SEMA_UNITS'] = eng.num(args[0])
        return z3.Const('the_new_semaphore', pyvc.U)

    def inner(eng, st, args, kw, node):
        ok = len(node.args) == 2 and isinstance(node.args[1], pyast.Starred) and isinstance(node.args[1].value, pyast.Name) and node.args[1].value.id == 'pfs'
        eng.oblige(st, 'the-new-semaphore-and-all-partial-functions-in-order', z3.And(z3.BoolVal(ok), to_z3(args[0], 'U') == z3.Const('the_new_semaphore', pyvc.U)))
        # precondition of bounded_gather2 (ghost HELD == 1 in (B)): the caller holds one unit of the semaphore it passes
        eng.oblige(st, 'holds-one-unit-of-the-semaphore-it-passes', st.env['HELD'] == 1)
        eng.oblige(st, 'options-passed-through', z3.And(z3.BoolVal(set(kw) == {'return_exceptions', 'cancel_on_error'}), eng.truthy(kw.get('return_exceptions', False)) == eng.truthy(st.env['return_exceptions']), eng.truthy(kw.get('cancel_on_error', False)) == eng.truthy(st.env['cancel_on_error'])))
        st.env['n_inner'] = st.env['n_inner'] + 1
        v = z3.Const(pyvc.fresh_name('gather_result'), pyvc.U)
        st.env['INNER'] = v
        e = z3.Const(pyvc.fresh_name('gather_exc'), pyvc.U)
        raise Fork(node, [('gathered', None, 'value', v, None), ('gather-raises', e != NONE_U, 'raise', SExc(term=e), lambda s: s.env.__setitem__('last_exc', e))])

    g = Contract(
        path=UTILS, qualname='bounded_gather', types={'parallelism': 'int', 'return_exceptions': 'bool', 'cancel_on_error': 'bool'}, consts={'NOTHING': NONE_U}, requires=['parallelism >= 1'],
        calls={'asyncio.Semaphore': mk_sema, 'with:sema': _sema_with(), 'bounded_gather2': inner}, ghost_init={'HELD': '0', 'SEMA_UNITS': '0', 'n_inner': '0', 'INNER': 'NOTHING', 'last_exc': 'NOTHING'},
        ensures=[('a-semaphore-of-parallelism-units-one-gather-result-returned-nothing-held', 'SEMA_UNITS == parallelism and n_inner == 1 and result == INNER and HELD == 0')],
        raises={'*': 'exc == last_exc'}, on_raise=[('nothing-held-after-an-error', 'HELD == 0')], canaries=[('no-gather', 'n_inner == 0')],
    )
    return [(d, 'dispatch'), (g, 'bounded-gather')]


# ---- (E) OnlineBoundedGather2 --------------------------------------------------------------------------------------------------


def online():
    out = []
    PSH = z3.Const('pool_shutdown_marker', pyvc.U)

    # -- run_and_cleanup: pool state is re-read after the await of the job (other jobs ran meanwhile)
    for tag in ('pool-open', 'pool-shut-down-meanwhile'):
        def f_call(eng, st, args, kw, node, tag=tag):
            eng.oblige(st, 'job-runs-holding-exactly-one-unit', st.env['HELD'] == 1)
            st.env['n_calls'] = st.env['n_calls'] + 1
            me = st.env['self']
            # rely (other jobs of the pool ran while this one awaited): the stored first exception only goes from None to set;
            # this job's entry stays registered unless the whole pool was shut down (_pending is None)
            me.fields['_exception'] = st.env['EXC_NOW']
            st.env['EXC_SEEN'] = st.env['EXC_NOW']
            if tag == 'pool-shut-down-meanwhile':
                me.fields['_pending'] = None
            else:
                me.fields['_pending'] = st.env['PENDING_NOW']
            v = z3.Const(pyvc.fresh_name('job_value'), pyvc.U)
            e = z3.Const(pyvc.fresh_name('job_exc'), pyvc.U)
            c = eng.isinst_pred(e, 'CancelledError')
            raise Fork(node, [('job-returns', v != NONE_U, 'value', v, lambda s: s.env.__setitem__('JOB_VALUE', v)),
                              ('job-cancelled', z3.And(e != NONE_U, c), 'raise', SExc(term=e), lambda s: s.env.__setitem__('JOB_CANCELLED', True)),
                              ('job-fails', z3.And(e != NONE_U, z3.Not(c)), 'raise', SExc(term=e), lambda s: s.env.__setitem__('JOB_EXC', e))])

        def shutdown(eng, st, args, kw, node):
            st.env['n_shutdown'] = st.env['n_shutdown'] + 1
            st.env['self'].fields['_pending'] = None  # contract of _shutdown (below)
            return z3.Const('shutdown_coro', pyvc.U)

        def done_set(eng, st, args, kw, node):
            st.env['DONE_SET'] = True
            return None

        def setup(eng, st, tag=tag):
            st.env['self'] = SRecord('OnlineBoundedGather2', {'_sema': z3.Const('pool_sema', pyvc.U), '_exception': st.env['EXC_BEFORE'], '_pending': st.env['PENDING_BEFORE'], '_done_event': z3.Const('done_event', pyvc.U)})

        none_or = lambda v: "(%s == NOTHING)" % v  # noqa: E731
        out.append((Contract(
            path=UTILS, qualname='OnlineBoundedGather2.call.run_and_cleanup', label='OnlineBoundedGather2.call.run_and_cleanup[%s]' % tag,
            extra_inputs={'id': 'int', 'f': 'U', 'EXC_BEFORE': 'U', 'EXC_NOW': 'U', 'PENDING_BEFORE': 'Map[int, U]', 'PENDING_NOW': 'Map[int, U]'}, consts={'NOTHING': NONE_U}, setup=setup,
            # None is the constant const_None of the opaque sort: "no exception stored" is `_exception is None`
            requires=['id in PENDING_BEFORE', 'id in PENDING_NOW', 'implies(not (EXC_BEFORE is None), EXC_NOW == EXC_BEFORE)', 'EXC_NOW != NOTHING and EXC_BEFORE != NOTHING'],
            calls={'with:self._sema': _sema_with(), 'f': f_call, 'sys.exc_info': _exc_info, 'self._shutdown': shutdown, 'asyncio.shield': lambda eng, st, args, kw, node: None,
                   'self._done_event.set': done_set, 'log.info': lambda eng, st, args, kw, node: None},
            ghost_init={'HELD': '0', 'n_calls': '0', 'n_shutdown': '0', 'JOB_VALUE': 'NOTHING', 'JOB_EXC': 'NOTHING', 'JOB_CANCELLED': 'False', 'DONE_SET': 'False', 'last_exc': 'NOTHING', 'EXC_SEEN': 'EXC_BEFORE'},
            ensures=[
                ('holds-nothing-afterwards', 'HELD == 0'),
                ('returns-the-jobs-value-or-none', 'implies(JOB_VALUE != NOTHING, result == JOB_VALUE) and implies(JOB_VALUE == NOTHING, result is None)'),
                ('first-failure-is-stored-and-shuts-the-pool-down', 'implies(JOB_EXC != NOTHING and EXC_SEEN is None, self._exception == JOB_EXC and n_shutdown == 1)'),
                ('later-failures-never-replace-the-first', 'implies(JOB_EXC != NOTHING and not (EXC_SEEN is None), self._exception == EXC_SEEN and n_shutdown == 0)'),
                ('success-and-cancellation-are-not-failures', 'implies(JOB_EXC == NOTHING, self._exception == EXC_SEEN and n_shutdown == 0)'),
                ('the-job-is-no-longer-pending', 'self._pending is None or not (id in self._pending)'),
                ('last-job-out-signals-done', 'implies(not (self._pending is None) and len(self._pending) == 0, DONE_SET)'),
            ],
            raises={}, canaries=[('never-fails', 'JOB_EXC == NOTHING'), ('never-shuts-down', 'n_shutdown == 0')],
        ), 'online-run-and-cleanup-' + tag))

    # -- _shutdown: cancels every unfinished job and closes the pool
    def t_done(eng, st, args, kw, node):
        return eng.uf('task_done', ['U'], 'bool')(to_z3(args[0], 'U'))

    def t_cancelled(eng, st, args, kw, node):
        return eng.uf('task_cancelled', ['U'], 'bool')(to_z3(args[0], 'U'))

    def t_exception(eng, st, args, kw, node):
        # pool jobs are run_and_cleanup coroutines, which never raise (proved above): a finished job has no exception
        return None

    def t_cancel(eng, st, args, kw, node):
        k = st.env['k']
        st.env['CANC'] = z3.Store(st.env['CANC'], k, True)
        return None

    def setup_sd(eng, st):
        st.env['task_done'] = pyvc.SFunc('task_done', lambda e, s, args, kw, node: e.uf('task_done', ['U'], 'bool')(to_z3(args[0], 'U')))
        st.env['ITEMS'] = st.env['self'].fields['_pending'].items

    out.append((Contract(
        path=UTILS, qualname='OnlineBoundedGather2._shutdown', self_fields={'_pending': 'Dict[int, U]', '_done_event': 'U'}, types={'t': 'U', '_': 'int'}, consts={'EMPTYB': z3.K(z3.IntSort(), z3.BoolVal(False))}, setup=setup_sd,
        calls={'.done': t_done, '.cancelled': t_cancelled, '.exception': t_exception, '.cancel': t_cancel, 'self._done_event.set': lambda eng, st, args, kw, node: st.env.__setitem__('DONE_SET', True)},
        ghost_init={'CANC': 'EMPTYB', 'DONE_SET': 'False'},
        loops={0: LoopSpec(index='k', invariants=[('jobs-so-far-finished-or-cancelled', 'forall(lambda j: implies(0 <= j < k, task_done(ITEMS[j][1]) or CANC[j]))')], modifies=['CANC'])},
        ensures=[('every-job-finished-or-cancelled-pool-closed-done-signalled', 'forall(lambda j: implies(0 <= j < len(ITEMS), task_done(ITEMS[j][1]) or CANC[j])) and self._pending is None and DONE_SET')],
        raises={}, canaries=[('cancels-nothing', 'forall(lambda j: not CANC[j])')],
    ), 'online-shutdown'))

    # -- __aexit__: returns / raises only when no job is pending; the first exception wins
    def shutdown2(eng, st, args, kw, node):
        st.env['n_shutdown'] = st.env['n_shutdown'] + 1
        me = st.env['self']
        me.fields['_pending'] = SMap(z3.K(z3.IntSort(), z3.BoolVal(False)), me.fields['_pending'].val, z3.IntVal(0), 'int', 'U')  # None, modelled as the empty map (only its truth value is used here)
        return None

    def wait_done(eng, st, args, kw, node):
        # a suspension: other jobs run.  Rely: the stored first exception never changes once set; whenever jobs are pending the
        # done event is clear (call() clears it, it is set only by the last job out or by shutdown).
        eng.oblige(st, 'waits-without-holding-a-unit', st.env['HELD'] == 0)
        me = st.env['self']
        np_ = pyvc.fresh_value(('map', 'int', 'U'), 'pending_after_wait')
        for w in pyvc.wf_constraints(np_):
            st.assume(w)
        me.fields['_pending'] = np_
        ex0 = me.fields['_exception']
        ex1 = z3.Const(pyvc.fresh_name('exception_after_wait'), U)
        st.assume(z3.Implies(to_z3(ex0, 'U') != z3.Const('const_None', U), ex1 == to_z3(ex0, 'U')))
        st.assume(ex1 != NONE_U)
        me.fields['_exception'] = ex1
        evt = z3.Bool(pyvc.fresh_name('event_is_set'))
        st.assume(z3.Implies(np_.size > 0, z3.Not(evt)))
        st.env['EVT'] = evt
        st.env['n_waits'] = st.env['n_waits'] + 1
        return None

    def without_enter(eng, st, node):
        eng.oblige(st, 'gives-up-a-unit-it-holds', st.env['HELD'] >= 1)
        st.env['HELD'] = st.env['HELD'] - 1
        return [(st, ('value', None))]

    def without_exit(eng, st, exc):
        st.env['HELD'] = st.env['HELD'] + 1  # contract (C) of WithoutSemaphore
        return [(st, None)]

    def setup_exit(eng, st):
        st.env['ENTRY_EXC'] = st.env['self'].fields['_exception']
        st.env['truthy_of'] = pyvc.SFunc('truthy_of', lambda e, s_, args, kw, node: e.uf('truthy', ['U'], 'bool')(to_z3(args[0], 'U')))
        # an exception object is truthy, None is not
        tr = eng.uf('truthy', ['U'], 'bool')
        x = z3.Const('tr_x', U)
        st.assume(z3.Not(tr(z3.Const('const_None', U))))
        st.assume(z3.ForAll([x], z3.Implies(x != z3.Const('const_None', U), tr(x))))

    out.append((Contract(
        path=UTILS, qualname='OnlineBoundedGather2.__aexit__', types={'exc_type': 'U', 'exc_val': 'U', 'exc_tb': 'U'}, self_fields={'_pending': 'Map[int, U]', '_exception': 'U', '_sema': 'U', '_done_event': 'U'},
        consts={'NOTHING': NONE_U}, setup=setup_exit, requires=['self._exception != NOTHING', 'exc_val != NOTHING'],
        calls={'self._shutdown': shutdown2, 'self._done_event.wait': wait_done, 'self._done_event.is_set': lambda eng, st, args, kw, node: st.env['EVT'], 'with:WithoutSemaphore': with_model(without_enter, without_exit),
               'log.info': lambda eng, st, args, kw, node: None},
        ghost_init={'HELD': '1', 'n_shutdown': '0', 'n_waits': '0', 'EVT': 'False'},
        loops={0: LoopSpec(invariants=[('still-holding-its-unit-between-waits', 'HELD == 1 and n_waits >= 1'), ('pending-jobs-keep-the-event-clear', 'implies(len(self._pending) > 0, not EVT)'),
                                       ('first-exception-kept', 'implies(not (ENTRY_EXC is None), self._exception == ENTRY_EXC) and implies(ENTRY_EXC is None and truthy_of(exc_val), self._exception == exc_val) and self._exception != NOTHING')],
                           modifies=['self._pending', 'self._exception', 'EVT', 'n_waits'])},
        ensures=[
            ('returns-only-when-no-job-is-pending', 'len(self._pending) == 0 and n_waits >= 1'),
            ('returns-normally-only-without-a-stored-exception', 'not truthy_of(self._exception)'),
            ('callers-unit-restored', 'HELD == 1'),
        ],
        raises={'*': 'exc == self._exception', 'AssertionError': 'False'},
        on_raise=[('raises-only-when-no-job-is-pending', 'len(self._pending) == 0 and n_waits >= 1'), ('raises-the-first-exception', 'implies(not (ENTRY_EXC is None), exc == ENTRY_EXC) and implies(ENTRY_EXC is None and truthy_of(exc_val), exc == exc_val)'),
                  ('callers-unit-restored-on-errors', 'HELD == 1')],
        canaries=[('never-waits-twice', 'n_waits == 1')],
    ), 'online-aexit'))

    # -- call(): refuses after shutdown
    def setup_call(eng, st):
        st.env['self'] = SRecord('OnlineBoundedGather2', {'_pending': None, '_counter': z3.Int('counter0')})

    out.append((Contract(
        path=UTILS, qualname='OnlineBoundedGather2.call', label='OnlineBoundedGather2.call[after-shutdown]', types={'f': 'U'}, setup=setup_call,
        ensures=[], raises={'PoolShutdownError': True},
    ), 'online-call-after-shutdown'))

    # -- call() on an open pool: the job is registered under a key of its own
    def create_task(eng, st, args, kw, node):
        st.env['n_tasks'] = st.env['n_tasks'] + 1
        return z3.Const('new_task', pyvc.U)

    out.append((Contract(
        path=UTILS, qualname='OnlineBoundedGather2.call', label='OnlineBoundedGather2.call[open]', types={'f': 'U'},
        self_fields={'_pending': 'Map[int, U]', '_counter': 'int', '_done_event': 'U', '_sema': 'U', '_exception': 'U'},
        setup=lambda eng, st: st.env.__setitem__('new_task', z3.Const('new_task', pyvc.U)),
        # representation invariant of the pending table: every key was issued by an earlier call, i.e. lies below the counter
        requires=['forall(lambda k: implies(k in self._pending, 0 <= k < self._counter))', 'self._counter >= 0'],
        ghost_init={'n_tasks': '0', 'n_clear': '0'},
        calls={'asyncio.create_task': create_task, 'run_and_cleanup': lambda eng, st, args, kw, node: z3.Const('coro', pyvc.U),
               'self._done_event.clear': lambda eng, st, args, kw, node: st.env.__setitem__('n_clear', st.env['n_clear'] + 1)},
        ensures=[
            ('registering-a-job-adds-an-entry-and-never-replaces-one', 'len(self._pending) == len(old(self._pending)) + 1'),
            ('every-job-registered-before-is-still-registered-with-its-task', 'forall(lambda k: implies(k in old(self._pending), k in self._pending and self._pending[k] == old(self._pending)[k]))'),
            ('the-new-task-is-registered-and-returned', 'result == new_task and exists(lambda k: k in self._pending and not (k in old(self._pending)) and self._pending[k] == new_task)'),
            ('exactly-one-task-is-started', 'n_tasks == 1'),
            ('the-pool-is-no-longer-done', 'n_clear == 1'),
            ('keys-stay-below-the-counter', 'forall(lambda k: implies(k in self._pending, 0 <= k < self._counter))'),
        ],
        raises={},
        canaries=[('never-registers', 'len(self._pending) == len(old(self._pending))')],
    ), 'online-call-open'))
    return out


SCENARIOS = {
    'run-with-sema': ['parallelism', 'order'], 'run-with-sema-return-exceptions': ['in-place'], 'without-semaphore-enter': ['over-release', 'parallelism'], 'without-semaphore-exit': ['over-release'],
    'gather-return-exceptions': ['in-place', 'order', 'parallelism'], 'gather-raise-exceptions': ['cancel-on-error', 'order', 'parallelism'], 'dispatch': ['in-place', 'cancel-on-error', 'order'], 'bounded-gather': ['parallelism'],
}


def native_witness(ctx):
    script = open(os.path.join(os.path.dirname(__file__), 'native', 'c20_replay.py')).read()
    return core.run_native(script, {}, timeout=300)


def build(ctx):
    script = open(os.path.join(os.path.dirname(__file__), 'native', 'c20_replay.py')).read()
    cache = {}

    def native(which):
        key = tuple(which)
        if key not in cache:
            cache[key] = core.run_native(script, {'which': list(which)}, timeout=240)
        return cache[key]

    for c, label in runners() + without_semaphore() + gathers() + dispatch() + online():
        eng = pyvc.Engine(ctx, c)
        eng.replayer = (lambda which: lambda model, obl: native(which))(SCENARIOS.get(label, ['online']))
        eng.run()
        _strict(ctx, eng, label)
        if label == 'online-call-after-shutdown':
            ctx.add(core.decided('C20/OnlineBoundedGather2.call[after-shutdown]/never-accepts-a-job', eng.normal_exits == 0 and eng.exc_exits >= 1, 'normal exits: %d' % eng.normal_exits))
    ctx.witness_search = lambda: native(['parallelism', 'order', 'in-place', 'cancel-on-error', 'online'])
    ctx.assume('asyncio: one coroutine runs at a time and switches only at await; asyncio.Semaphore units are counted per coroutine by the ghost HELD; `async with sema` acquires on entry (cancellable while waiting) and releases on exit')
    ctx.assume('asyncio.gather(*tasks) awaits all, returns results in argument order or raises the first exception; asyncio.wait(tasks) returns when all are done; a cancelled task that is awaited is finished; create_task schedules the coroutine')
    ctx.assume('precondition of the gathers and of OnlineBoundedGather2: the caller holds one unit of the semaphore it passes (discharged for bounded_gather; hailtop.aiotools.copy enters its semaphore before Copier.copy; other call sites not scanned)')
    ctx.assume('call sites of WithoutSemaphore are verified against its CONTRACT (unit taken back on every exit); the real __aexit__ does not meet it on exceptional exits - recorded known finding')
    ctx.assume('OnlineBoundedGather2: between the await of a job and its cleanup other jobs may have stored the first exception / shut the pool down (rely: the stored exception never changes once set; a job is deregistered only by itself or by shutdown)')
    ctx.undecided('OnlineBoundedGather2.__aexit__ waiting loop and wait(): termination / no task left running depends on asyncio scheduling; observed on the real class: a job cancelled before its first step never deregisters and the exit waits forever (liveness, not expressible as a contract here)')
    ctx.undecided('the order in which the semaphore admits waiting tasks, and fairness')
    ctx.undecided('that every caller of bounded_gather2 in the repository holds a unit of the semaphore it passes')


def thorough(ctx):
    script = open(os.path.join(os.path.dirname(__file__), 'native', 'c20_replay.py')).read()
    r = core.run_native(script, {}, timeout=300)
    if 'error' in r:
        raise core.CheckerBug('native scenario host failed: %r' % (r,))
    ctx.bounded_standin('native-gather-scenarios', 'real hailtop.utils.utils under asyncio: parallelism 1..5, submission order, exceptions in place (CancelledError, ValueError, SystemError), cancel_on_error over 4 submission orders, OnlineBoundedGather2 first-exception and exit', len(r.get('scenarios', [])), not r.get('confirmed'), detail=repr(r) if r.get('confirmed') else '')
