"""C22 - the copy tool reproduces sources exactly (claimed clauses: part tiling, per-part and single-part copy loops, local
multi-part destination, destination rules and documented errors).

Source object = abstract byte sequence of length SIZE.  A *read at offset o of k bytes* denotes src[o, o+k) (assumed contract
of open_from/readexactly, which is what C23 decides); a *write at destination position p* of those bytes makes
dest[p, p+k) = src[o, o+k).  The copy is exact iff every write has o == p, the written ranges tile [0, SIZE) and the
destination holds nothing beyond SIZE.

 (A) SourceCopier._copy_file_multi_part_main: size <= part_size -> one whole-file copy of (srcfile, size, destfile); otherwise
     n_parts = ceil(size / part_size) parts are announced to multi_part_create(destfile) and, for EVERY i in [0, n_parts), part i
     is copied with offset i*part_size and a size such that i*part_size + this_part_size == min((i+1)*part_size, size) > i*part_size
     (adjacent, non-empty, the last one ends at size) - the parts tile [0, size).
 (B) SourceCopier._copy_part (loop contract): the destination part stream is created at part_number*part_size; every chunk is
     read from the source at exactly the position the destination stream stands at and written unchanged; on normal
     completion without a reported error exactly this_part_size bytes were written.
 (C) SourceCopier._copy_file (loop contract): source opened at srcfile, destination created at destfile; chunks are written
     in order exactly as read; returns only at end of file with everything read written.
 (D) local destination: LocalAsyncFS.create truncates; multi_part_create leaves an EMPTY file (whatever was there) and hands
     path and part count to LocalMultiPartCreate; create_part opens without truncating and seeks to `start`.
 (E) destination rules and documented errors: Transfer.__init__, Copier._dest_type, SourceCopier._full_dest,
     copy_as_file / copy_as_dir / copy tails.
 (F) which file a location names: LocalAsyncFS._get_path (a plain path names itself whatever characters it contains, a
     file://[localhost] location loses exactly that prefix) and every LocalAsyncFS operation resolves its location through
     it; hailtop.utils.url_join / url_basename treat a scheme-less location as a path (string contracts, z3 sequences).
 (G) copying a directory (wave 4): the listed prefix is the source plus a trailing slash; files_iterator lists it
     recursively; create_copies - ONE attempt under retry_transient_errors - walks a listing nobody has started to consume,
     returns one copy_source thunk per listed entry in order, and on EVERY exceptional exit leaves no started listing
     behind for the retry (listings are numbered, CONSUMED is the set an `async for` has started on; the iteration itself,
     status() and size() may each fail); copy_source copies a listed file src+REL to url_join(full_dest, REL) exactly once
     (string slicing); the tail of copy_as_dir runs every thunk of the successful attempt.
"""
from __future__ import annotations

import ast as pyast

import z3

from vc import core, pyvc
from vc.pyvc import Contract, Fork, LoopSpec, SExc, SRecord, to_z3, with_model

COPIER = 'hail/python/hailtop/aiotools/fs/copier.py'
LOCAL = 'hail/python/hailtop/aiotools/local_fs.py'
FS = 'hail/python/hailtop/aiotools/fs/fs.py'
ROUTER = 'hail/python/hailtop/aiotools/router_fs.py'
UTILS = 'hail/python/hailtop/utils/utils.py'

NONE_U = z3.Const('nothing', pyvc.U)


def _strict(ctx, eng, label):
    ctx.add(core.decided('C22/%s/no-call-outside-the-contract' % label, not eng.unmodelled, repr(eng.unmodelled), kind='frame'))


def _class_const(path, cls, name):
    """value of the class attribute `cls.name`, evaluated from the class statement of the real source"""
    tree = pyast.parse(core.read_repo(path))
    for n in tree.body:
        if isinstance(n, pyast.ClassDef) and n.name == cls:
            for s in n.body:
                if isinstance(s, pyast.Assign) and len(s.targets) == 1 and isinstance(s.targets[0], pyast.Name) and s.targets[0].id == name:
                    return pyvc._const_eval(s.value, {})
    raise core.Undecided('anchor-moved: %s.%s not found in %s' % (cls, name, path))


def _makedirs_model(eng, st, args, kw, node):
    """makedirs in the missing-parent fallback of a copy.  Between the failed create and this call other copies of the same
    transfer run (awaits in between), so the directory may exist by now: without exist_ok=True the call then raises
    FileExistsError - not a documented error of the copy tool, and the file is not copied although nothing is wrong."""
    ok = kw.get('exist_ok', args[1] if len(args) > 1 else False)
    eng.oblige(st, 'fallback-makedirs-tolerates-a-directory-created-meanwhile', eng.truthy(ok), kind='vc')
    return None


def _is_method(v, name):
    return isinstance(v, tuple) and len(v) == 3 and v[0] == 'boundmethod' and isinstance(v[1], SRecord) and v[2] == name


# ---- (A) part arithmetic ---------------------------------------------------------------------------------------------------


def multi_part_main():
    synth = {}

    def size_of(eng, st, args, kw, node):
        return st.env['SIZE']

    def part_size_of(eng, st, args, kw, node):
        eng.oblige(st, 'part-size-asked-for-the-destination', to_z3(args[0], 'U') == to_z3(st.env['destfile'], 'U'))
        return st.env['PS']

    def retry(eng, st, args, kw, node):
        fn = args[0]
        if _is_method(fn, '_copy_file'):
            st.env['n_single'] = st.env['n_single'] + 1
            eng.oblige(st, 'whole-file-copy-of-this-source-to-this-destination', z3.And(to_z3(args[2], 'U') == to_z3(st.env['srcfile'], 'U'), eng.num(args[3]) == st.env['SIZE'], to_z3(args[4], 'U') == to_z3(st.env['destfile'], 'U'), to_z3(args[1], 'U') == to_z3(st.env['source_report'], 'U')))
            return None
        if _is_method(fn, '_copy_part'):
            # arguments: source_report, part_size, srcfile, part_number, this_part_size, part_creator, return_exceptions
            rep, ps, src, i, tps, creator, rex = args[1:8]
            SIZE, PS = st.env['SIZE'], st.env['PS']
            i, tps, ps = eng.num(i), eng.num(tps), eng.num(ps)
            st.env['n_part_calls'] = st.env['n_part_calls'] + 1
            eng.oblige(st, 'part/copied-with-the-destination-part-size', ps == PS)
            eng.oblige(st, 'part/number-is-the-thunk-index', i == st.env['THUNK_I'])
            eng.oblige(st, 'part/non-empty', tps >= 1)
            eng.oblige(st, 'part/ends-at-next-part-start-or-at-the-end-of-the-file', i * PS + tps == z3.If((i + 1) * PS < SIZE, (i + 1) * PS, SIZE))
            eng.oblige(st, 'part/from-this-source-into-the-announced-multi-part-object', z3.And(to_z3(src, 'U') == to_z3(st.env['srcfile'], 'U'), to_z3(creator, 'U') == to_z3(st.env['CREATOR'], 'U'), to_z3(rep, 'U') == to_z3(st.env['source_report'], 'U')))
            eng.oblige(st, 'part/error-mode-passed-through', eng.truthy(rex) == eng.truthy(st.env['return_exceptions']))
            return None
        eng.oblige(st, 'retry-wraps-a-copy-method', z3.BoolVal(False))
        return None

    def mpc(eng, st, args, kw, node):
        e = z3.Const(pyvc.fresh_name('mpc_exc'), pyvc.U)

        def ok(s):
            s.env['n_mpc_ok'] = s.env['n_mpc_ok'] + 1
            s.env['MPC_N'] = eng.num(args[2])
            s.env['MPC_URL'] = to_z3(args[1], 'U')

        v = z3.Const(pyvc.fresh_name('part_creator'), pyvc.U)

        def ok2(s):
            ok(s)
            s.env['CREATOR'] = v

        raise Fork(node, [('multi-part-object', None, 'value', v, ok2), ('multi-part-create-fails', None, 'raise', SExc(term=e), None)])

    def with_creator(eng, st, node):
        # `async with part_creator:` - the body runs with the multi-part object; __aexit__ does not swallow
        eng.oblige(st, 'parts-are-copied-inside-the-multi-part-context', to_z3(eng.ev(node.items[0].context_expr, st), 'U') == to_z3(st.env['CREATOR'], 'U'))
        return eng.exec_block(node.body, st)

    def gather(eng, st, args, kw, node):
        """assumed contract of bounded_gather2 (decided under C20): every thunk is called exactly once and awaited.
        The thunk list must be `functools.partial(f, i) for i in range(N)`: one arbitrary index stands for all of them."""
        star = [a for a in node.args if isinstance(a, pyast.Starred)]
        ok = len(star) == 1 and len(node.args) == 2 and isinstance(star[0].value, pyast.ListComp)
        lc = star[0].value if ok else None
        ok = ok and len(lc.generators) == 1 and not lc.generators[0].ifs and isinstance(lc.generators[0].target, pyast.Name)
        ok = ok and isinstance(lc.elt, pyast.Call) and pyvc._dotted(lc.elt.func) == 'functools.partial' and len(lc.elt.args) >= 1 and not lc.elt.keywords
        if not ok:
            raise core.Undecided('bounded_gather2 argument list is not a comprehension of functools.partial thunks over one iterable')
        rng = eng.ev(lc.generators[0].iter, st)
        if not (isinstance(rng, tuple) and rng and rng[0] == 'range'):
            raise core.Undecided('thunks are not built over a range')
        n = eng.range_len(rng)
        eng.oblige(st, 'one-thunk-per-announced-part', z3.And(rng[1] == 0, n == st.env['MPC_N']))
        st.env['N_THUNKS'] = n
        key = id(node)
        if key not in synth:
            iname = '__thunk_index__'
            call = pyast.Call(func=lc.elt.args[0], args=[pyast.Name(id=a.id if isinstance(a, pyast.Name) and a.id != lc.generators[0].target.id else iname, ctx=pyast.Load()) if isinstance(a, pyast.Name) else a for a in lc.elt.args[1:]], keywords=[])
            pyast.fix_missing_locations(pyast.copy_location(call, node))
            synth[key] = (call, z3.Int(pyvc.fresh_name('thunk_i')))
        call, ti = synth[key]
        if n is not None:
            st.assume(z3.And(ti >= 0, ti < n))
        st.env['__thunk_index__'] = rng[1] + ti
        st.env['THUNK_I'] = rng[1] + ti
        fn = eng.ev(call.func, st)
        if not (isinstance(fn, tuple) and fn[0] == 'localdef'):
            raise core.Undecided('thunk target is not a nested function')
        st.env['n_gather'] = st.env['n_gather'] + 1
        return eng.call_localdef(fn[1], call, st, allow_async=True)

    makedirs = _makedirs_model

    return Contract(
        path=COPIER,
        qualname='SourceCopier._copy_file_multi_part_main',
        types={'sema': 'U', 'source_report': 'U', 'srcfile': 'U', 'srcstat': 'U', 'destfile': 'U', 'return_exceptions': 'bool'},
        extra_inputs={'SIZE': 'int', 'PS': 'int'},
        requires=['SIZE >= 0', 'PS >= 1'],
        calls={
            'srcstat.size': size_of, 'self.router_fs.copy_part_size': part_size_of, 'retry_transient_errors': retry,
            'self.router_fs.multi_part_create': mpc, 'self.router_fs.makedirs': makedirs, 'os.path.dirname': lambda eng, st, args, kw, node: z3.Const('dirname', pyvc.U),
            'with:part_creator': with_creator, 'bounded_gather2': gather,
        },
        ghost_init={'n_single': '0', 'n_part_calls': '0', 'n_mpc_ok': '0', 'MPC_N': '0 - 1', 'MPC_URL': 'NOTHING', 'CREATOR': 'NOTHING', 'N_THUNKS': '0 - 1', 'THUNK_I': '0 - 1', 'n_gather': '0'},
        consts={'NOTHING': NONE_U},
        ensures=[
            # either route reproduces the source; which sizes take which route is not part of the property
            ('copied-whole-once-or-in-parts-once', '(n_single == 1 and n_gather == 0 and n_mpc_ok == 0) or (n_single == 0 and n_gather == 1 and n_mpc_ok >= 1)'),
            ('in-parts-announced-for-this-destination-with-ceil-size-over-part-size-parts', 'implies(n_gather == 1, MPC_URL == destfile and (MPC_N - 1) * PS < SIZE and SIZE <= MPC_N * PS)'),
            ('in-parts-every-part-index-below-n-parts-is-copied-once', 'implies(n_gather == 1, N_THUNKS == MPC_N and n_part_calls == 1)'),
        ],
        raises={'*': True},
        canaries=[('never-multi-part', 'n_gather == 0'), ('always-multi-part', 'n_single == 0')],
    )



# ---- (B), (C) copy loops ----------------------------------------------------------------------------------------------------


def _io_models(read_kind):
    """models of the stream operations used by the two copy loops.  Ghost state: DPOS (position of the destination stream),
    LAST_B / LAST_OFF / LAST_LEN (the chunk most recently read, the source offset it came from, its length), last_exc."""

    def fail(name):
        return z3.Const(pyvc.fresh_name(name), pyvc.U)

    def write(eng, st, args, kw, node):
        b = args[0]
        eng.oblige(st, 'write/the-chunk-just-read-unchanged', to_z3(b, 'U') == to_z3(st.env['LAST_B'], 'U'))
        eng.oblige(st, 'write/at-the-position-it-was-read-from', st.env['LAST_OFF'] == st.env['DPOS'])
        e = fail('write_exc')
        k = st.env['LAST_LEN']

        def ok(s):
            s.env['DPOS'] = s.env['DPOS'] + k
            s.env['n_writes'] = s.env['n_writes'] + 1
            s.env['LAST_B'] = NONE_U  # a chunk is written once

        raise Fork(node, [('written', None, 'value', k, ok), ('write-fails', None, 'raise', SExc(term=e), lambda s: s.env.__setitem__('last_exc', e))])

    def sem_enter(eng, st, node):
        call = node.items[0].context_expr
        a = eng.ev(call.args[0], st)
        eng.oblige(st, 'transfer-semaphore-weight-within-one-buffer', z3.And(eng.num(a) >= 0, eng.num(a) <= st.env['BUFFER']))
        return [(st, ('value', None))]

    def plain_exit(eng, st, exc):
        return [(st, None)]

    return write, with_model(sem_enter, plain_exit), fail, plain_exit


def copy_part(buffer_size):
    write, sem, fail, plain_exit = _io_models('exact')

    def create_enter(eng, st, node):
        call = node.items[0].context_expr.value
        args = [eng.ev(a, st) for a in call.args]
        ok = st.fork()
        ok.env['n_create'] = ok.env['n_create'] + 1
        ok.env['CR_NUM'], ok.env['CR_START'] = eng.num(args[0]), eng.num(args[1])
        ok.env['DPOS'] = eng.num(args[1])  # assumed contract of MultiPartCreate.create_part: the stream starts at `start` (local FS: (D))
        bad = st.fork()
        e = fail('create_part_exc')
        bad.env['last_exc'] = e
        return [(ok, ('value', z3.Const('dest_part_stream', pyvc.U))), (bad, ('raise', SExc(term=e)))]

    def open_enter(eng, st, node):
        call = node.items[0].context_expr.value
        args = [eng.ev(a, st) for a in call.args]
        kws = {k.arg: eng.ev(k.value, st) for k in call.keywords}
        eng.oblige(st, 'read/from-this-source-file', to_z3(args[0], 'U') == to_z3(st.env['srcfile'], 'U'))
        ok = st.fork()
        ok.env['OPEN_OFF'] = eng.num(args[1])
        L = kws.get('length')
        ok.env['OPEN_LEN'] = eng.num(L) if L is not None else z3.IntVal(-1)
        bad = st.fork()
        e = fail('open_exc')
        bad.env['last_exc'] = e
        return [(ok, ('value', z3.Const('src_stream', pyvc.U))), (bad, ('raise', SExc(term=e)))]

    def readexactly(eng, st, args, kw, node):
        k = eng.num(args[0])
        # assumed contract (decided under C23): a stream opened at offset o with length L hands out src[o, o+k) for k <= L
        eng.oblige(st, 'read/within-the-opened-window', z3.And(k >= 0, z3.Or(st.env['OPEN_LEN'] == -1, k <= st.env['OPEN_LEN'])))
        b = z3.Const(pyvc.fresh_name('chunk'), pyvc.U)
        ln = eng.uf('len_U', ['U'], 'int')
        e = fail('eof_exc')

        def ok(s):
            s.assume(ln(b) == k)
            s.env['LAST_B'], s.env['LAST_OFF'], s.env['LAST_LEN'] = b, s.env['OPEN_OFF'], k

        raise Fork(node, [('read-ok', None, 'value', b, ok), ('read-fails', None, 'raise', SExc(term=e), lambda s: s.env.__setitem__('last_exc', e))])

    def set_exception(eng, st, args, kw, node):
        st.env['REPORTED'] = True
        eng.oblige(st, 'reported-error-is-the-one-that-occurred', to_z3(args[0], 'U') == to_z3(st.env['last_exc'], 'U'))
        return None

    nothing = lambda eng, st, args, kw, node: None  # noqa: E731
    START = 'part_number * part_size'
    return Contract(
        path=COPIER,
        qualname='SourceCopier._copy_part',
        types={'source_report': 'U', 'part_size': 'int', 'srcfile': 'U', 'part_number': 'int', 'this_part_size': 'int', 'part_creator': 'U', 'return_exceptions': 'bool', 'n': 'int'},
        requires=['part_size >= 1', 'part_number >= 0', 'this_part_size >= 1'],
        consts={'NOTHING': NONE_U, 'Copier.BUFFER_SIZE': buffer_size, 'BUFFER': buffer_size},
        calls={
            'with:self.xfer_sema.acquire_manager': sem, 'with:part_creator.create_part': with_model(create_enter, plain_exit),
            'with:self.router_fs.open_from': with_model(open_enter, plain_exit), 'srcf.readexactly': readexactly, 'destf.write': write,
            'source_report.finish_bytes': nothing, 'source_report.timeout': nothing, 'source_report.set_exception': set_exception,
        },
        ghost_init={'n_create': '0', 'CR_NUM': '0 - 1', 'CR_START': '0 - 1', 'DPOS': '0 - 1', 'OPEN_OFF': '0 - 1', 'OPEN_LEN': '0 - 1', 'LAST_B': 'NOTHING', 'LAST_OFF': '0 - 1', 'LAST_LEN': '0',
                    'n_writes': '0', 'REPORTED': 'False', 'last_exc': 'NOTHING'},
        loops={0: LoopSpec(
            invariants=[
                ('remaining-in-range', '0 <= n and n <= this_part_size'),
                ('destination-stands-where-the-source-offset-is', 'DPOS == %s + (this_part_size - n)' % START),
                ('one-part-stream-created-at-the-part-offset', 'n_create == 1 and CR_NUM == part_number and CR_START == %s' % START),
                ('no-error-reported-yet', 'not REPORTED'),
            ],
            modifies=['DPOS', 'OPEN_OFF', 'OPEN_LEN', 'LAST_B', 'LAST_OFF', 'LAST_LEN', 'n_writes', 'last_exc'],
        )},
        ensures=[
            ('whole-part-written-contiguously-from-the-part-offset-unless-an-error-was-reported', 'REPORTED or (n_create == 1 and CR_NUM == part_number and CR_START == %s and DPOS == %s + this_part_size)' % (START, START)),
            ('errors-are-swallowed-only-in-return-exceptions-mode', 'implies(REPORTED, return_exceptions)'),
        ],
        raises={'*': True},
        on_raise=[('raises-the-failing-operations-error-unchanged', 'exc == last_exc'), ('no-error-swallowed-and-reraised', 'not REPORTED')],
        canaries=[('part-could-be-left-short', 'DPOS < %s + this_part_size' % START), ('always-reports', 'REPORTED')],
    )


def copy_file(buffer_size):
    write, sem, fail, plain_exit = _io_models('any')

    def open_enter(eng, st, node):
        call = node.items[0].context_expr.value
        args = [eng.ev(a, st) for a in call.args]
        eng.oblige(st, 'source-opened-at-srcfile', to_z3(args[0], 'U') == to_z3(st.env['srcfile'], 'U'))
        ok = st.fork()
        ok.env['RPOS'] = z3.IntVal(0)
        ok.env['n_open'] = ok.env['n_open'] + 1
        bad = st.fork()
        e = fail('open_exc')
        bad.env['last_exc'] = e
        return [(ok, ('value', z3.Const('src_stream', pyvc.U))), (bad, ('raise', SExc(term=e)))]

    def create(eng, st, args, kw, node):
        eng.oblige(st, 'destination-created-at-destfile', to_z3(args[0], 'U') == to_z3(st.env['destfile'], 'U'))
        e = fail('create_exc')
        cm = z3.Const(pyvc.fresh_name('dest_cm'), pyvc.U)

        def ok(s):
            s.env['n_created'] = s.env['n_created'] + 1
            s.env['DEST_CM'] = cm

        raise Fork(node, [('created', None, 'value', cm, ok), ('create-fails', None, 'raise', SExc(term=e), lambda s: s.env.__setitem__('last_exc', e))])

    def dest_enter(eng, st, node):
        eng.oblige(st, 'writes-go-to-the-stream-created-last', to_z3(eng.ev(node.items[0].context_expr, st), 'U') == to_z3(st.env['DEST_CM'], 'U'))
        st.env['DPOS'] = z3.IntVal(0)  # assumed contract of AsyncFS.create: a new, empty object written from position 0 (local FS: (D))
        return [(st, ('value', z3.Const('dest_stream', pyvc.U)))]

    def read(eng, st, args, kw, node):
        k = eng.num(args[0])
        eng.oblige(st, 'read/positive-request', k >= 1)
        # assumed contract of ReadableStream.read(k), k > 0: the next m bytes, 0 <= m <= k, m == 0 exactly at end of file
        b = z3.Const(pyvc.fresh_name('chunk'), pyvc.U)
        m = z3.Int(pyvc.fresh_name('m'))
        ln = eng.uf('len_U', ['U'], 'int')
        tr = eng.uf('truthy', ['U'], 'bool')
        e = fail('read_exc')

        def ok(s):
            s.assume(z3.And(m >= 0, m <= k, m <= s.env['SRC_LEN'] - s.env['RPOS'], (m == 0) == (s.env['RPOS'] == s.env['SRC_LEN']), ln(b) == m, tr(b) == (m > 0)))
            s.env['LAST_B'], s.env['LAST_OFF'], s.env['LAST_LEN'] = b, s.env['RPOS'], m
            s.env['RPOS'] = s.env['RPOS'] + m

        raise Fork(node, [('read-ok', None, 'value', b, ok), ('read-fails', None, 'raise', SExc(term=e), lambda s: s.env.__setitem__('last_exc', e))])

    nothing = lambda eng, st, args, kw, node: None  # noqa: E731
    return Contract(
        path=COPIER,
        qualname='SourceCopier._copy_file',
        types={'source_report': 'U', 'srcfile': 'U', 'size': 'int', 'destfile': 'U'},
        extra_inputs={'SRC_LEN': 'int', 'ENDS_SLASH': 'bool'},
        requires=['SRC_LEN >= 0', 'size >= 0', 'not ENDS_SLASH'],
        consts={'NOTHING': NONE_U, 'Copier.BUFFER_SIZE': buffer_size, 'BUFFER': buffer_size},
        calls={
            'destfile.endswith': lambda eng, st, args, kw, node: st.env['ENDS_SLASH'],
            'with:self.xfer_sema.acquire_manager': sem, 'with:self.router_fs.open': with_model(open_enter, plain_exit), 'self.router_fs.create': create,
            'self.router_fs.makedirs': _makedirs_model, 'os.path.dirname': lambda eng, st, args, kw, node: z3.Const('dirname', pyvc.U), 'with:dest_cm': with_model(dest_enter, plain_exit),
            'srcf.read': read, 'destf.write': write, 'source_report.finish_bytes': nothing,
        },
        ghost_init={'n_open': '0', 'n_created': '0', 'DEST_CM': 'NOTHING', 'RPOS': '0 - 1', 'DPOS': '0 - 2', 'LAST_B': 'NOTHING', 'LAST_OFF': '0 - 1', 'LAST_LEN': '0', 'n_writes': '0', 'last_exc': 'NOTHING'},
        loops={0: LoopSpec(
            invariants=[
                ('everything-read-is-written', 'DPOS == RPOS and 0 <= RPOS and RPOS <= SRC_LEN'),
                ('one-source-one-destination', 'n_open == 1 and n_created >= 1'),
            ],
            modifies=['DPOS', 'RPOS', 'LAST_B', 'LAST_OFF', 'LAST_LEN', 'n_writes', 'last_exc'],
        )},
        ensures=[('returns-only-at-end-of-file-with-every-byte-written-in-order', 'n_open == 1 and DPOS == SRC_LEN and RPOS == SRC_LEN')],
        raises={'*': True},
        on_raise=[('raises-the-failing-operations-error-unchanged', 'exc == last_exc')],
        canaries=[('could-stop-early', 'DPOS < SRC_LEN')],
    )



# ---- (D) local multi-part destination -----------------------------------------------------------------------------------------


def _local_models():
    """builtin open() through blocking_to_async, on ONE abstract file (the destination path): ghost FLEN = its length (-1: does
    not exist yet), POS = position of the handle opened last.  Assumed contract of open(): 'w' modes create/truncate (length 0,
    position 0); 'r+' keeps the content (position 0, file must exist); 'a' keeps the content (position = length); 'x' creates."""

    def path_of(eng, st, args, kw, node):
        return eng.uf('path_of', ['U'], 'U')(to_z3(args[0], 'U'))

    def b2a(eng, st, args, kw, node):
        fn = args[1]
        if isinstance(fn, pyvc.SDotted) and fn.name == 'open':
            path, mode = args[2], (args[3] if len(args) > 3 else kw.get('mode', 'r'))
            if not isinstance(mode, str):
                raise core.Undecided('open() with a computed mode')
            h = z3.Const(pyvc.fresh_name('handle'), pyvc.U)
            st.env['OPEN_PATH'] = to_z3(path, 'U')
            st.env['OPEN_MODE_WRITABLE'] = any(c in mode for c in 'wa+x')
            st.env['n_open'] = st.env['n_open'] + 1
            st.env['HANDLE'] = h
            if 'w' in mode:
                st.env['FLEN'], st.env['POS'] = z3.IntVal(0), z3.IntVal(0)
            elif 'a' in mode:
                st.env['FLEN'] = z3.If(st.env['FLEN'] < 0, 0, st.env['FLEN'])
                st.env['POS'] = st.env['FLEN']
            elif 'x' in mode:
                st.env['FLEN'], st.env['POS'] = z3.IntVal(0), z3.IntVal(0)
            else:
                st.env['POS'] = z3.IntVal(0)
            return h
        if isinstance(fn, tuple) and fn and fn[0] == 'boundmethod' and fn[2] in ('close', 'flush'):
            return None
        if isinstance(fn, pyvc.SDotted) and fn.name == 'os.open':
            return os_open(eng, st, args[2:], kw, node)
        if isinstance(fn, pyvc.SDotted) and fn.name == 'os.close':
            return None
        raise core.Undecided('blocking_to_async of %r' % (fn,))

    def os_open(eng, st, args, kw, node):
        # os.open(path, flags[, mode]): assumed POSIX contract - the content is kept unless O_TRUNC is among the flags
        import os as _os

        flags = args[1]
        if not isinstance(flags, int):
            raise core.Undecided('os.open with computed flags')
        st.env['OPEN_PATH'] = to_z3(args[0], 'U')
        st.env['OPEN_MODE_WRITABLE'] = bool(flags & (_os.O_WRONLY | _os.O_RDWR))
        st.env['n_open'] = st.env['n_open'] + 1
        h = z3.Const(pyvc.fresh_name('fd'), pyvc.U)
        st.env['HANDLE'] = h
        if flags & _os.O_TRUNC:
            st.env['FLEN'] = z3.IntVal(0)
        elif flags & _os.O_CREAT:
            st.env['FLEN'] = z3.If(st.env['FLEN'] < 0, 0, st.env['FLEN'])
        st.env['POS'] = z3.IntVal(0)
        return h

    def seek(eng, st, args, kw, node):
        st.env['POS'] = eng.num(args[0])
        st.env['n_seek'] = st.env['n_seek'] + 1
        return st.env['POS']

    def wrap(eng, st, args, kw, node):
        st.env['WRAPPED'] = to_z3(args[1], 'U')
        return z3.Const(pyvc.fresh_name('writable_stream'), pyvc.U)

    ghost = {'FLEN': 'FLEN0', 'POS': '0 - 1', 'OPEN_PATH': 'NOTHING', 'OPEN_MODE_WRITABLE': 'False', 'n_open': '0', 'n_seek': '0', 'HANDLE': 'NOTHING', 'WRAPPED': 'NOTHING'}
    return path_of, b2a, seek, wrap, ghost, os_open


def local_contracts():
    path_of, b2a, seek, wrap, ghost, os_open = _local_models()
    cast = lambda eng, st, args, kw, node: args[1]  # noqa: E731
    base_calls = {'self._get_path': path_of, 'blocking_to_async': b2a, 'blocking_writable_stream_to_async': wrap, 'cast': cast, 'os.open': os_open, 'os.close': lambda eng, st, args, kw, node: None}
    create = Contract(
        path=LOCAL, qualname='LocalAsyncFS.create', types={'url': 'U', 'retry_writes': 'bool', '._thread_pool': 'U'}, extra_inputs={'FLEN0': 'int'}, requires=['FLEN0 >= 0 - 1'],
        consts={'NOTHING': NONE_U}, calls=dict(base_calls), ghost_init=dict(ghost), spec_funcs={'path_of': (['U'], 'U')},
        ensures=[('a-new-empty-file-at-the-path-of-the-url-written-from-position-zero', 'n_open == 1 and OPEN_PATH == path_of(url) and FLEN == 0 and POS == 0 and OPEN_MODE_WRITABLE and WRAPPED == HANDLE')],
        raises={}, canaries=[('old-content-kept', 'FLEN == FLEN0')],
    )

    def create_enter(eng, st, node):
        call = node.items[0].context_expr.value
        a = eng.ev(call.args[0], st)
        st.env['n_create'] = st.env['n_create'] + 1
        st.env['CREATE_URL'] = to_z3(a, 'U')
        st.env['FLEN'] = z3.IntVal(0)  # contract of LocalAsyncFS.create (above)
        return [(st, ('value', z3.Const('created_stream', pyvc.U)))]

    def mk_creator(eng, st, args, kw, node):
        st.env['n_creator'] = st.env['n_creator'] + 1
        st.env['CR_FS'], st.env['CR_PATH'], st.env['CR_N'] = z3.BoolVal(args[0] is st.env.get('self')), to_z3(args[1], 'U'), eng.num(args[2])
        return z3.Const(pyvc.fresh_name('local_mpc'), pyvc.U)

    g2 = dict(ghost, n_create='0', CREATE_URL='NOTHING', n_creator='0', CR_FS='False', CR_PATH='NOTHING', CR_N='0 - 1')
    mpc = Contract(
        path=LOCAL, qualname='LocalAsyncFS.multi_part_create', types={'sema': 'U', 'url': 'U', 'num_parts': 'int', '._thread_pool': 'U'}, extra_inputs={'FLEN0': 'int'}, requires=['FLEN0 >= 0 - 1'],
        consts={'NOTHING': NONE_U}, spec_funcs={'path_of': (['U'], 'U')},
        calls=dict(base_calls, **{'with:self.create': with_model(create_enter, lambda eng, st, exc: [(st, None)]), 'LocalMultiPartCreate': mk_creator}),
        ghost_init=g2,
        ensures=[
            ('destination-file-is-empty-before-any-part-is-written-whatever-was-there', 'FLEN == 0'),
            ('parts-object-for-the-path-of-this-url-and-this-many-parts', 'n_creator == 1 and CR_FS and CR_PATH == path_of(url) and CR_N == num_parts'),
            ('only-this-destination-is-touched', 'implies(n_create > 0, CREATE_URL == url) and implies(n_open > 0, OPEN_PATH == path_of(url))'),
        ],
        raises={}, canaries=[('old-content-kept', 'FLEN == FLEN0')],
    )
    part = Contract(
        path=LOCAL, qualname='LocalMultiPartCreate.create_part', types={'number': 'int', 'start': 'int', 'size_hint': 'int', '._thread_pool': 'U'}, extra_inputs={'FLEN0': 'int'},
        self_fields={'_fs': 'U', '_path': 'U', '_num_parts': 'int'}, requires=['FLEN0 >= 0', 'start >= 0'],
        consts={'NOTHING': NONE_U}, calls=dict(base_calls, **{'f.seek': seek}), ghost_init=dict(ghost),
        ensures=[
            ('opens-the-multi-part-file-without-truncating-and-positions-at-start', 'n_open == 1 and OPEN_PATH == self._path and FLEN == FLEN0 and POS == start and OPEN_MODE_WRITABLE and WRAPPED == HANDLE'),
            ('part-number-announced', '0 <= number and number < self._num_parts'),
        ],
        raises={'AssertionError': 'number < 0 or number >= self._num_parts'}, canaries=[('truncates', 'FLEN == 0'), ('always-at-zero', 'POS == 0')],
    )
    return [(create, 'local-create'), (mpc, 'local-multi-part-create'), (part, 'local-create-part')]



# ---- (E) destination rules and documented errors --------------------------------------------------------------------------------


def _rule_consts():
    c = {'D': _class_const(COPIER, 'Transfer', 'DEST_DIR'), 'T': _class_const(COPIER, 'Transfer', 'DEST_IS_TARGET'), 'I': _class_const(COPIER, 'Transfer', 'INFER_DEST'),
         'DIR': _class_const(FS, 'AsyncFS', 'DIR'), 'FILE': _class_const(FS, 'AsyncFS', 'FILE')}
    c.update({'Transfer.DEST_DIR': c['D'], 'Transfer.DEST_IS_TARGET': c['T'], 'Transfer.INFER_DEST': c['I'], 'AsyncFS.DIR': c['DIR'], 'AsyncFS.FILE': c['FILE'], 'NOTHING': NONE_U})
    return c


def _uf_model(name, n):
    return lambda eng, st, args, kw, node: eng.uf(name, ['U'] * n, 'U')(*[to_z3(a, 'U') for a in args[-n:]])


SPEC_FUNCS = {'url_join': (['U', 'U'], 'U'), 'url_basename': (['U'], 'U'), 'rstrip_slash': (['U'], 'U')}


def rule_contracts():
    K = _rule_consts()
    out = []
    # -- Transfer.__init__
    out.append((Contract(
        path=COPIER, qualname='Transfer.__init__', types={'src': 'U', 'dest': 'U', 'treat_dest_as': 'U'}, extra_inputs={'SRC_IS_LIST': 'bool', 'ENDS_SLASH': 'bool'}, consts=K,
        calls={'isinstance': lambda eng, st, args, kw, node: st.env['SRC_IS_LIST'], 'dest.endswith': lambda eng, st, args, kw, node: st.env['ENDS_SLASH']},
        ensures=[
            ('source-and-destination-kept', 'self.src == src and self.dest == dest'),
            ('a-trailing-slash-means-copy-into-the-directory-otherwise-the-mode-is-kept', 'self.treat_dest_as == (D if (old(treat_dest_as) == I and ENDS_SLASH) else old(treat_dest_as))'),
            ('mode-is-one-of-the-three', 'self.treat_dest_as == D or self.treat_dest_as == T or self.treat_dest_as == I'),
            ('several-sources-never-go-onto-one-exact-target', 'not (self.treat_dest_as == T and SRC_IS_LIST)'),
        ],
        raises={'ValueError': 'not (old(treat_dest_as) == D or old(treat_dest_as) == T or old(treat_dest_as) == I)', 'NotADirectoryError': 'old(treat_dest_as) == T and SRC_IS_LIST'},
        canaries=[('mode-never-changes', 'self.treat_dest_as == old(treat_dest_as)')],
    ), 'transfer-init'))

    # -- Copier._dest_type
    def staturl(eng, st, args, kw, node):
        eng.oblige(st, 'the-destination-itself-is-examined', to_z3(args[0], 'U') == eng.attr_of_U(st.env['transfer'], 'dest'))
        v = z3.Const(pyvc.fresh_name('stat_type'), pyvc.U)
        e = z3.Const(pyvc.fresh_name('stat_exc'), pyvc.U)

        def ok(s):
            s.env['FOUND'], s.env['STATV'] = True, v

        raise Fork(node, [('exists', None, 'value', v, ok), ('missing', None, 'raise', SExc('FileNotFoundError'), None), ('stat-fails', z3.Not(eng.isinst_pred(e, 'FileNotFoundError')), 'raise', SExc(term=e), lambda s: s.env.__setitem__('last_exc', e))])

    direct = '(transfer.treat_dest_as == D or SRC_IS_LIST or ENDS_SLASH)'
    out.append((Contract(
        path=COPIER, qualname='Copier._dest_type', types={'transfer': 'U', '.treat_dest_as': 'U', '.src': 'U', '.dest': 'U'}, extra_inputs={'SRC_IS_LIST': 'bool', 'ENDS_SLASH': 'bool'}, consts=K,
        calls={'isinstance': lambda eng, st, args, kw, node: st.env['SRC_IS_LIST'], '.endswith': lambda eng, st, args, kw, node: st.env['ENDS_SLASH'], 'self.router_fs.staturl': staturl},
        ghost_init={'FOUND': 'False', 'STATV': 'NOTHING', 'last_exc': 'NOTHING'},
        ensures=[
            ('into-mode-several-sources-or-trailing-slash-mean-directory', 'implies(%s, result == DIR and not FOUND)' % direct),
            ('otherwise-the-real-type-of-an-existing-destination', 'implies(not %s and FOUND, result == STATV)' % direct),
            ('otherwise-none-for-a-missing-destination', 'implies(not %s and not FOUND, result is None)' % direct),
        ],
        raises={'AssertionError': 'transfer.treat_dest_as == T', '*': 'exc == last_exc'},
        canaries=[('always-directory', 'result == DIR')],
    ), 'dest-type'))

    # -- SourceCopier._full_dest
    def await_hook(eng, st, args, kw, node):
        # `await self.dest_type_task`: the (real or assumed) type computed by Copier._dest_type
        st.env['AWAITED'] = True
        return st.env['DT']

    into = "(self.treat_dest_as == D or (self.treat_dest_as == I and HAS_TASK and DT == DIR))"
    out.append((Contract(
        path=COPIER, qualname='SourceCopier._full_dest', self_fields={'dest_type_task': 'U', 'treat_dest_as': 'U', 'dest': 'U', 'src': 'U'}, extra_inputs={'DT': 'U', 'HAS_TASK': 'bool', 'ENDS_SLASH': 'bool'},
        consts=K, spec_funcs=SPEC_FUNCS,
        requires=['HAS_TASK == truthy_of(self.dest_type_task)'],
        setup=lambda eng, st: st.env.__setitem__('truthy_of', pyvc.SFunc('truthy_of', lambda e, s, args, kw, node: e.uf('truthy', ['U'], 'bool')(to_z3(args[0], 'U')))),
        calls={'await': await_hook, 'url_join': _uf_model('url_join', 2), 'url_basename': _uf_model('url_basename', 1), '.rstrip': _uf_model('rstrip_slash', 1) if False else (lambda eng, st, args, kw, node: eng.uf('rstrip_slash', ['U'], 'U')(to_z3(args[0], 'U'))),
               '.endswith': lambda eng, st, args, kw, node: st.env['ENDS_SLASH']},
        ghost_init={'AWAITED': 'False'},
        ensures=[
            ('copy-into-a-directory-goes-to-dest-slash-basename-of-source', 'implies(%s, result[0] == url_join(self.dest, url_basename(rstrip_slash(self.src))) and result[1] is None)' % into),
            ('otherwise-the-destination-itself-is-the-target', 'implies(not %s, result[0] == self.dest)' % into),
            ('exact-target-with-trailing-slash-is-a-directory', 'implies(not %s and self.treat_dest_as == T and ENDS_SLASH, result[1] == DIR)' % into),
            ('otherwise-the-known-type-of-the-destination', 'implies(not %s and not (self.treat_dest_as == T and ENDS_SLASH), (HAS_TASK and result[1] == DT) or (not HAS_TASK and result[1] is None))' % into),
            ('the-destination-type-is-awaited-whenever-there-is-one', 'AWAITED == HAS_TASK'),
        ],
        raises={}, canaries=[('never-into', 'result[0] == self.dest')],
    ), 'full-dest'))
    return out



def flow_contracts():
    K = _rule_consts()
    out = []

    # -- SourceCopier.copy_as_file: when is a source copied as a file, to where, and which documented errors
    def statfile(eng, st, args, kw, node):
        eng.oblige(st, 'the-source-itself-is-examined', to_z3(args[0], 'U') == to_z3(st.env['self'].fields['src'], 'U'))
        v = z3.Const('src_stat', pyvc.U)
        e = z3.Const(pyvc.fresh_name('stat_exc'), pyvc.U)
        raise Fork(node, [('is-a-file', None, 'value', v, lambda s: s.env.__setitem__('STAT_OK', True)), ('no-such-file', None, 'raise', SExc('FileNotFoundError'), None),
                          ('stat-fails', z3.Not(eng.isinst_pred(e, 'FileNotFoundError')), 'raise', SExc(term=e), lambda s: s.env.__setitem__('last_exc', e))])

    def release(eng, st, args, kw, node):
        st.env['n_release'] = st.env['n_release'] + 1
        return None

    def barrier_wait(eng, st, args, kw, node):
        # the other half (copy_as_dir) has released the barrier: its verdict is in place (rely: src_is_dir is set before its release)
        eng.oblige(st, 'waits-only-after-releasing-its-own-half', st.env['n_release'] == 1)
        st.env['self'].fields['src_is_dir'] = st.env['SRC_IS_DIR']
        return None

    def full_dest(eng, st, args, kw, node):
        return (st.env['FULL_DEST'], st.env['FDT'])

    def copy_call(eng, st, args, kw, node):
        st.env['n_copy'] = st.env['n_copy'] + 1
        eng.oblige(st, 'the-source-file-is-copied-to-the-full-destination', z3.And(to_z3(args[2], 'U') == to_z3(st.env['self'].fields['src'], 'U'), to_z3(args[3], 'U') == z3.Const('src_stat', pyvc.U), to_z3(args[4], 'U') == to_z3(st.env['FULL_DEST'], 'U'),
                                                                                     eng.truthy(args[5]) == eng.truthy(st.env['return_exceptions'])))
        return None

    nothing = lambda eng, st, args, kw, node: None  # noqa: E731

    def setup_file(eng, st):
        st.env['source_report'] = SRecord('SourceReport', {'_source_type': None})
        st.env['self'].fields['src_is_file'] = None  # as SourceCopier.__init__ leaves it

    out.append((Contract(
        path=COPIER, qualname='SourceCopier.copy_as_file', types={'sema': 'U', 'return_exceptions': 'bool'}, self_fields={'src': 'U', 'src_is_dir': 'bool', 'router_fs': 'U', 'barrier': 'U'},
        extra_inputs={'SRC_ENDS_SLASH': 'bool', 'SRC_IS_DIR': 'bool', 'FULL_DEST': 'U', 'FDT': 'U'}, consts=K, setup=setup_file,
        calls={'src.endswith': lambda eng, st, args, kw, node: st.env['SRC_ENDS_SLASH'], 'self.router_fs.statfile': statfile, 'self.release_barrier': release, 'self.barrier.wait': barrier_wait,
               'self._full_dest': full_dest, 'source_report.start_files': nothing, 'source_report.start_bytes': nothing, 'srcstat.size': lambda eng, st, args, kw, node: z3.Int('src_size'), 'self._copy_file_multi_part': copy_call},
        ghost_init={'STAT_OK': 'False', 'n_release': '0', 'n_copy': '0', 'last_exc': 'NOTHING'},
        ensures=[
            ('its-half-of-the-barrier-released-exactly-once', 'n_release == 1'),
            ('a-source-with-trailing-slash-is-never-a-file', 'implies(SRC_ENDS_SLASH, n_copy == 0 and self.src_is_file is None)'),
            ('a-missing-file-is-recorded-and-nothing-is-copied', 'implies(not SRC_ENDS_SLASH and not STAT_OK, n_copy == 0 and self.src_is_file == False)'),
            ('an-existing-file-not-also-a-directory-not-onto-a-directory-is-copied-once', 'implies(STAT_OK, self.src_is_file == True and not SRC_IS_DIR and FDT != DIR and n_copy == 1 and source_report._source_type == FILE)'),
        ],
        raises={'FileAndDirectoryError': 'STAT_OK and SRC_IS_DIR', 'IsADirectoryError': 'STAT_OK and not SRC_IS_DIR and FDT == DIR', '*': 'exc == last_exc'},
        on_raise=[('barrier-released-exactly-once-on-errors-too', 'n_release == 1'), ('nothing-copied-when-an-error-is-raised', 'n_copy == 0')],
        canaries=[('never-copies', 'n_copy == 0')],
    ), 'copy-as-file'))

    # -- SourceCopier.copy_as_dir: the error checks between the barrier and the copies (fragment)
    def setup_dir(eng, st):
        st.env['source_report'] = SRecord('SourceReport', {'_source_type': None})
        st.env['self'] = SRecord('SourceCopier', {'src': z3.Const('in_self.src', pyvc.U), 'dest': z3.Const('in_self.dest', pyvc.U), 'treat_dest_as': z3.Const('in_self.treat_dest_as', pyvc.U), 'src_is_file': st.env['SRC_IS_FILE'], 'src_is_dir': True})

    out.append((Contract(
        path=COPIER, qualname='SourceCopier.copy_as_dir', label='SourceCopier.copy_as_dir[checks]', fragment=('re:^if self\\.src_is_file', 're:^if full_dest_type'),
        extra_inputs={'SRC_IS_FILE': 'bool', 'FULL_DEST': 'U', 'FDT': 'U'}, consts=K, setup=setup_dir,
        calls={'self._full_dest': full_dest},
        ensures=[('a-directory-not-also-a-file-not-onto-a-file-goes-on-to-the-copies', 'not SRC_IS_FILE and FDT != FILE and source_report._source_type == DIR and full_dest == FULL_DEST')],
        raises={'FileAndDirectoryError': 'SRC_IS_FILE', 'NotADirectoryError': 'not SRC_IS_FILE and FDT == FILE'},
        canaries=[('always-raises-for-files', 'FDT == DIR')],
    ), 'copy-as-dir-checks'))

    # -- SourceCopier.copy: outcome after both halves ran (fragment after the gather)
    for tag, val in (('never-examined', None), ('not-a-file', False), ('is-a-file', True)):
        def setup_copy(eng, st, val=val):
            st.env['self'] = SRecord('SourceCopier', {'src': z3.Const('in_self.src', pyvc.U), 'src_is_file': val, 'src_is_dir': st.env['IS_DIR'], 'pending': z3.IntVal(0)})

        missing = 'not IS_DIR and (SRC_ENDS_SLASH or %s)' % (val is False)
        out.append((Contract(
            path=COPIER, qualname='SourceCopier.copy', label='SourceCopier.copy[missing-source,%s]' % tag, fragment=('re:^if .*self\\.src_is_file', 1),
            extra_inputs={'IS_DIR': 'bool', 'SRC_ENDS_SLASH': 'bool'}, consts=K, setup=setup_copy,
            # the function's own assert: a source is left unexamined as a file exactly when it has a trailing slash
            requires=['SRC_ENDS_SLASH == %s' % (val is None)],
            calls={'self.src.endswith': lambda eng, st, args, kw, node: st.env['SRC_ENDS_SLASH']},
            ensures=[('returns-normally-only-if-the-source-exists-as-file-or-directory', 'not (%s)' % missing)],
            raises={'FileNotFoundError': missing},
            canaries=[('never-a-directory', 'not IS_DIR')],
        ), 'copy-missing-source-' + tag))
    return out


def _part_sizes(ctx):
    """precondition PS >= 1 of (A), discharged where part sizes come from: every copy_part_size under hailtop returns a positive
    integer constant or forwards to another copy_part_size"""
    import os
    n = 0
    root = os.path.join(core.REPO, 'hail/python/hailtop')
    for d, _, files in os.walk(root):
        for f in files:
            if not f.endswith('.py'):
                continue
            path = os.path.join(d, f)
            src = open(path).read()
            if 'def copy_part_size' not in src:
                continue
            for node in pyast.walk(pyast.parse(src)):
                if isinstance(node, pyast.FunctionDef) and node.name == 'copy_part_size':
                    n += 1
                    rets = [x for x in pyast.walk(node) if isinstance(x, pyast.Return)]
                    ok = bool(rets)
                    why = []
                    for r in rets:
                        try:
                            v = pyvc._const_eval(r.value, {})
                            good = isinstance(v, int) and not isinstance(v, bool) and v >= 1
                        except Exception:
                            good = isinstance(r.value, pyast.Call) and isinstance(r.value.func, pyast.Attribute) and r.value.func.attr == 'copy_part_size'
                        ok = ok and good
                        why.append(pyast.unparse(r))
                    ctx.add(core.decided('C22/copy_part_size/positive/%s:%d' % (os.path.relpath(path, core.REPO), node.lineno), ok, '; '.join(why)))
    ctx.add(core.decided('C22/copy_part_size/found', n >= 2, '%d definitions' % n))


def router_contracts():
    """RouterAsyncFS forwards create / multi_part_create / open / open_from to the file system of the url with the arguments unchanged"""
    out = []

    def get_fs(eng, st, args, kw, node):
        eng.oblige(st, 'file-system-chosen-by-this-url', to_z3(args[0], 'U') == to_z3(st.env['url'], 'U'))
        return z3.Const('routed_fs', pyvc.U)

    def fwd(names):
        def model(eng, st, args, kw, node):
            st.env['n_fwd'] = st.env['n_fwd'] + 1
            vals = list(args) + [kw[k] for k in sorted(kw)]
            want = [st.env[n] for n in names]
            eng.oblige(st, 'arguments-forwarded-unchanged', z3.And(z3.BoolVal(len(vals) == len(want)), *[eng.equal(a, b) for a, b in zip(vals, want)]) if len(vals) == len(want) else z3.BoolVal(False))
            v = z3.Const(pyvc.fresh_name('fwd_result'), pyvc.U)
            st.env['FWD'] = v
            return v
        return model

    for q, names, types in (('create', ['url', 'retry_writes'], {'url': 'U', 'retry_writes': 'bool'}), ('multi_part_create', ['sema', 'url', 'num_parts'], {'sema': 'U', 'url': 'U', 'num_parts': 'int'})):
        out.append((Contract(path=ROUTER, qualname='RouterAsyncFS.' + q, types=types, consts={'NOTHING': NONE_U}, calls={'self._get_fs': get_fs, 'fs.' + q: fwd(names)},
                             ghost_init={'n_fwd': '0', 'FWD': 'NOTHING'}, ensures=[('one-forwarded-call-whose-result-is-returned', 'n_fwd == 1 and result == FWD')], raises={}, canaries=[('never-forwards', 'n_fwd == 0')]), 'router-' + q))
    return out


# ---- (G) copying a directory: the listing, one copy per listed file, the path of each file below the source ------------------------


def _dir_scan(ctx):
    """facts of SourceCopier.copy_as_dir decided on its AST: the listing made for the is-it-a-directory test is handed to
    the first create_copies attempt UNCONSUMED (outside create_copies the variable is only ever assigned a new listing), and
    create_copies / copy_source are used in no other way than the contracts below assume"""
    tree = pyast.parse(core.read_repo(COPIER))
    fn = pyvc.find_function(tree, 'SourceCopier.copy_as_dir')
    inner = {n.name: n for n in pyvc._direct_defs(fn)}
    for need in ('files_iterator', 'copy_source', 'create_copies'):
        if need not in inner:
            raise core.Undecided('anchor-moved: SourceCopier.copy_as_dir.%s not found' % need)
    in_cc = {id(x) for x in pyast.walk(inner['create_copies'])}
    outside = [x for x in pyast.walk(fn) if id(x) not in in_cc]
    loads = [x for x in outside if isinstance(x, pyast.Name) and x.id == 'srcentries' and isinstance(x.ctx, pyast.Load)]
    stores = []
    for x in outside:
        tgt = None
        if isinstance(x, pyast.Assign) and len(x.targets) == 1:
            tgt, val = x.targets[0], x.value
        elif isinstance(x, pyast.AnnAssign) and x.value is not None:
            tgt, val = x.target, x.value
        if tgt is not None and isinstance(tgt, pyast.Name) and tgt.id == 'srcentries':
            stores.append(pyast.unparse(val))
    other_stores = [x for x in outside if isinstance(x, pyast.Name) and x.id == 'srcentries' and isinstance(x.ctx, (pyast.Store, pyast.Del))]
    ok = not loads and stores and all(v == 'await files_iterator()' for v in stores) and len(other_stores) == len(stores)
    ctx.add(core.decided('C22/SourceCopier.copy_as_dir/the-listing-of-the-directory-test-reaches-the-first-attempt-unconsumed', bool(ok), 'loads outside create_copies: %d; assigned from: %s' % (len(loads), stores)))
    # create_copies runs only under retry_transient_errors; copy_source only as the thunk target
    uses_cc = [x for x in outside if isinstance(x, pyast.Name) and x.id == 'create_copies']
    calls_cc = [x for x in outside if isinstance(x, pyast.Call) and pyvc._dotted(x.func) == 'retry_transient_errors' and len(x.args) == 1 and isinstance(x.args[0], pyast.Name) and x.args[0].id == 'create_copies']
    ctx.add(core.decided('C22/SourceCopier.copy_as_dir/create_copies-runs-only-as-the-retried-attempt', len(uses_cc) == len(calls_cc) == 1, '%d uses, %d retried calls' % (len(uses_cc), len(calls_cc))))
    in_cs = {id(x) for x in pyast.walk(inner['copy_source'])}
    fd_stores = [x for x in pyast.walk(fn) if isinstance(x, pyast.Name) and x.id in ('full_dest', 'src') and isinstance(x.ctx, (pyast.Store, pyast.Del)) and (id(x) in in_cs or id(x) in in_cc)]
    ctx.add(core.decided('C22/SourceCopier.copy_as_dir/source-and-destination-are-not-rebound-by-the-nested-functions', not fd_stores, '%d' % len(fd_stores)))


def dir_contracts():
    out = []
    strm = _str_models()

    # -- the source location the listing is made of: self.src with exactly one trailing slash added when it has none
    def setup_src(eng, st):
        st.env['self'] = SRecord('SourceCopier', {'src': st.env['SELF_SRC']})

    out.append((Contract(
        path=COPIER, qualname='SourceCopier.copy_as_dir', label='SourceCopier.copy_as_dir[source-prefix]', fragment=('re:^src = self\\.src$', 're:^if not src\\.endswith'), strings=True,
        extra_inputs={'SELF_SRC': 'str'}, setup=setup_src, calls=dict(strm),
        ensures=[('the-listed-prefix-is-the-source-with-a-trailing-slash', "src.endswith('/') and (src == SELF_SRC or src == SELF_SRC + '/')")],
        raises={}, canaries=[('never-adds-a-slash', 'src == SELF_SRC')],
    ), 'copy-as-dir-source-prefix'))

    # -- files_iterator: a RECURSIVE listing of that prefix
    def listfiles(eng, st, args, kw, node):
        rec = kw.get('recursive', args[1] if len(args) > 1 else False)
        eng.oblige(st, 'the-source-directory-is-listed-recursively', z3.And(to_z3(args[0], 'U') == to_z3(st.env['src'], 'U'), eng.truthy(rec)))
        st.env['n_listed'] = st.env['n_listed'] + 1
        return z3.Const('the_listing', pyvc.U)

    out.append((Contract(
        path=COPIER, qualname='SourceCopier.copy_as_dir.files_iterator', extra_inputs={'src': 'U'}, consts={'NOTHING': NONE_U}, calls={'self.router_fs.listfiles': listfiles},
        ghost_init={'n_listed': '0'}, ensures=[('one-recursive-listing-of-the-source-is-returned', 'n_listed == 1 and result == LISTING')], raises={},
        setup=lambda eng, st: st.env.__setitem__('LISTING', z3.Const('the_listing', pyvc.U)), canaries=[('lists-nothing', 'n_listed == 0')],
    ), 'copy-as-dir-files-iterator'))

    # -- create_copies: one attempt (it runs under retry_transient_errors).  Listings are numbered: the one handed over by the
    #    directory test is #1, every call of files_iterator() makes a new one; CONSUMED = those an `async for` has started on.
    def mk_create_copies(tag, first):
        def fail(name):
            return z3.Const(pyvc.fresh_name(name), pyvc.U)

        def consumed(eng, s, args, kw, node):
            return z3.BoolVal(False) if args[0] is None else z3.Select(s.env['CONSUMED'], eng.num(args[0]))

        def setup(eng, st):
            st.env['srcentries'] = z3.IntVal(1) if first else None
            st.env['CONSUMED'] = z3.K(z3.IntSort(), z3.BoolVal(False))
            st.env['consumed'] = pyvc.SFunc('consumed', consumed)

        def files_iterator(eng, st, args, kw, node):
            e = fail('listing_exc')
            new = eng.num(st.env['NEXT_ID'])

            def ok(s):
                s.env['NEXT_ID'] = s.env['NEXT_ID'] + 1
                s.env['n_listed'] = s.env['n_listed'] + 1

            raise Fork(node, [('listed', None, 'value', new, ok), ('listing-fails', None, 'raise', SExc(term=e), lambda s: s.env.__setitem__('last_exc', e))])

        def iterate(eng, st, args, kw, node):
            it = args[0]
            entry = eng.uf('entry', ['int', 'int'], 'U')
            if isinstance(it, int) and not isinstance(it, bool):
                it = z3.IntVal(it)
            if it is None or not (isinstance(it, z3.ExprRef) and z3.is_int(it)):
                eng.oblige(st, 'the-loop-runs-over-a-listing', z3.BoolVal(False))
                return pyvc.SList(z3.IntVal(0), z3.K(z3.IntSort(), NONE_U), 'U')
            eng.oblige(st, 'every-attempt-walks-a-listing-nobody-has-started-to-consume', z3.Not(z3.Select(st.env['CONSUMED'], it)))
            st.env['CONSUMED'] = z3.Store(st.env['CONSUMED'], it, z3.BoolVal(True))
            st.env['WALKED'] = it
            st.env['n_walks'] = st.env['n_walks'] + 1
            n = eng.uf('listing_len', ['int'], 'int')(it)
            st.assume(n >= 0)
            j = z3.Int(pyvc.fresh_name('lj'))
            e = fail('next_entry_exc')

            def fails(s):
                s.env['last_exc'] = e
                return SExc(term=e)

            return (pyvc.SList(n, z3.Lambda([j], entry(it, j)), 'U'), fails)

        def status(eng, st, args, kw, node):
            e = fail('status_exc')
            v = z3.Const(pyvc.fresh_name('entry_status'), pyvc.U)
            raise Fork(node, [('status', None, 'value', v, None), ('status-fails', None, 'raise', SExc(term=e), lambda s: s.env.__setitem__('last_exc', e))])

        def size(eng, st, args, kw, node):
            v = z3.Int(pyvc.fresh_name('entry_size'))
            st.assume(v >= 0)
            return v

        def partial(eng, st, args, kw, node):
            eng.oblige(st, 'the-thunk-copies-the-entry-with-copy_source', z3.BoolVal(isinstance(args[0], pyvc.SDotted) and args[0].name == 'copy_source' and len(args) == 2 and not kw))
            return eng.uf('thunk_of', ['U'], 'U')(to_z3(args[1], 'U'))

        left = 'srcentries is None or not consumed(srcentries)'
        every = 'forall(lambda j: implies(0 <= j and j < %s, %s[j] == thunk_of(entry(WALKED, j))))'
        return Contract(
            path=COPIER, qualname='SourceCopier.copy_as_dir.create_copies', label='SourceCopier.copy_as_dir.create_copies[%s]' % tag, setup=setup, consts={'NOTHING': NONE_U},
            types={'copy_thunks': 'List[U]', 'srcentry': 'U'}, spec_funcs={'entry': (['int', 'int'], 'U'), 'thunk_of': (['U'], 'U'), 'listing_len': (['int'], 'int')},
            calls={'files_iterator': files_iterator, 'iter:srcentries': iterate, 'srcentry.status': status, '.size': size, 'functools.partial': partial},
            ghost_init={'NEXT_ID': '2', 'n_listed': '0', 'n_walks': '0', 'WALKED': '0', 'last_exc': 'NOTHING'},
            loops={0: LoopSpec(index='k', invariants=[
                ('one-thunk-per-entry-handed-out-so-far-in-listing-order', 'len(copy_thunks) == k and ' + every % ('k', 'copy_thunks')),
                ('sizes-add-up-to-a-count', 'bytes_to_copy >= 0'),
            ], modifies=['last_exc'])},
            ensures=[
                ('one-copy-for-every-file-of-one-complete-listing-in-listing-order', 'n_walks == 1 and len(result[0]) == listing_len(WALKED) and ' + every % ('len(result[0])', 'result[0]')),
                ('the-listing-walked-was-handed-over-unconsumed-or-made-by-this-attempt', 'WALKED == 1 or (2 <= WALKED and WALKED < NEXT_ID)' if first else '2 <= WALKED and WALKED < NEXT_ID'),
            ],
            raises={'*': 'exc == last_exc'},
            on_raise=[('a-failed-attempt-leaves-no-started-listing-behind-for-the-retry', left)],
            canaries=[('walks-no-listing', 'n_walks == 0'), ('copies-nothing', 'len(result[0]) == 0')],
        )

    out.append((mk_create_copies('first-attempt', True), 'create-copies-first-attempt'))
    out.append((mk_create_copies('retry', False), 'create-copies-retry'))

    # -- copy_source: the copy of ONE listed entry.  Assumed contract of listfiles(src, recursive=True) for a src that ends in
    #    '/': the name of an entry is src followed by its path REL below src, and REL does not start with '/'
    def url_of(eng, st, args, kw, node):
        return st.env['SRCFILE']

    def status1(eng, st, args, kw, node):
        return z3.Const('this_entry_status', pyvc.U)

    def join(eng, st, args, kw, node):
        return eng.uf('url_join_rel', ['U', 'str'], 'U')(to_z3(args[0], 'U'), eng.pystr(args[1]))

    def copy_call(eng, st, args, kw, node):
        st.env['n_copy'] = st.env['n_copy'] + 1
        sema, rep, srcfile, stat, dest, rex = args[:6]
        eng.oblige(st, 'the-listed-file-itself-is-the-source', z3.And(eng.pystr(srcfile) == st.env['SRCFILE'], to_z3(stat, 'U') == z3.Const('this_entry_status', pyvc.U)))
        eng.oblige(st, 'copied-to-the-destination-joined-with-its-path-below-the-source', to_z3(dest, 'U') == eng.uf('url_join_rel', ['U', 'str'], 'U')(to_z3(st.env['full_dest'], 'U'), st.env['REL']))
        eng.oblige(st, 'semaphore-report-and-error-mode-passed-through', z3.And(to_z3(sema, 'U') == to_z3(st.env['sema'], 'U'), to_z3(rep, 'U') == to_z3(st.env['source_report'], 'U'), eng.truthy(rex) == eng.truthy(st.env['return_exceptions'])))
        return None

    out.append((Contract(
        path=COPIER, qualname='SourceCopier.copy_as_dir.copy_source', types={'srcentry': 'U'}, strings=True,
        extra_inputs={'src': 'str', 'REL': 'str', 'SRCFILE': 'str', 'full_dest': 'U', 'sema': 'U', 'source_report': 'U', 'return_exceptions': 'bool'},
        requires=["src.endswith('/')", 'SRCFILE == src + REL', "not REL.startswith('/')"],
        calls=dict(strm, **{'srcentry.url_maybe_trailing_slash': url_of, 'srcentry.url': url_of, 'srcentry.status': status1, 'url_join': join, 'self._copy_file_multi_part': copy_call}),
        ghost_init={'n_copy': '0'},
        ensures=[
            ('a-listed-name-ending-in-a-slash-is-no-file-and-is-skipped', "implies(SRCFILE.endswith('/'), n_copy == 0)"),
            ('every-other-listed-file-is-copied-exactly-once', "implies(not SRCFILE.endswith('/'), n_copy == 1)"),
        ],
        raises={}, canaries=[('copies-every-entry', 'n_copy == 1'), ('copies-nothing', 'n_copy == 0')],
    ), 'copy-as-dir-copy-source'))

    # -- the tail of copy_as_dir: the thunks of the (retried) attempt are ALL run
    def retry(eng, st, args, kw, node):
        eng.oblige(st, 'the-attempt-is-retried-as-a-whole', z3.BoolVal(len(args) == 1 and isinstance(args[0], pyvc.SDotted) and args[0].name == 'create_copies' and not kw))
        st.env['n_attempts'] = st.env['n_attempts'] + 1
        return (st.env['COPIES'], st.env['BYTES'])

    def gather(eng, st, args, kw, node):
        star = [a for a in node.args if isinstance(a, pyast.Starred)]
        ok = len(node.args) == 2 and len(star) == 1 and not isinstance(node.args[0], pyast.Starred)
        if ok:
            v = eng.ev(star[0].value, st)
            ok = isinstance(v, pyvc.SList) and v is st.env['COPIES']
            ok = ok and to_z3(eng.ev(node.args[0], st), 'U').eq(to_z3(st.env['sema'], 'U'))
        eng.oblige(st, 'every-thunk-of-the-attempt-is-run', z3.BoolVal(bool(ok)))
        st.env['n_gather'] = st.env['n_gather'] + 1
        return None

    def start_files(eng, st, args, kw, node):
        eng.oblige(st, 'files-announced-are-the-thunks', eng.num(args[0]) == st.env['COPIES'].len)
        return None

    out.append((Contract(
        path=COPIER, qualname='SourceCopier.copy_as_dir', label='SourceCopier.copy_as_dir[run-the-copies]', fragment=('re:^copies, bytes_to_copy = ', 're:^await bounded_gather2'),
        extra_inputs={'COPIES': 'List[U]', 'BYTES': 'int', 'sema': 'U', 'source_report': 'U'},
        calls={'retry_transient_errors': retry, 'bounded_gather2': gather, 'source_report.start_files': start_files, 'source_report.start_bytes': lambda eng, st, args, kw, node: None},
        ghost_init={'n_attempts': '0', 'n_gather': '0'},
        ensures=[('one-successful-attempt-whose-thunks-are-all-run-once', 'n_attempts == 1 and n_gather == 1')], raises={},
        canaries=[('never-runs-them', 'n_gather == 0')],
    ), 'copy-as-dir-run-the-copies'))
    return out


# ---- (F) which file a location names: LocalAsyncFS._get_path ---------------------------------------------------------------------


def _str_models():
    """str.startswith / str.endswith on string terms (contracts with strings=True), as z3 prefix / suffix predicates"""

    def startswith(eng, st, args, kw, node):
        return z3.PrefixOf(eng.pystr(args[1]), eng.pystr(args[0]))

    def endswith(eng, st, args, kw, node):
        return z3.SuffixOf(eng.pystr(args[1]), eng.pystr(args[0]))

    return {'.startswith': startswith, '.endswith': endswith}


# assumed contract of urllib.parse.urlparse (CPython) for a url without ASCII control characters / leading blanks:
#   url == [scheme ':'] ['//' netloc] path [(';' | '?' | '#') rest]      (the scheme comes back lower-cased: same length)
# PATH is what `.path` returns, REST everything from the first of ; ? # that urlparse splits off (params, query, fragment).
# Only the scheme-less, authority-less instance is stated (the others are not needed by any obligation and string
# hypotheses are expensive): url == PATH + REST
URLPARSE_INPUTS = {'SCHEME': 'str', 'NETLOC': 'str', 'PATH': 'str', 'REST': 'str', 'PARAMS': 'str', 'QUERY': 'str', 'FRAGMENT': 'str'}
URLPARSE_REQUIRES = [
    "implies(SCHEME == '' and NETLOC == '', url == PATH + REST)",
    "REST == '' or REST.startswith(';') or REST.startswith('?') or REST.startswith('#')",
]


def _urlparse_model(eng, st, args, kw, node):
    eng.oblige(st, 'the-location-itself-is-parsed', eng.equal(args[0], st.env['url']))
    st.env['n_parsed'] = st.env['n_parsed'] + 1
    return SRecord('ParseResult', {'scheme': st.env['SCHEME'], 'netloc': st.env['NETLOC'], 'path': st.env['PATH'], 'params': st.env['PARAMS'], 'query': st.env['QUERY'], 'fragment': st.env['FRAGMENT']})


def get_path_contracts():
    """LocalAsyncFS._get_path: the file a location names.  Local paths are not URLs: every character after the optional
    file://[localhost] prefix belongs to the file name - also ';', '?' and '#', which a URL parser splits off."""
    local = "(SCHEME == '' or SCHEME == 'file') and (NETLOC == '' or NETLOC == 'localhost')"
    c = Contract(
        path=LOCAL, qualname='LocalAsyncFS._get_path', types={'url': 'str'}, extra_inputs=dict(URLPARSE_INPUTS), requires=list(URLPARSE_REQUIRES), strings=True,
        calls=dict(_str_models(), **{'urllib.parse.urlparse': _urlparse_model, 'urlparse': _urlparse_model}),
        ghost_init={'n_parsed': '0'},
        ensures=[
            ('a-plain-path-names-itself-whatever-characters-it-contains', "implies(SCHEME == '' and NETLOC == '', result == url)"),
            ('a-file-url-loses-exactly-its-scheme', "implies(SCHEME == 'file' and NETLOC == '' and url.startswith('file://'), 'file://' + result == url)"),
            ('a-file-url-loses-exactly-its-scheme-and-the-local-authority', "implies(SCHEME == 'file' and NETLOC == 'localhost' and url.startswith('file://localhost'), 'file://localhost' + result == url)"),
            ('only-local-locations-are-answered', local),
        ],
        raises={'ValueError': 'not (%s)' % local},
        canaries=[('only-the-parsed-path-component', 'result == PATH'), ('never-strips-anything', 'result == url')],
    )
    return [(c, 'local-get-path')]


def url_helper_contracts():
    """hailtop.utils.url_join / url_basename, through which the copy tool builds `dest/basename(src)` and `dest/relative-path`:
    a location without a scheme is a local path and is joined / basenamed as a path, whatever characters it contains
    (genuine defect fixed in /repo 107e6cea0: both went through urlparse().path and dropped / moved everything after the
    first ';', '?' or '#' of a directory name).  os.path.join / os.path.basename are uninterpreted (the same symbols in code
    and specification)."""

    def uf_str(name, n):
        return lambda eng, st, args, kw, node: eng.uf(name, ['str'] * n, 'str')(*[eng.pystr(a) for a in args[-n:]])

    def replace(eng, st, args, kw, node):
        rec = st.env['parsed'].clone()
        for k_, v_ in kw.items():
            rec.fields[k_] = v_
        return rec

    def unparse(eng, st, args, kw, node):
        r = args[0]
        if not isinstance(r, SRecord):
            raise core.Undecided('urlunparse of %r' % (r,))
        return eng.uf('urlunparse', ['str'] * 6, 'str')(*[eng.pystr(r.fields[k_]) for k_ in ('scheme', 'netloc', 'path', 'params', 'query', 'fragment')])

    base = dict(_str_models(), **{'urllib.parse.urlparse': _urlparse_model, 'urlparse': _urlparse_model, 'os.path.join': uf_str('os_path_join', 2), 'os.path.basename': uf_str('os_path_basename', 1),
                                  'parsed._replace': replace, 'urllib.parse.urlunparse': unparse, 'urlunparse': unparse})
    out = []
    out.append((Contract(
        path=UTILS, qualname='url_join', types={'url': 'str', 'path': 'str'}, extra_inputs=dict(URLPARSE_INPUTS), requires=list(URLPARSE_REQUIRES), strings=True, calls=dict(base),
        spec_funcs={'os_path_join': (['str', 'str'], 'str')}, ghost_init={'n_parsed': '0'},
        ensures=[('a-plain-path-is-joined-as-a-path-whatever-characters-it-contains', "implies(SCHEME == '', result == os_path_join(url, path))")],
        raises={}, canaries=[('joined-onto-the-parsed-path-component-only', "result == os_path_join(PATH, path)")],
    ), 'url-join'))
    out.append((Contract(
        path=UTILS, qualname='url_basename', types={'url': 'str'}, extra_inputs=dict(URLPARSE_INPUTS), requires=list(URLPARSE_REQUIRES), strings=True, calls=dict(base),
        spec_funcs={'os_path_basename': (['str'], 'str')}, ghost_init={'n_parsed': '0'},
        ensures=[('a-plain-path-has-the-basename-of-the-path-whatever-characters-it-contains', "implies(SCHEME == '', result == os_path_basename(url))")],
        raises={}, canaries=[('basename-of-the-parsed-path-component-only', "result == os_path_basename(PATH)")],
    ), 'url-basename'))
    return out


def _local_ops_resolve_through_get_path(ctx):
    """every operation of LocalAsyncFS that is given a location (`url` parameter) resolves it with self._get_path(url) - the
    function (F) is about - before it touches the file system, and hands `url` itself to no os / open call"""
    tree = pyast.parse(core.read_repo(LOCAL))
    cls = next((n for n in tree.body if isinstance(n, pyast.ClassDef) and n.name == 'LocalAsyncFS'), None)
    if cls is None:
        raise core.Undecided('anchor-moved: class LocalAsyncFS not found')
    pure = {'valid_url', 'schemes', 'copy_part_size', '_get_path', 'parse_url'}
    n = 0
    for f in cls.body:
        if not isinstance(f, (pyast.FunctionDef, pyast.AsyncFunctionDef)) or f.name in pure:
            continue
        if 'url' not in [a.arg for a in f.args.posonlyargs + f.args.args + f.args.kwonlyargs]:
            continue
        if not any(isinstance(x, pyast.Name) and x.id in ('os', 'open', 'shutil') for b_ in f.body for x in pyast.walk(b_)):
            continue  # does not touch the file system itself (hands the location on)
        n += 1
        calls = [c for c in pyast.walk(f) if isinstance(c, pyast.Call)]
        resolved = any(pyvc._dotted(c.func) in ('self._get_path', 'LocalAsyncFS._get_path') and len(c.args) == 1 for c in calls)
        delegated = any(isinstance(c.func, pyast.Attribute) and isinstance(c.func.value, pyast.Name) and c.func.value.id == 'self' and any(isinstance(a, pyast.Name) and a.id == 'url' for a in c.args) for c in calls)
        raw = [pyast.unparse(c) for c in calls if (pyvc._dotted(c.func) or '').split('.')[0] in ('os', 'open', 'blocking_to_async', 'shutil') and any(isinstance(a, pyast.Name) and a.id == 'url' for a in c.args)]
        ctx.add(core.decided('C22/LocalAsyncFS.%s/location-resolved-through-_get_path' % f.name, (resolved or delegated) and not raw, 'resolved=%s delegated=%s raw=%s' % (resolved, delegated, raw)))
    ctx.add(core.decided('C22/LocalAsyncFS/operations-with-a-location-found', n >= 8, '%d' % n))


def native_witness(ctx):
    import os
    script = open(os.path.join(os.path.dirname(__file__), 'native', 'c22_replay.py')).read()
    return core.run_native(script, {}, timeout=300)


def build(ctx):
    c = multi_part_main()
    eng = pyvc.Engine(ctx, c)
    eng.run()
    _strict(ctx, eng, 'multi-part-main')
    buf = _class_const(COPIER, 'Copier', 'BUFFER_SIZE')
    ctx.add(core.decided('C22/Copier.BUFFER_SIZE/positive', isinstance(buf, int) and buf >= 1, repr(buf)))
    for c, label in ((copy_part(buf), 'copy-part'), (copy_file(buf), 'copy-file')):
        eng = pyvc.Engine(ctx, c)
        eng.run()
        _strict(ctx, eng, label)
    _part_sizes(ctx)
    for c, label in local_contracts() + router_contracts() + rule_contracts() + flow_contracts() + get_path_contracts() + url_helper_contracts() + dir_contracts():
        eng = pyvc.Engine(ctx, c)
        eng.run()
        _strict(ctx, eng, label)
    _local_ops_resolve_through_get_path(ctx)
    _dir_scan(ctx)
    _links_are_followed(ctx)
    import os
    script = open(os.path.join(os.path.dirname(__file__), 'native', 'c22_replay.py')).read()
    ctx.witness_search = lambda: core.run_native(script, {}, timeout=300)
    ctx.assume('a read of k bytes from a stream opened at offset o (length >= k) returns src[o, o+k) or raises (the contract C23 decides for the local, GCS, S3 and Azure streams); ReadableStream.read(k>0) returns b"" only at end of file')
    ctx.assume('WritableStream.write(b) appends all of b at the stream position and returns len(b) (the code asserts the count); a part stream obtained from MultiPartCreate.create_part(number, start) starts at `start` (proved for the local file system in (D); cloud back ends assumed)')
    ctx.assume('bounded_gather2 calls and awaits every thunk exactly once (claimed under C20); retry_transient_errors re-runs the whole idempotent copy of a file / part (C21)')
    ctx.assume('builtin open(): "w" modes truncate, "r+" and "a" keep the content, "r+" starts at 0 (CPython semantics); one abstract destination file, no concurrent writer of the same destination other than the parts of this copy')
    ctx.assume('asyncio: the two halves copy_as_file / copy_as_dir of a source meet at the barrier; each has recorded its verdict before releasing (rely used at barrier.wait())')
    ctx.assume('string operations endswith("/"), rstrip("/"), url_join, url_basename are uninterpreted functions (the same symbols in code and specification)')
    ctx.assume('urllib.parse.urlparse(url) for a url without scheme and authority: url == .path + rest, where rest is empty or starts with one of ; ? # (params / query / fragment); only .scheme and .netloc are otherwise used by the code under contract')
    ctx.assume('AsyncFS.listfiles(src, recursive=True) for src ending in "/": hands out every regular file below src exactly once, named src + REL with REL not starting with "/" (copy_source asserts both); the walk itself (LocalAsyncFS._listfiles_recursive, an async generator over os.scandir) is not under contract')
    ctx.assume('retry_transient_errors(create_copies) calls create_copies again only after the previous call raised, never concurrently, and returns the result of the first call that returns (C21); os.path.join / os.path.basename are uninterpreted')
    ctx.undecided('byte contents themselves (positions and lengths are tracked, data is abstract); the directory walk (which entries a recursive listing hands out); bytes_to_copy (progress report only)')
    ctx.undecided('file:// locations whose path contains ; ? #: url_join / url_basename still go through urlparse for locations WITH a scheme (the part after the delimiter ends up behind the joined path); observation only: LocalAsyncFS._get_path("file:/tmp/x") == "mp/x" and _get_path("//localhost/tmp/x") == "st/tmp/x" (prefix length computed from "file://" + netloc although the text has no "//" / an extra "//") - both outside the antecedents of the _get_path postconditions (plain paths, file://[localhost]/...)')
    ctx.undecided('task interleavings beyond the barrier rely; error aggregation in CopyReport / TransferReport; _copy_one_transfer / _copy dispatch over lists of transfers')
    ctx.undecided('cloud multi-part uploads (S3 / GCS compose / Azure block lists): only the local MultiPartCreate is under contract')


def _links_are_followed(ctx):
    """the local file system decides "file or directory" and reads sizes through symbolic links everywhere (listing entries,
    statfile, staturl, isfile / isdir): the copier's verdicts (which sources are directories, whether the destination exists as
    a directory) and the listing contract assumed above ("every regular file below src") talk about the files the paths DENOTE.
    One query that looks at the link itself (lstat, follow_symlinks=False, islink) makes a linked directory a "file" for that
    query only.  Decided on the AST of local_fs.py."""
    import ast as pyast

    tree = pyast.parse(core.read_repo('hail/python/hailtop/aiotools/local_fs.py'))
    bad = []
    # the deleting operations are not part of a copy and legitimately look at the link itself (rmtree removes a link, not its target)
    deleting = {'rmtree', 'remove', 'rmdir'}
    nodes = []
    for top in tree.body:
        if isinstance(top, pyast.ClassDef):
            for m in top.body:
                if not (isinstance(m, (pyast.FunctionDef, pyast.AsyncFunctionDef)) and m.name in deleting):
                    nodes.extend(pyast.walk(m))
        else:
            nodes.extend(pyast.walk(top))
    for n in nodes:
        # a reference is enough: the functions are often handed to the thread pool (blocking_to_async(pool, os.stat, path))
        if isinstance(n, pyast.Attribute) and n.attr in ('lstat', 'islink', 'is_symlink', 'readlink'):
            bad.append('L%d %s' % (n.lineno, pyast.unparse(n)))
        if isinstance(n, pyast.Call):
            f = pyast.unparse(n.func)
            for k in n.keywords:
                if k.arg in ('follow_symlinks', 'followlinks') and not (isinstance(k.value, pyast.Constant) and k.value.value is True):
                    bad.append('L%d %s(%s=%s)' % (n.lineno, f, k.arg, pyast.unparse(k.value)))
    ctx.add(core.decided('C22/LocalAsyncFS/file-or-directory-and-sizes-are-decided-through-symbolic-links-in-every-non-deleting-operation', not bad, repr(bad), kind='scan'))


def thorough(ctx):
    """bounded cross-check on the real classes (never counted as proved): native scenarios for several part / buffer sizes"""
    import os
    script = open(os.path.join(os.path.dirname(__file__), 'native', 'c22_replay.py')).read()
    total = 0
    bad = None
    for part, buf in ((16, 5), (16, 16), (8, 3), (7, 7), (32, 9), (5, 11)):
        r = core.run_native(script, {'part_size': part, 'buffer': buf}, timeout=600)
        if r.get('confirmed'):
            bad = dict(r, part_size=part, buffer=buf)
            break
        if 'error' in r:
            raise core.CheckerBug('native scenario host failed: %r' % (r,))
        total += r.get('scenarios', 0)
    ctx.bounded_standin('native-copy-scenarios', 'real Copier + LocalAsyncFS on temporary files: 14 sizes around part/buffer boundaries x 5 pre-existing destination states x 3 modes, 5 tree layouts, 6 layouts with ; ? # in file / directory names (plain and file:// locations) + 1 single file, 4 directory copies with one injected transient error (status / listing), 4 documented errors, for 6 (part size, buffer size) pairs', total, bad is None, detail=repr(bad) if bad else '')
