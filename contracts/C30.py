"""C30 - CI merges only fully tested, approved, current PRs.

Contracts on ci/ci/github.py (real source, re-read on every run):

 (a) PR.is_up_to_date: True only if the PR has a batch and that batch's recorded target_sha is the target branch's current
     sha; never True while the target sha is unknown (None) - a batch always records a known target sha.
 (b) PR.is_mergeable: True only if review_state == 'approved', at least one check is reported and every reported check is
     SUCCESS, the PR is up to date (a), and it carries no do-not-merge label.  With the representation invariant
         J:  build_state == 'success'  =>  batch is not None and that batch completed successfully
     a SUCCESS of CI's own status context implies (the code asserts build_state == 'success') that the *current* batch
     succeeded, and (a) says that batch ran against the target branch's current commit.
 (c) J is maintained: PR._update_batch sets build_state 'success' only together with the batch whose status is complete and
     'success' (loop contract over the batch listing); PR.update_from_gh_json drops batch, sha and build state when the head
     commit changes (and never keeps them for a new head); PR._start_build resets batch and build state before anything
     else (statement-order obligation) and on failure records 'error'; no other statement sets build_state 'success'.
 (d) WatchedBranch.try_to_merge: merge is requested only for a PR whose is_mergeable() just returned True, at most one merge
     succeeds per call, and after a successful merge the branch sha is forgotten (so by (a) no PR is up to date until the
     new head has been read and a new batch has run against it) and a refresh from GitHub is scheduled.
 (e) PR.merge asks GitHub to merge exactly source_sha (GitHub refuses if the head moved).
"""
from __future__ import annotations

import ast as pyast
import os

import z3

from vc import core, pyvc
from vc.pyvc import Contract, Fork, Ghost, LoopSpec, SExc, SRecord, to_z3

PATH = 'ci/ci/github.py'
BATCH_T = pyvc.rec_type(target_sha='U')
SUCCESS = pyvc.SDotted('GithubStatus.SUCCESS')
CTX = z3.Const('const_GITHUB_STATUS_CONTEXT', pyvc.U)
NONE = z3.Const('const_None', pyvc.U)

PR_FIELDS = {'review_state': 'U', 'last_known_github_status': 'Map[U, U]', 'labels': 'Map[U, bool]', 'batch': 'U', 'build_state': 'U', 'source_sha': 'U', 'sha': 'U', 'source_sha_failed': 'U', 'number': 'int', 'target_branch': 'U'}


def _strict(ctx, eng, label):
    ctx.add(core.decided('C30/%s/no-call-outside-the-contract' % label, not eng.unmodelled, repr(eng.unmodelled), kind='frame'))


def _tb(st):
    """the target branch as a record the executor tracks"""
    return SRecord('WatchedBranch', {'sha': z3.Const('tb_sha', pyvc.U), 'batch_changed': z3.Bool('tb_bc'), 'state_changed': z3.Bool('tb_sc')})


def up_to_date():
    def setup(eng, st):
        st.env['self'].fields['target_branch'] = _tb(st)

    return Contract(
        path=PATH,
        qualname='PR.is_up_to_date',
        types={'.attributes': BATCH_T, 'result': 'bool'},
        self_fields={'batch': 'U', 'target_branch': 'U'},
        setup=setup,
        requires=["implies(self.batch is not None, self.batch.attributes['target_sha'] is not None)"],
        ensures=[
            ('true-only-with-a-batch-run-against-the-current-target-commit', "implies(result, self.batch is not None and self.batch.attributes['target_sha'] == self.target_branch.sha)"),
            ('never-while-the-target-commit-is-unknown', 'implies(self.target_branch.sha is None, not result)'),
        ],
        raises={},
        canaries=[('never-up-to-date', 'not result')],
    )


def mergeable():
    def setup(eng, st):
        st.env['self'].fields['target_branch'] = _tb(st)
        st.env['GITHUB_STATUS_CONTEXT'] = CTX

    def utd(eng, st, args, kw, node):
        r = z3.Bool(pyvc.fresh_name('utd'))
        st.env['UTD'] = r
        st.env['n_utd'] = st.env['n_utd'] + 1
        return r

    return Contract(
        path=PATH,
        qualname='PR.is_mergeable',
        types={'result': 'bool'},
        self_fields=PR_FIELDS,
        setup=setup,
        spec_funcs={'succeeded': (['U'], 'bool')},
        requires=["implies(self.build_state == 'success', self.batch is not None and succeeded(self.batch))"],
        calls={'self.is_up_to_date': utd},
        ghost_init={'UTD': 'False', 'n_utd': '0'},
        consts={'GithubStatus.SUCCESS': SUCCESS},
        ensures=[
            ('only-approved', "implies(result, self.review_state == 'approved')"),
            ('only-with-reported-checks-all-successful', "implies(result, len(self.last_known_github_status) > 0 and forall('U', lambda c: implies(c in self.last_known_github_status, self.last_known_github_status[c] == GithubStatus.SUCCESS)))"),
            ('only-up-to-date', 'implies(result, n_utd >= 1 and UTD)'),
            ('never-with-a-do-not-merge-label', "implies(result, not ('WIP' in self.labels) and not ('stacked PR' in self.labels))"),
            ('own-check-green-only-for-a-successful-current-batch', 'implies(result and GITHUB_STATUS_CONTEXT in self.last_known_github_status, self.batch is not None and succeeded(self.batch))'),
        ],
        raises={'AssertionError': True},
        canaries=[('never-mergeable', 'not result')],
    )


def _list_batches(eng, st, args, kw, node):
    v = pyvc.fresh_value(('list', 'U'), 'batches')
    st.assume(v.len >= 0)
    i = z3.Int(pyvc.fresh_name('bl_i'))
    st.assume(z3.ForAll([i], z3.Select(v.arr, i) != NONE))  # the listing yields batch objects
    st.env['BATCHES'] = v
    return v


def update_batch():
    """PR._update_batch: J established - 'success' only with the batch whose status is complete and success"""

    def setup(eng, st):
        st.env['self'].fields['target_branch'] = _tb(st)
        v = pyvc.fresh_value(('list', 'U'), 'batches')
        st.assume(v.len >= 0)
        i = z3.Int(pyvc.fresh_name('bl_i'))
        st.assume(z3.ForAll([i], z3.Select(v.arr, i) != NONE))  # the listing yields batch objects
        st.env['BATCHES'] = v

    def invalidated(eng, st, args, kw, node):
        return eng.uf('inval', ['U'], 'bool')(to_z3(args[0], 'U'))

    STATUS_T = pyvc.rec_type(state='U', complete='bool')

    def status(eng, st, args, kw, node):
        b = to_z3(st.env['b'], 'U')
        e = z3.Const(pyvc.fresh_name('status_exc'), pyvc.U)
        s = pyvc.from_z3(eng.uf('status_of', ['U'], STATUS_T)(b), STATUS_T)
        raise Fork(node, [('status', None, 'value', s, None), ('status-fails', None, 'raise', SExc(term=e), None)])

    def sbs(eng, st, args, kw, node):
        st.env['self'].fields['build_state'] = args[0] if args[0] is None else to_z3(args[0], 'U')
        return None

    return Contract(
        path=PATH,
        qualname='PR._update_batch',
        types={'current_build_batch': 'U', 'current_build_batch_status': 'U', 's': STATUS_T, '.id': 'U'},
        self_fields=PR_FIELDS,
        setup=setup,
        spec_funcs={'status_of': (['U'], STATUS_T), 'succeeded': (['U'], 'bool'), 'inval': (['U'], 'bool')},
        axioms=["forall('U', lambda x: succeeded(x) == (status_of(x)['complete'] and status_of(x)['state'] == 'success'))"],
        # history precondition: test batches of a PR head are created only by _start_build, which resets build_state; so while
        # build_state is 'success' the batch the listing designates as current (first non-cancelled one before any invalidated
        # one) is the batch that succeeded
        requires=["implies(self.build_state == 'success', forall(lambda i: implies(0 <= i < len(BATCHES) and not inval(BATCHES[i]) and status_of(BATCHES[i])['state'] != 'cancelled' and forall(lambda j: implies(0 <= j < i, not inval(BATCHES[j]) and status_of(BATCHES[j])['state'] == 'cancelled')), succeeded(BATCHES[i]))))"],
        calls={
            'batch_client.list_batches': lambda eng, st, args, kw, node: st.env['BATCHES'],
            'self.is_invalidated_batch': invalidated,
            'b.status': status,
            'self.set_build_state': sbs,
            'log.exception': lambda eng, st, args, kw, node: None,
            'self.target_branch.branch.short_str': lambda eng, st, args, kw, node: z3.Const('branch_name', pyvc.U),
        },
        strings=True,
        loops={0: LoopSpec(index='bi', invariants=[
            ('nothing-selected-before-the-break', 'current_build_batch is None and current_build_batch_status is None'),
            ('batches-skipped-so-far-were-cancelled-and-not-invalidated', "forall(lambda j: implies(0 <= j < bi, not inval(BATCHES[j]) and status_of(BATCHES[j])['state'] == 'cancelled'))"),
        ])},
        ensures=[
            ('success-only-with-the-successfully-completed-batch', "implies(self.build_state == 'success', self.batch is not None and succeeded(self.batch))"),
            ('batch-is-the-one-whose-status-was-read', "implies(self.batch is not None, exists(lambda i: 0 <= i < len(BATCHES) and BATCHES[i] == self.batch))"),
        ],
        raises={'*': True},
        canaries=[('never-success', "self.build_state != 'success'")],
    )


def update_from_gh_json():
    def setup(eng, st):
        st.env['self'].fields['target_branch'] = _tb(st)
        st.env['gh_json'] = SRecord('dict', {
            'number': st.env['self'].fields['number'], 'title': z3.Const('j_title', pyvc.U), 'body': z3.Const('j_body', pyvc.U),
            'user': SRecord('dict', {'login': z3.Const('j_login', pyvc.U)}),
            'assignees': pyvc.fresh_value(('list', pyvc.rec_type(login='U')), 'j_assignees'), 'requested_reviewers': pyvc.fresh_value(('list', pyvc.rec_type(login='U')), 'j_reviewers'), 'labels': pyvc.fresh_value(('list', pyvc.rec_type(name='U')), 'j_labels'),
            'head': SRecord('dict', {'sha': z3.Const('j_head_sha', pyvc.U)}),
        })
        st.env['NEW_LABELS'] = pyvc.fresh_value(('map', 'U', 'bool'), 'new_labels')

    def sbs(eng, st, args, kw, node):
        st.env['self'].fields['build_state'] = args[0] if args[0] is None else to_z3(args[0], 'U')
        return None

    c = Contract(
        path=PATH,
        qualname='PR.update_from_gh_json',
        types={'gh_json': 'U'},
        self_fields=dict(PR_FIELDS, title='U', body='U', author='U', assignees='U', reviewers='U', source_branch='U'),
        setup=setup,
        spec_funcs={'succeeded': (['U'], 'bool')},
        requires=["implies(self.build_state == 'success', self.batch is not None and succeeded(self.batch))"],
        calls={
            'self.set_build_state': sbs,
            'log.info': lambda eng, st, args, kw, node: None,
            'self.short_str': lambda eng, st, args, kw, node: z3.Const('short', pyvc.U),
            'FQBranch.from_gh_json': lambda eng, st, args, kw, node: z3.Const('fqbranch', pyvc.U),
        },
        ensures=[
            ('head-commit-recorded', "self.source_sha == gh_json['head']['sha']"),
            ('labels-are-exactly-those-github-reports', "forall('U', lambda q: (q in self.labels) == exists(lambda i: 0 <= i < len(gh_json['labels']) and gh_json['labels'][i]['name'] == q))"),
            ('a-new-head-invalidates-batch-merge-sha-and-build-state', "implies(old(self.source_sha) != gh_json['head']['sha'], self.batch is None and self.sha is None and self.build_state is None and self.source_sha_failed is None and self.target_branch.batch_changed and self.target_branch.state_changed)"),
            ('J-preserved', "implies(self.build_state == 'success', self.batch is not None and succeeded(self.batch))"),
        ],
        raises={'AssertionError': 'False'},
        canaries=[('head-never-changes', "old(self.source_sha) == gh_json['head']['sha']")],
    )
    return c


def try_to_merge():
    def prs(eng, st, args, kw, node):
        return pyvc.fresh_value(('list', 'U'), 'prs')

    def is_m(eng, st, args, kw, node):
        r = z3.Bool(pyvc.fresh_name('mergeable'))
        st.env['LAST_CHECKED'] = to_z3(st.env['pr'], 'U')
        st.env['LAST_ANSWER'] = r
        return r

    def merge(eng, st, args, kw, node):
        eng.oblige(st, 'merge-requested-only-for-the-pr-just-found-mergeable', z3.And(to_z3(st.env['pr'], 'U') == st.env['LAST_CHECKED'], st.env['LAST_ANSWER']))
        eng.oblige(st, 'no-merge-after-a-successful-merge', st.env['n_merged'] == 0)
        ok = z3.Bool(pyvc.fresh_name('merged'))
        raise Fork(node, [('merge-succeeds', None, 'value', True, lambda s: s.env.__setitem__('n_merged', s.env['n_merged'] + 1)), ('merge-refused', None, 'value', False, None)])

    return Contract(
        path=PATH,
        qualname='WatchedBranch.try_to_merge',
        self_fields={'mergeable': 'bool', 'sha': 'U', 'github_changed': 'bool', 'state_changed': 'bool', 'merge_candidate': 'U', 'prs': 'U'},
        calls={'self.prs_in_merge_priority_order': prs, 'pr.is_mergeable': is_m, 'pr.merge': merge},
        ghost_init={'n_merged': '0', 'LAST_CHECKED': 'NOPR', 'LAST_ANSWER': 'False'},
        consts={'NOPR': z3.Const('no_pr', pyvc.U)},
        loops={0: LoopSpec(index='pi', invariants=[('nothing-merged-so-far', 'n_merged == 0 and self.sha == old(self.sha)')], modifies=['LAST_CHECKED', 'LAST_ANSWER', 'n_merged'])},
        ensures=[
            ('at-most-one-merge-per-call', 'n_merged <= 1'),
            ('after-a-merge-the-target-commit-is-forgotten-and-github-is-re-read', 'implies(n_merged == 1, self.sha is None and self.github_changed and self.state_changed)'),
            ('without-a-merge-the-target-commit-is-kept', 'implies(n_merged == 0, self.sha == old(self.sha))'),
        ],
        raises={'AssertionError': 'not self.mergeable'},
        canaries=[('never-merges', 'n_merged == 0')],
    )


def merge():
    def put(eng, st, args, kw, node):
        d = kw.get('data')
        ok = isinstance(d, SRecord) and 'sha' in d.fields
        eng.oblige(st, 'merge-request-names-the-head-commit-that-was-tested', eng.equal(d.fields['sha'], st.env['self'].fields['source_sha']) if ok else z3.BoolVal(False))
        e = z3.Const(pyvc.fresh_name('gh_exc'), pyvc.U)
        raise Fork(node, [('accepted', None, 'value', None, lambda s: s.env.__setitem__('accepted', True)), ('refused', None, 'raise', SExc(term=e), None)])

    def setup(eng, st):
        st.env['self'].fields['target_branch'] = _tb(st)

    return Contract(
        path=PATH,
        qualname='PR.merge',
        self_fields=PR_FIELDS,
        setup=setup,
        strings=True,
        opaque_methods=True,
        calls={'gh.put': put, 'log.info': lambda eng, st, args, kw, node: None, 'self.target_branch.branch.repo.short_str': lambda eng, st, args, kw, node: z3.Const('repo', pyvc.U), 'self.target_branch.branch.short_str': lambda eng, st, args, kw, node: z3.Const('br', pyvc.U)},
        ghost_init={'accepted': 'False'},
        ensures=[('reports-success-only-if-github-accepted', 'implies(result, accepted)')],
        raises={'*': True},
    )


PENDING = pyvc.SDotted('GithubStatus.PENDING')
FAILURE = pyvc.SDotted('GithubStatus.FAILURE')
GS_CONSTS = {'GithubStatus.SUCCESS': SUCCESS, 'GithubStatus.PENDING': PENDING, 'GithubStatus.FAILURE': FAILURE}
GS_DISTINCT = 'GithubStatus.SUCCESS != GithubStatus.PENDING and GithubStatus.SUCCESS != GithubStatus.FAILURE and GithubStatus.PENDING != GithubStatus.FAILURE'  # scans(): the enum's three members have three different values
GS_KNOWN = ('PENDING', 'EXPECTED', 'ACTION_REQUIRED', 'STALE', 'FAILURE', 'ERROR', 'TIMED_OUT', 'CANCELLED', 'STARTUP_FAILURE', 'SKIPPED', 'SUCCESS', 'NEUTRAL')


def github_status_contract():
    """utils.github_status: SUCCESS only for the GraphQL states SUCCESS and NEUTRAL; a value that is no state at all (None: a
    check run that has not completed has no conclusion) is never mapped - the function raises"""
    return Contract(
        path='ci/ci/utils.py',
        qualname='github_status',
        types={'state': 'U', 'result': 'U'},
        consts=dict(GS_CONSTS),
        ensures=[
            ('success-only-for-SUCCESS-and-NEUTRAL', "implies(result == GithubStatus.SUCCESS, state == 'SUCCESS' or state == 'NEUTRAL')"),
            ('a-mapped-state-is-one-of-the-three', 'result == GithubStatus.SUCCESS or result == GithubStatus.PENDING or result == GithubStatus.FAILURE'),
            ('no-state-is-never-mapped', 'state is not None'),
            ('success-for-SUCCESS-and-NEUTRAL', "implies(state == 'SUCCESS' or state == 'NEUTRAL', result == GithubStatus.SUCCESS)"),
        ],
        raises={'ValueError': ' and '.join("state != '%s'" % k for k in GS_KNOWN)},
        axioms=[GS_DISTINCT],
        canaries=[('never-success', 'result != GithubStatus.SUCCESS')],
    )


CHECK_T = pyvc.rec_type(**{'__typename': 'U', 'context': 'U', 'state': 'U', 'name': 'U', 'conclusion': 'U', 'isRequired': 'bool'})


def update_github(first_page_has_rollup=True):
    """PR._update_github: every page of the head commit's status rollup is fetched (cursor of the previous page) and every
    required check of every page ends up in last_known_github_status under its own name with its mapped state; the review
    state becomes 'approved' only for the decision APPROVED."""

    def setup(eng, st):
        st.env['self'].fields['target_branch'] = _tb(st)

    def page_nodes(eng, pg):
        return pyvc.from_z3(eng.uf('page_nodes', ['int'], ('list', CHECK_T))(pg), ('list', CHECK_T))

    def post(eng, st, args, kw, node):
        pg = st.env['PG']
        cur = st.env.get('cursor')
        prev_cur = eng.uf('page_cursor', ['int'], 'U')(pg - 1)
        eng.oblige(st, 'paging/next-page-is-requested-with-the-cursor-of-the-previous-one', z3.If(pg == 0, eng.is_none(cur), eng.equal(cur, prev_cur) if cur is not None else z3.BoolVal(False)))
        nodes = page_nodes(eng, pg)
        st.assume(nodes.len >= 0)
        st.assume(z3.Not(eng.is_none(eng.uf('page_cursor', ['int'], 'U')(pg))))
        rollup = SRecord('dict', {'contexts': SRecord('dict', {'nodes': nodes, 'pageInfo': SRecord('dict', {'hasNextPage': eng.uf('page_has_next', ['int'], 'bool')(pg), 'endCursor': eng.uf('page_cursor', ['int'], 'U')(pg)})})})
        if not first_page_has_rollup:
            rollup = None
        else:
            st.env['ALL'] = eng.concat([st.env['ALL'], nodes])
        st.env['PG'] = pg + 1
        pr = SRecord('dict', {'reviewDecision': eng.uf('page_review_decision', ['int'], 'U')(pg), 'commits': SRecord('dict', {'nodes': (SRecord('dict', {'commit': SRecord('dict', {'statusCheckRollup': rollup})}),)})})
        return SRecord('dict', {'data': SRecord('dict', {'repository': SRecord('dict', {'pullRequest': pr})})})

    def srs(eng, st, args, kw, node):
        st.env['self'].fields['review_state'] = to_z3(args[0], 'U')
        return None

    def gs(eng, st, args, kw, node):
        """utils.github_status through its contract (github_status_contract, discharged on the real function): a pure function
        whose normal results satisfy the postconditions, or ValueError under the stated condition"""
        cc = github_status_contract()
        a = to_z3(args[0], 'U')
        r = eng.uf('gs', ['U'], 'U')(a)
        s2 = st.fork()
        s2.env = dict(s2.env)
        s2.env.update(cc.consts)
        s2.env['state'], s2.env['result'] = a, r
        ok = z3.And(*[eng.ev_bool_str(e, s2) for _, e in cc.ensures])
        bad = eng.ev_bool_str(cc.raises['ValueError'], s2)
        raise Fork(node, [('github_status', ok, 'value', r, None), ('github_status-raises', bad, 'raise', SExc(cls='ValueError'), None)])

    name_of = "(results[%s]['context'] if results[%s]['__typename'] == 'StatusContext' else results[%s]['name'])"
    state_of = "(results[%s]['state'] if results[%s]['__typename'] == 'StatusContext' else results[%s]['conclusion'])"
    nm = lambda v: name_of % (v, v, v)
    stt = lambda v: state_of % (v, v, v)
    green = lambda v: "(%s == 'SUCCESS' or %s == 'NEUTRAL')" % (stt(v), stt(v))
    recorded_green_only_if_reported_green = lambda bound: "forall(lambda t: implies(0 <= t < %s and results[t]['isRequired'] and %s[%s] == GithubStatus.SUCCESS, %s))" % (bound, '%s', nm('t'), green('t'))
    return Contract(
        path=PATH,
        qualname='PR._update_github',
        label='PR._update_github[%s]' % ('rollup-present' if first_page_has_rollup else 'no-rollup'),
        types={'results': ('list', CHECK_T), 'ALL': ('list', CHECK_T), 'last_known_github_status': 'Map[U, U]', 'cursor': 'U', 'review_decision': 'U'},
        self_fields=dict(PR_FIELDS),
        setup=setup,
        spec_funcs={'page_nodes': (['int'], ('list', CHECK_T)), 'page_cursor': (['int'], 'U'), 'page_has_next': (['int'], 'bool'), 'page_review_decision': (['int'], 'U'), 'gs': (['U'], 'U')},
        calls={
            'gh.post': post, 'self.set_review_state': srs, 'github_status': gs,
            'log.info': lambda eng, st, args, kw, node: None, 'log.error': lambda eng, st, args, kw, node: None,
            'self.short_str': lambda eng, st, args, kw, node: z3.Const('short', pyvc.U),
        },
        ghost_init={'PG': '0', 'ALL': '[]'},
        loops={
            0: LoopSpec(invariants=[
                ('results-are-the-nodes-of-all-pages-fetched-so-far', 'len(results) == len(ALL) and forall(lambda t: implies(0 <= t < len(ALL), results[t] == ALL[t]))'),
                ('pages-fetched', 'PG >= 0 and (PG == 0) == (cursor is None)'),
                ('cursor-is-the-last-page-cursor', 'implies(PG > 0, cursor == page_cursor(PG - 1))'),
                ('review-decision-from-the-first-page', "implies(PG > 0, review_decision == (page_review_decision(0) if page_review_decision(0) is not None else 'API_NONE'))"),
                ('no-decision-before-the-first-page', 'implies(PG == 0, review_decision is None)'),
            ], modifies=['PG', 'ALL', 'rollup', 'pull_request', 'review_decision', 'results', 'cursor']),
            1: LoopSpec(index='ci', invariants=[
                ('required-checks-so-far-are-recorded', "forall(lambda t: implies(0 <= t < ci and results[t]['isRequired'], %s in last_known_github_status))" % nm('t')),
                ('recorded-as-successful-only-if-reported-successful', recorded_green_only_if_reported_green('ci') % 'last_known_github_status'),
                ('nothing-recorded-on-the-PR-before-every-check-is-interpreted', 'self.last_known_github_status == old(self.last_known_github_status)'),
            ]),
        },
        requires=["forall(lambda t: implies(0 <= t, results_ok(t)))"] if False else [],
        ensures=[
            ('all-pages-fetched', 'PG >= 1' + (' and not page_has_next(PG - 1)' if first_page_has_rollup else '')),
            ('results-are-the-nodes-of-all-pages', 'len(results) == len(ALL) and forall(lambda t: implies(0 <= t < len(ALL), results[t] == ALL[t]))'),
            ('every-required-check-of-every-page-is-recorded', "forall(lambda t: implies(0 <= t < len(results) and results[t]['isRequired'], %s in self.last_known_github_status))" % nm('t')),
            ('approved-only-for-the-decision-APPROVED', "implies(self.review_state == 'approved', page_review_decision(0) == 'APPROVED' or old(self.review_state) == 'approved')"),
            ('a-check-is-recorded-as-successful-only-if-github-reported-it-successful', recorded_green_only_if_reported_green('len(results)') % 'self.last_known_github_status'),
        ],
        ghosts=[Ghost('re:^for check in results', 'ghost_assume(forall(lambda t, u: implies(0 <= t < u < len(results) and results[t][\'isRequired\'] and results[u][\'isRequired\'], %s != %s)), "GitHub lists every status context / check run name once in the rollup of one commit")' % (nm('t'), nm('u')), where='before')],
        consts=dict(GS_CONSTS),
        axioms=[GS_DISTINCT],
        raises={'ValueError': True},
        on_raise=[
            ('a-failed-refresh-leaves-review-state-and-statuses-of-the-last-complete-refresh', 'self.review_state == old(self.review_state) and self.last_known_github_status == old(self.last_known_github_status)'),
        ],
        canaries=[('never-more-than-one-page', 'PG == 1')] if first_page_has_rollup else [],
    )


def update_loop(entered_while_updating):
    """WatchedBranch._update: updates of one branch are serialised by the `updating` flag.  An invocation that finds the flag set
    (another update of this branch is suspended at an await) runs no step and leaves the flag alone - if it reset it, a third
    invocation would run a full update concurrently with the first and both could merge on the same view of the target branch.
    An invocation that finds it clear holds it during every step and clears it on every exit."""

    def step(name):
        def model(eng, st, args, kw, node):
            eng.oblige(st, 'a-step-runs-only-while-this-invocation-holds-the-flag', z3.And(eng.truthy(st.env['self'].fields['updating']), z3.Not(st.env['ENTERED_BUSY'])))
            st.env['n_steps'] = st.env['n_steps'] + 1
            e = z3.Const(pyvc.fresh_name('step_exc'), pyvc.U)
            # a step suspends: flags set by webhooks meanwhile (github_changed / batch_changed / state_changed) are arbitrary afterwards;
            # `updating` is written by _update only (closed-world obligation in scans())
            def havoc(s):
                for f in ('github_changed', 'batch_changed', 'state_changed'):
                    s.env['self'].fields[f] = z3.Bool(pyvc.fresh_name(f))
            raise Fork(node, [(name, None, 'value', None, havoc), (name + '-fails', None, 'raise', SExc(term=e), havoc)])
        return model

    def setup(eng, st):
        st.env['ENTERED_BUSY'] = z3.BoolVal(entered_while_updating)

    return Contract(
        path=PATH,
        qualname='WatchedBranch._update',
        label='WatchedBranch._update[%s]' % ('entered-while-another-update-runs' if entered_while_updating else 'entered-idle'),
        types={'frozen': 'bool', 'db': 'U', 'batch_client': 'U', 'gh': 'U'},
        self_fields={'updating': 'bool', 'github_changed': 'bool', 'batch_changed': 'bool', 'state_changed': 'bool', 'deploy_batch': 'U', 'deploy_state': 'U', 'mergeable': 'bool'},
        setup=setup,
        requires=['self.updating == %s' % entered_while_updating],
        ghost_init={'n_steps': '0'},
        calls={'self._update_github': step('update-github'), 'self._update_batch': step('update-batch'), 'self._heal': step('heal'), 'self.try_to_merge': step('try-to-merge'),
               'log.info': lambda eng, st, args, kw, node: None, 'self.short_str': lambda eng, st, args, kw, node: z3.Const('short', pyvc.U)},
        loops={0: LoopSpec(invariants=[('the-flag-is-held-throughout', 'self.updating == True')], modifies=['n_steps', 'self.github_changed', 'self.batch_changed', 'self.state_changed'])},
        ensures=[('an-invocation-that-found-the-flag-set-runs-nothing-and-leaves-it-set', 'self.updating == True and n_steps == 0')] if entered_while_updating else [('the-flag-is-cleared-on-return', 'self.updating == False')],
        on_raise=[('the-flag-is-cleared-on-every-exceptional-exit', 'self.updating == False')] if not entered_while_updating else [('never-raises-when-busy', 'False')],
        raises={'*': True},
        canaries=[] if entered_while_updating else [('never-runs-a-step', 'n_steps == 0')],
    )


def scans(ctx):
    tree = pyast.parse(core.read_repo(PATH))
    sb = pyvc.find_function(tree, 'PR._start_build')
    head = []
    for st in sb.body:
        if isinstance(st, pyast.Try):
            break
        head.append(pyast.unparse(st))
    ok = 'self.batch = None' in head and 'self.set_build_state(None)' in head
    ctx.add(core.decided('C30/PR._start_build/forgets-batch-and-build-state-before-building', ok, repr(head), kind='scan'))
    ctx.under_contract(PATH, 'PR._start_build (statement order)')
    succ = []
    for fn in pyast.walk(tree):
        if isinstance(fn, (pyast.FunctionDef, pyast.AsyncFunctionDef)):
            for n in pyast.walk(fn):
                if isinstance(n, pyast.Call) and pyast.unparse(n.func).endswith('set_build_state') and n.args and isinstance(n.args[0], pyast.Constant) and n.args[0].value == 'success':
                    succ.append(fn.name)
                if isinstance(n, pyast.Assign) and any(pyast.unparse(t).endswith('.build_state') for t in n.targets) and fn.name not in ('__init__', 'set_build_state'):
                    succ.append('direct assignment in ' + fn.name)
    ctx.add(core.decided("C30/closed-world/build-state-success-is-set-only-by-_update_batch", succ == ['_update_batch'], repr(succ), kind='scan'))
    utree = pyast.parse(core.read_repo('ci/ci/utils.py'))
    members = {}
    for n in utree.body:
        if isinstance(n, pyast.ClassDef) and n.name == 'GithubStatus':
            for b in n.body:
                if isinstance(b, pyast.Assign) and isinstance(b.value, pyast.Constant):
                    members[b.targets[0].id] = b.value.value
    ctx.add(core.decided('C30/GithubStatus/three-members-with-different-values', set(members) == {'SUCCESS', 'PENDING', 'FAILURE'} and len(set(members.values())) == 3, repr(members), kind='scan'))
    writers = sorted({fn.name for fn in pyast.walk(tree) if isinstance(fn, (pyast.FunctionDef, pyast.AsyncFunctionDef)) for n in pyast.walk(fn) if isinstance(n, (pyast.Assign, pyast.AnnAssign, pyast.AugAssign)) for t in (n.targets if isinstance(n, pyast.Assign) else [n.target]) if pyast.unparse(t).endswith('.updating')})
    ctx.add(core.decided('C30/closed-world/the-updating-flag-is-written-only-by-_update-and-the-constructor', writers == ['__init__', '_update'], repr(writers), kind='scan'))
    ub = pyvc.find_function(tree, 'PR._update_batch')
    lb = [n for n in pyast.walk(ub) if isinstance(n, pyast.Call) and pyast.unparse(n.func).endswith('list_batches')]
    terms = None
    if len(lb) == 1 and len(lb[0].args) == 1 and isinstance(lb[0].args[0], pyast.JoinedStr):
        txt = ''.join(v.value if isinstance(v, pyast.Constant) else '{' + pyast.unparse(v.value) + '}' for v in lb[0].args[0].values)
        terms = sorted(txt.split())
    # the test batch of a head is looked up by free-form attributes; `user:ci` is what ties the answer to batches CI itself created
    # (any other user of a shared billing project can attach the same attributes to a green batch of its own)
    want = sorted(['test=1', 'target_branch={self.target_branch.branch.short_str()}', 'source_sha={self.source_sha}', 'user:ci'])
    ctx.add(core.decided('C30/PR._update_batch/the-test-batch-is-looked-up-among-CIs-own-test-batches-of-this-head-and-target-branch', terms == want, repr(terms), kind='scan'))
    heal = pyvc.find_function(tree, 'PR._heal')
    first = pyast.unparse(heal.body[0]) if not isinstance(heal.body[0], pyast.Expr) else pyast.unparse(heal.body[1])
    ctx.add(core.decided('C30/PR._heal/no-build-while-the-target-commit-is-unknown', first.replace('\n', ' ').startswith('if self.target_branch.sha is None:'), first[:120], kind='scan'))
    # a batch records the target sha it was built against
    attrs = [pyast.unparse(n) for n in pyast.walk(sb) if isinstance(n, pyast.Dict) and any(isinstance(k, pyast.Constant) and k.value == 'target_sha' for k in n.keys)]
    good = attrs and all("'target_sha': self.target_branch.sha" in a for a in attrs)
    ctx.add(core.decided('C30/PR._start_build/batch-records-the-target-commit-it-merged-with', bool(good) and len(attrs) == 2, repr(attrs)[:300], kind='scan'))
    co = pyvc.find_function(tree, 'PR.checkout_script')
    txt = pyast.unparse(co)
    ctx.add(core.decided('C30/PR.checkout_script/tests-the-merge-of-head-into-the-current-target-commit', 'git checkout {shq(self.target_branch.sha)}' in txt and 'git merge {shq(self.source_sha)}' in txt, txt[-300:], kind='scan'))
    upd = pyvc.find_function(tree, 'WatchedBranch._update')
    calls = [pyast.unparse(n.func) for n in pyast.walk(upd) if isinstance(n, pyast.Call) and 'try_to_merge' in pyast.unparse(n.func)]
    callers = [fn.name for fn in pyast.walk(tree) if isinstance(fn, (pyast.FunctionDef, pyast.AsyncFunctionDef)) for n in pyast.walk(fn) if isinstance(n, pyast.Call) and pyast.unparse(n.func).endswith('try_to_merge')]
    ctx.add(core.decided('C30/closed-world/try_to_merge-is-called-only-from-the-serialised-update-loop', callers == ['_update'] and len(calls) == 1, repr(callers), kind='scan'))
    mcalls = [fn.name for fn in pyast.walk(tree) if isinstance(fn, (pyast.FunctionDef, pyast.AsyncFunctionDef)) for n in pyast.walk(fn) if isinstance(n, pyast.Call) and pyast.unparse(n.func).endswith('.merge')]
    ctx.add(core.decided('C30/closed-world/PR.merge-is-called-only-by-try_to_merge', mcalls == ['try_to_merge'], repr(mcalls), kind='scan'))


def native_witness(ctx):
    """concrete search on the real code, usable when the contracts no longer apply to a changed source (vc/check.py)"""
    return core.run_native(open(os.path.join(os.path.dirname(__file__), 'native', 'c30_replay.py')).read(), {})


def build(ctx):
    for c in (github_status_contract(), up_to_date(), mergeable(), update_batch(), update_from_gh_json(), update_github(True), update_github(False), try_to_merge(), merge(), update_loop(True), update_loop(False)):
        e = pyvc.Engine(ctx, c).run()
        _strict(ctx, e, c.label or c.qualname)
    scans(ctx)
    ctx.witness_search = lambda: core.run_native(open(os.path.join(os.path.dirname(__file__), 'native', 'c30_replay.py')).read(), {})
    ctx.assume('GitHub: PUT /pulls/N/merge with {sha: S} merges only if the PR head is still S (stale-head protection), and a successful merge moves the target branch to a new commit')
    ctx.assume('WatchedBranch._update serialises updates of one branch (the `updating` flag); statuses are read for the current head (commits(last: 1))')
    ctx.undecided('how recent the last complete refresh is when a batch callback triggers a merge attempt (polling: GitHub may have changed since); _update_batch relies on the listing being newest-first')
