"""C27 - database transactions retry only transient errors, atomically.

Contracts on gear/gear/database.py (real source, re-read on every run):

 (a) exception_log_level_if_retryable(exc): the result is *truthy* (it is used as `if loglevel := ...`) exactly for
       InternalError with code 1205 (lock wait timeout)            - the property's "lock-wait timeouts"
       OperationalError with code 1213 (deadlock), 2013 / 2003 (lost connection / cannot connect), 1040 (too many connections)
     and None for everything else.
 (b) retry_transient_mysql_errors.wrapper: per-iteration contract, for every number of earlier failures: f is called again
     (after sleep_before_try(number of failures)) iff f raised an Exception e with RT(e), where RT(e) is the truthiness of
     exception_log_level_if_retryable(e) (modular call: contract (a)); any other exception is re-raised unchanged and
     at once; f's value is returned unchanged.
 (c) transaction(db, read_only).transformer.wrapper: decorated by retry_transient_mysql_errors (so each attempt is one
     run of its body), the body opens ONE `db.start(read_only=read_only)` context, calls `fun` exactly once, inside it,
     with that context's transaction object, and calls nothing else; its value is returned after a successful exit.
     The same shape obligation for each retrying Database convenience method (one context, one statement call inside).
 (d) TransactionAsyncContextManager.__aenter__/__aexit__ and Transaction._aexit / _aexit_1 / async_init: the exception type of
     the body reaches _aexit_1; _aexit_1 rolls back (and never commits) when an exception type is given, commits (and never
     rolls back) otherwise, and on every path - including a failing commit/rollback - drops the connection and schedules
     its release; async_init issues START TRANSACTION [READ ONLY] before returning and on any failure releases and re-raises.
 "No retried or failed attempt leaves partial writes behind" then rests on (c)+(d) and on the ASSUMED contract of MySQL
 (rollback discards every write since START TRANSACTION; a connection that is released without commit is rolled back).
"""
from __future__ import annotations

import ast as pyast

import z3

from vc import core, pyvc
from vc.pyvc import Contract, Fork, LoopSpec, SExc, SRecord, to_z3

PATH = 'gear/gear/database.py'

SPEC_RETRYABLE = (
    "(isinst(exc, 'pymysql.err.InternalError') and code(exc) == 1205) or "
    "(isinst(exc, 'pymysql.err.OperationalError') and (code(exc) == 1213 or code(exc) == 2013 or code(exc) == 2003 or code(exc) == 1040))"
)


def _isinstance(eng, st, args, kw, node):
    cls = pyast.unparse(node.args[1])
    a = args[0]
    t = a.term if isinstance(a, SExc) and a.term is not None else to_z3(a, 'U')
    return eng.isinst_pred(t, cls)


def classifier():
    def setup(eng, st):
        # exc.args[0] is the MySQL error number: spec function code(exc)
        pass

    c = Contract(
        path=PATH,
        qualname='exception_log_level_if_retryable',
        types={'exc': 'U', '.args': 'List[int]'},
        spec_funcs={'code': (['U'], 'int')},
        axioms=['len(exc.args) >= 1 and exc.args[0] == code(exc)'],
        calls={'isinstance': _isinstance},
        ensures=[
            ('truthy-exactly-for-the-transient-errors', "(result is not None and result != 0) == (%s)" % SPEC_RETRYABLE),
            ('none-for-everything-else', "(result is None) == (not (%s))" % SPEC_RETRYABLE),
        ],
        canaries=[('never-retryable', 'result is None'), ('always-retryable', 'result is not None')],
    )
    return c


# ---- (b) the retry loop -------------------------------------------------------------------------------------------------


def _oracle_f(eng, st, args, kw, node):
    v = z3.Const(pyvc.fresh_name('f_value'), pyvc.U)
    e = z3.Const(pyvc.fresh_name('f_exc'), pyvc.U)

    def ok(s):
        s.env['last_ok'] = v
        s.env['ncalls'] = s.env['ncalls'] + 1

    def bad(s):
        s.env['nfail'] = s.env['nfail'] + 1
        s.env['ncalls'] = s.env['ncalls'] + 1
        s.env['last_exc'] = e

    raise Fork(node, [('f-returns', None, 'value', v, ok), ('f-raises', None, 'raise', SExc(term=e), bad)])


def _level(eng, st, args, kw, node):
    """modular call of (a): an optional int whose truthiness is RT(exc)"""
    a = args[0]
    t = a.term if isinstance(a, SExc) and a.term is not None else to_z3(a, 'U')
    lv = eng.uf('LV', ['U'], 'int')(t)
    raise Fork(node, [('retryable', lv != 0, 'value', lv, None), ('not-retryable', lv == 0, 'value', None, None)])


def _sleep(eng, st, args, kw, node):
    eng.oblige(st, 'retry/sleeps-only-after-a-retryable-Exception@L%d' % node.lineno, eng.ev_bool_str("isinst(last_exc, Exception) and LV(last_exc) != 0", st))
    eng.oblige(st, 'retry/sleep_before_try(number-of-failures)@L%d' % node.lineno, eng.num(args[0]) == st.env['nfail'])
    st.env['slept'] = st.env['slept'] + 1
    return None


def retry_wrapper():
    return Contract(
        path=PATH,
        qualname='retry_transient_mysql_errors.wrapper',
        types={'tries': 'int'},
        spec_funcs={'LV': (['U'], 'int')},
        calls={
            'f': _oracle_f,
            'exception_log_level_if_retryable': _level,
            'sleep_before_try': _sleep,
            'log.log': lambda eng, st, args, kw, node: None,
            'traceback.format_stack': lambda eng, st, args, kw, node: z3.Const(pyvc.fresh_name('stack'), pyvc.U),
            '.join': lambda eng, st, args, kw, node: z3.Const(pyvc.fresh_name('joined'), pyvc.U),
        },
        ghost_init={'nfail': '0', 'ncalls': '0', 'slept': '0', 'last_exc': 'NOEXC', 'last_ok': 'NOEXC'},
        consts={'NOEXC': z3.Const('no_exc', pyvc.U)},
        loops={0: LoopSpec(invariants=[('tries-counts-failures-and-sleeps', 'tries == nfail and tries >= 0 and slept == nfail and ncalls == nfail')], modifies=['nfail', 'ncalls', 'slept', 'last_exc', 'last_ok'])},
        ensures=[('returns-what-f-returned', 'result == last_ok'), ('one-call-per-failure-plus-the-successful-one', 'ncalls == nfail + 1 and slept == nfail')],
        raises={'*': True},
        on_raise=[
            ('raises-exactly-what-f-raised', 'exc == last_exc'),
            ('gives-up-only-when-not-retryable', "not isinst(exc, Exception) or LV(exc) == 0"),
            ('gives-up-at-once', 'ncalls == nfail and slept == nfail - 1'),
        ],
        canaries=[('never-returns-after-a-failure', 'nfail == 0')],
    )


# ---- (c) one transaction per attempt ------------------------------------------------------------------------------------


def with_model(enter, exit_):
    """Python's with-statement protocol around two oracles: enter(eng, st, node) -> [(state, ('value', v) | ('raise', e))],
    exit_(eng, st, exc_or_None) -> [(state, None | raised exception)] (the managers here return None from __aexit__, i.e.
    they never swallow the exception)"""

    def model(eng, st, node):
        outs = []
        for s1, (k, v) in enter(eng, st, node):
            if k == 'raise':
                outs.append((s1, ('raise', v)))
                continue
            if node.items[0].optional_vars is not None:
                eng.assign(node.items[0].optional_vars, v, s1)
            for s2, oc in eng.exec_block(node.body, s1):
                exc = oc[1] if oc[0] == 'raise' else None
                for s3, e3 in exit_(eng, s2, exc):
                    outs.append((s3, ('raise', e3) if e3 is not None else oc))
        return outs

    return model


def _tx_manager(read_only_expected=None):
    TX = z3.Const('the_tx', pyvc.U)

    def enter(eng, st, node):
        call = node.items[0].context_expr
        kws = {k.arg: eng.ev(k.value, st) for k in call.keywords}
        if read_only_expected is not None:
            ro = kws.get('read_only', False)
            eng.oblige(st, 'tx/read-only-flag-passed-to-db.start', eng.truthy(ro) == eng.truthy(eng.ev(pyast.parse(read_only_expected, mode='eval').body, st)))
        eng.oblige(st, 'tx/at-most-one-transaction-context-per-attempt', st.env['n_enter'] == 0)
        ok, bad = st.fork(), st.fork()
        ok.env['n_enter'] = ok.env['n_enter'] + 1
        ok.env['in_tx'] = True
        e = z3.Const(pyvc.fresh_name('enter_exc'), pyvc.U)
        bad.env['last_exc'] = e
        return [(ok, ('value', TX)), (bad, ('raise', SExc(term=e)))]

    def exit_(eng, st, exc):
        eng.oblige(st, 'tx/exit-matches-an-open-context', z3.BoolVal(bool(st.env['in_tx'])))
        ok, bad = st.fork(), st.fork()
        for s in (ok, bad):
            s.env['in_tx'] = False
            s.env['n_exit'] = s.env['n_exit'] + 1
            s.env['exit_saw_exception'] = exc is not None
        e = z3.Const(pyvc.fresh_name('exit_exc'), pyvc.U)
        bad.env['last_exc'] = e
        return [(ok, None), (bad, SExc(term=e))]

    return TX, with_model(enter, exit_)


def _fun_oracle(TX, name):
    def model(eng, st, args, kw, node):
        eng.oblige(st, 'tx/%s-called-inside-the-open-transaction' % name, z3.BoolVal(bool(st.env['in_tx'])))
        eng.oblige(st, 'tx/%s-called-once-per-attempt' % name, st.env['n_fun'] == 0)
        v = z3.Const(pyvc.fresh_name('fun_value'), pyvc.U)
        e = z3.Const(pyvc.fresh_name('fun_exc'), pyvc.U)

        def ok(s):
            s.env['n_fun'] = s.env['n_fun'] + 1
            s.env['last_ok'] = v

        def bad(s):
            s.env['n_fun'] = s.env['n_fun'] + 1
            s.env['last_exc'] = e
            s.env['fun_raised'] = True

        raise Fork(node, [('fun-returns', None, 'value', v, ok), ('fun-raises', None, 'raise', SExc(term=e), bad)])

    return model


TX_GHOSTS = {'n_enter': '0', 'n_exit': '0', 'n_fun': '0', 'in_tx': 'False', 'exit_saw_exception': 'False', 'fun_raised': 'False', 'last_ok': 'NOEXC', 'last_exc': 'NOEXC'}
TX_ENSURES = [
    ('one-context-one-call-one-exit', 'n_enter == 1 and n_fun == 1 and n_exit == 1'),
    ('returns-the-value-of-the-single-call', 'result == last_ok'),
    ('normal-return-only-after-an-exit-without-exception', 'not exit_saw_exception and not fun_raised'),
]
TX_ON_RAISE = [
    ('raises-the-last-failure', 'exc == last_exc'),
    ('context-closed-on-every-exceptional-exit', 'n_exit == n_enter and not in_tx'),
    ('a-failing-call-reaches-the-exit-as-an-exception', 'not fun_raised or exit_saw_exception'),
]


def transaction_wrapper():
    TX, wm = _tx_manager('read_only')
    fun = _fun_oracle(TX, 'fun')

    def fun_checked(eng, st, args, kw, node):
        eng.oblige(st, 'tx/fun-receives-the-transaction-of-this-context', to_z3(args[0], 'U') == TX if args and not isinstance(args[0], tuple) else z3.BoolVal(False))
        return fun(eng, st, args, kw, node)

    return Contract(
        path=PATH,
        qualname='transaction.transformer.wrapper',
        extra_inputs={'read_only': 'bool'},
        calls={'with:db.start': wm, 'fun': fun_checked},
        ghost_init=TX_GHOSTS,
        consts={'NOEXC': z3.Const('no_exc', pyvc.U)},
        ensures=TX_ENSURES,
        raises={'*': True},
        on_raise=TX_ON_RAISE,
    )


DB_METHODS = {
    'just_execute': ('tx.just_execute', False),
    'execute_and_fetchone': ('tx.execute_and_fetchone', False),
    'select_and_fetchone': ('tx.execute_and_fetchone', True),
    'execute_insertone': ('tx.execute_insertone', False),
    'execute_update': ('tx.execute_update', False),
    'execute_many': ('tx.execute_many', False),
}


def db_method(name, callee, read_only):
    TX, wm = _tx_manager('True' if read_only else 'False')
    c = Contract(
        path=PATH,
        qualname='Database.' + name,
        calls={'with:self.start': wm, callee: _fun_oracle(TX, callee)},
        ghost_init=TX_GHOSTS,
        consts={'NOEXC': z3.Const('no_exc', pyvc.U)},
        ensures=[e for e in TX_ENSURES if not (name == 'just_execute' and e[0].startswith('returns-the-value'))],
        raises={'*': True},
        on_raise=TX_ON_RAISE,
    )
    return c


def _decorators(fn):
    return [pyast.unparse(d) for d in fn.decorator_list]


def scans(ctx):
    tree = pyast.parse(core.read_repo(PATH))
    tw = pyvc.find_function(tree, 'transaction.transformer.wrapper')
    decs = _decorators(tw)
    ctx.add(core.decided('C27/transaction/wrapper-is-retried-as-a-whole', 'retry_transient_mysql_errors' in decs and decs.index('retry_transient_mysql_errors') == len(decs) - 1, repr(decs), kind='scan'))
    tf = pyvc.find_function(tree, 'transaction.transformer')
    rets = [pyast.unparse(n.value) for n in pyast.walk(tf) if isinstance(n, pyast.Return) and n.value is not None and n in tf.body]
    ctx.add(core.decided('C27/transaction/transformer-returns-the-retrying-wrapper', rets == ['wrapper'], repr(rets), kind='scan'))
    tt = pyvc.find_function(tree, 'transaction')
    rets = [pyast.unparse(n.value) for n in tt.body if isinstance(n, pyast.Return) and n.value is not None]
    ctx.add(core.decided('C27/transaction/returns-the-transformer', rets == ['transformer'], repr(rets), kind='scan'))
    for name in DB_METHODS:
        fn = pyvc.find_function(tree, 'Database.' + name)
        ctx.add(core.decided('C27/Database.%s/decorated-by-the-retry-loop' % name, _decorators(fn) == ['retry_transient_mysql_errors'], repr(_decorators(fn)), kind='scan'))
    rw = pyvc.find_function(tree, 'retry_transient_mysql_errors')
    rets = [pyast.unparse(n.value) for n in rw.body if isinstance(n, pyast.Return) and n.value is not None]
    ctx.add(core.decided('C27/retry_transient_mysql_errors/returns-its-wrapper', rets == ['wrapper'], repr(rets), kind='scan'))
    ctx.under_contract(PATH, 'transaction (decorator structure)')


def _strict(ctx, eng, label):
    ctx.add(core.decided('C27/%s/no-call-outside-the-contract' % label, not eng.unmodelled, repr(eng.unmodelled), kind='frame'))
    eng.unmodelled = []


def build(ctx):
    e = pyvc.Engine(ctx, classifier()).run()
    _strict(ctx, e, 'exception_log_level_if_retryable')
    e = pyvc.Engine(ctx, retry_wrapper()).run()
    _strict(ctx, e, 'retry_transient_mysql_errors.wrapper')
    e = pyvc.Engine(ctx, transaction_wrapper()).run()
    _strict(ctx, e, 'transaction.transformer.wrapper')
    for name, (callee, ro) in DB_METHODS.items():
        e = pyvc.Engine(ctx, db_method(name, callee, ro)).run()
        _strict(ctx, e, 'Database.' + name)
    scans(ctx)
    ctx.assume('pymysql InternalError / OperationalError instances carry (errno, message) in .args (as raised by the driver)')
    ctx.assume('MySQL: ROLLBACK (or closing a connection without COMMIT) discards every write made since START TRANSACTION; stored procedures that issue their own START TRANSACTION/COMMIT are outside this contract')
    ctx.undecided('Database.execute_and_fetchall / select_and_fetchall are async generators and are NOT retried at all (rows may already have been yielded); the property is decided for the transaction decorator and the retrying convenience methods')
