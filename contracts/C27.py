"""C27 - database transactions retry only transient errors, atomically.

Contracts on gear/gear/database.py (real source, re-read on every run):

 (a) exception_log_level_if_retryable(exc): the result is *truthy* (it is used as `if loglevel := ...`) exactly for
       InternalError with code 1205 (lock wait timeout)            - the property's "lock-wait timeouts"
       OperationalError with code 1213 (deadlock), 2013 / 2003 (lost connection / cannot connect), 1040 (too many connections)
     and None for everything else.
 (b) retry_transient_mysql_errors.wrapper: per-iteration contract, for every number of earlier failures: f is called again
     (after sleep_before_try(number of failures)) iff f raised an Exception e with RT(e), where RT(e) is the truthiness of
     exception_log_level_if_retryable(e) (modular call: contract (a)); any other exception is re-raised unchanged and
     at once; f's value is returned unchanged.
 (c) transaction(db, read_only).transformer.wrapper: decorated by retry_transient_mysql_errors (so each attempt is one
     run of its body), the body opens ONE `db.start(read_only=read_only)` context, calls `fun` exactly once, inside it,
     with that context's transaction object, and calls nothing else; its value is returned after a successful exit.
     The same shape obligation for each retrying Database convenience method (one context, one statement call inside).
 (d) TransactionAsyncContextManager.__aenter__/__aexit__ and Transaction._aexit / _aexit_1 / async_init: the exception type of
     the body reaches _aexit_1; _aexit_1 rolls back (and never commits) when an exception type is given, commits (and never
     rolls back) otherwise, and on every path - including a failing commit/rollback - drops the connection and schedules
     its release; async_init issues START TRANSACTION [READ ONLY] before returning and on any failure releases and re-raises.
 "No retried or failed attempt leaves partial writes behind" then rests on (c)+(d) and on the ASSUMED contract of MySQL
 (rollback discards every write since START TRANSACTION; a connection that is released without commit is rolled back).
"""
from __future__ import annotations

import ast as pyast
import os

import z3

from vc import core, pyvc
from vc.pyvc import Contract, Fork, LoopSpec, SExc, SRecord, to_z3

PATH = 'gear/gear/database.py'

SPEC_RETRYABLE = (
    "(isinst(exc, 'pymysql.err.InternalError') and code(exc) == 1205) or "
    "(isinst(exc, 'pymysql.err.OperationalError') and (code(exc) == 1213 or code(exc) == 2013 or code(exc) == 2003 or code(exc) == 1040))"
)


def _isinstance(eng, st, args, kw, node):
    cls = pyast.unparse(node.args[1])
    a = args[0]
    t = a.term if isinstance(a, SExc) and a.term is not None else to_z3(a, 'U')
    return eng.isinst_pred(t, cls)


def classifier():
    def setup(eng, st):
        # exc.args[0] is the MySQL error number: spec function code(exc)
        pass

    c = Contract(
        path=PATH,
        qualname='exception_log_level_if_retryable',
        types={'exc': 'U', '.args': 'List[int]'},
        spec_funcs={'code': (['U'], 'int')},
        axioms=['len(exc.args) >= 1 and exc.args[0] == code(exc)'],
        calls={'isinstance': _isinstance},
        ensures=[
            ('truthy-exactly-for-the-transient-errors', "(result is not None and result != 0) == (%s)" % SPEC_RETRYABLE),
            ('none-for-everything-else', "(result is None) == (not (%s))" % SPEC_RETRYABLE),
        ],
        canaries=[('never-retryable', 'result is None'), ('always-retryable', 'result is not None')],
    )
    return c


# ---- (b) the retry loop -------------------------------------------------------------------------------------------------


def _oracle_f(eng, st, args, kw, node):
    v = z3.Const(pyvc.fresh_name('f_value'), pyvc.U)
    e = z3.Const(pyvc.fresh_name('f_exc'), pyvc.U)

    def ok(s):
        s.env['last_ok'] = v
        s.env['ncalls'] = s.env['ncalls'] + 1

    def bad(s):
        s.env['nfail'] = s.env['nfail'] + 1
        s.env['ncalls'] = s.env['ncalls'] + 1
        s.env['last_exc'] = e

    raise Fork(node, [('f-returns', None, 'value', v, ok), ('f-raises', None, 'raise', SExc(term=e), bad)])


def _level(eng, st, args, kw, node):
    """modular call of (a): an optional int whose truthiness is RT(exc)"""
    a = args[0]
    t = a.term if isinstance(a, SExc) and a.term is not None else to_z3(a, 'U')
    lv = eng.uf('LV', ['U'], 'int')(t)
    raise Fork(node, [('retryable', lv != 0, 'value', lv, None), ('not-retryable', lv == 0, 'value', None, None)])


def _sleep(eng, st, args, kw, node):
    eng.oblige(st, 'retry/sleeps-only-after-a-retryable-Exception@L%d' % node.lineno, eng.ev_bool_str("isinst(last_exc, Exception) and LV(last_exc) != 0", st))
    eng.oblige(st, 'retry/sleep_before_try(number-of-failures)@L%d' % node.lineno, eng.num(args[0]) == st.env['nfail'])
    st.env['slept'] = st.env['slept'] + 1
    return None


def retry_wrapper():
    return Contract(
        path=PATH,
        qualname='retry_transient_mysql_errors.wrapper',
        types={'tries': 'int'},
        spec_funcs={'LV': (['U'], 'int')},
        calls={
            'f': _oracle_f,
            'exception_log_level_if_retryable': _level,
            'sleep_before_try': _sleep,
            'log.log': lambda eng, st, args, kw, node: None,
            'traceback.format_stack': lambda eng, st, args, kw, node: z3.Const(pyvc.fresh_name('stack'), pyvc.U),
            '.join': lambda eng, st, args, kw, node: z3.Const(pyvc.fresh_name('joined'), pyvc.U),
        },
        ghost_init={'nfail': '0', 'ncalls': '0', 'slept': '0', 'last_exc': 'NOEXC', 'last_ok': 'NOEXC'},
        consts={'NOEXC': z3.Const('no_exc', pyvc.U)},
        loops={0: LoopSpec(invariants=[('tries-counts-failures-and-sleeps', 'tries == nfail and tries >= 0 and slept == nfail and ncalls == nfail')], modifies=['nfail', 'ncalls', 'slept', 'last_exc', 'last_ok'])},
        ensures=[('returns-what-f-returned', 'result == last_ok'), ('one-call-per-failure-plus-the-successful-one', 'ncalls == nfail + 1 and slept == nfail')],
        raises={'*': True},
        on_raise=[
            ('raises-exactly-what-f-raised', 'exc == last_exc'),
            ('gives-up-only-when-not-retryable', "not isinst(exc, Exception) or LV(exc) == 0"),
            ('gives-up-at-once', 'ncalls == nfail and slept == nfail - 1'),
        ],
        canaries=[('never-returns-after-a-failure', 'nfail == 0')],
    )


# ---- (c) one transaction per attempt ------------------------------------------------------------------------------------


with_model = pyvc.with_model


def _tx_manager(read_only_expected=None):
    TX = z3.Const('the_tx', pyvc.U)

    def enter(eng, st, node):
        call = node.items[0].context_expr
        kws = {k.arg: eng.ev(k.value, st) for k in call.keywords}
        if read_only_expected is not None:
            ro = kws.get('read_only', False)
            eng.oblige(st, 'tx/read-only-flag-passed-to-db.start', eng.truthy(ro) == eng.truthy(eng.ev(pyast.parse(read_only_expected, mode='eval').body, st)))
        eng.oblige(st, 'tx/at-most-one-transaction-context-per-attempt', st.env['n_enter'] == 0)
        ok, bad = st.fork(), st.fork()
        ok.env['n_enter'] = ok.env['n_enter'] + 1
        ok.env['in_tx'] = True
        e = z3.Const(pyvc.fresh_name('enter_exc'), pyvc.U)
        bad.env['last_exc'] = e
        return [(ok, ('value', TX)), (bad, ('raise', SExc(term=e)))]

    def exit_(eng, st, exc):
        eng.oblige(st, 'tx/exit-matches-an-open-context', z3.BoolVal(bool(st.env['in_tx'])))
        ok, bad = st.fork(), st.fork()
        for s in (ok, bad):
            s.env['in_tx'] = False
            s.env['n_exit'] = s.env['n_exit'] + 1
            s.env['exit_saw_exception'] = exc is not None
        e = z3.Const(pyvc.fresh_name('exit_exc'), pyvc.U)
        bad.env['last_exc'] = e
        return [(ok, None), (bad, SExc(term=e))]

    return TX, with_model(enter, exit_)


def _fun_oracle(TX, name):
    def model(eng, st, args, kw, node):
        eng.oblige(st, 'tx/%s-called-inside-the-open-transaction' % name, z3.BoolVal(bool(st.env['in_tx'])))
        eng.oblige(st, 'tx/%s-called-once-per-attempt' % name, st.env['n_fun'] == 0)
        v = z3.Const(pyvc.fresh_name('fun_value'), pyvc.U)
        e = z3.Const(pyvc.fresh_name('fun_exc'), pyvc.U)

        def ok(s):
            s.env['n_fun'] = s.env['n_fun'] + 1
            s.env['last_ok'] = v

        def bad(s):
            s.env['n_fun'] = s.env['n_fun'] + 1
            s.env['last_exc'] = e
            s.env['fun_raised'] = True

        raise Fork(node, [('fun-returns', None, 'value', v, ok), ('fun-raises', None, 'raise', SExc(term=e), bad)])

    return model


TX_GHOSTS = {'n_enter': '0', 'n_exit': '0', 'n_fun': '0', 'in_tx': 'False', 'exit_saw_exception': 'False', 'fun_raised': 'False', 'last_ok': 'NOEXC', 'last_exc': 'NOEXC'}
TX_ENSURES = [
    ('one-context-one-call-one-exit', 'n_enter == 1 and n_fun == 1 and n_exit == 1'),
    ('returns-the-value-of-the-single-call', 'result == last_ok'),
    ('normal-return-only-after-an-exit-without-exception', 'not exit_saw_exception and not fun_raised'),
]
TX_ON_RAISE = [
    ('raises-the-last-failure', 'exc == last_exc'),
    ('context-closed-on-every-exceptional-exit', 'n_exit == n_enter and not in_tx'),
    ('a-failing-call-reaches-the-exit-as-an-exception', 'not fun_raised or exit_saw_exception'),
]


def transaction_wrapper():
    TX, wm = _tx_manager('read_only')
    fun = _fun_oracle(TX, 'fun')

    def fun_checked(eng, st, args, kw, node):
        eng.oblige(st, 'tx/fun-receives-the-transaction-of-this-context', to_z3(args[0], 'U') == TX if args and not isinstance(args[0], tuple) else z3.BoolVal(False))
        return fun(eng, st, args, kw, node)

    return Contract(
        path=PATH,
        qualname='transaction.transformer.wrapper',
        extra_inputs={'read_only': 'bool'},
        calls={'with:db.start': wm, 'fun': fun_checked},
        ghost_init=TX_GHOSTS,
        consts={'NOEXC': z3.Const('no_exc', pyvc.U)},
        ensures=TX_ENSURES,
        raises={'*': True},
        on_raise=TX_ON_RAISE,
    )


DB_METHODS = {
    'just_execute': ('tx.just_execute', False),
    'execute_and_fetchone': ('tx.execute_and_fetchone', False),
    'select_and_fetchone': ('tx.execute_and_fetchone', True),
    'execute_insertone': ('tx.execute_insertone', False),
    'execute_update': ('tx.execute_update', False),
    'execute_many': ('tx.execute_many', False),
}


def db_method(name, callee, read_only):
    TX, wm = _tx_manager('True' if read_only else 'False')
    c = Contract(
        path=PATH,
        qualname='Database.' + name,
        calls={'with:self.start': wm, callee: _fun_oracle(TX, callee)},
        ghost_init=TX_GHOSTS,
        consts={'NOEXC': z3.Const('no_exc', pyvc.U)},
        ensures=[e for e in TX_ENSURES if not (name == 'just_execute' and e[0].startswith('returns-the-value'))],
        raises={'*': True},
        on_raise=TX_ON_RAISE,
    )
    return c


# ---- (d) commit / rollback / release ----------------------------------------------------------------------------------


def _counting(name, may_raise=True):
    def model(eng, st, args, kw, node):
        e = z3.Const(pyvc.fresh_name(name + '_exc'), pyvc.U)

        def ok(s):
            s.env['n_' + name] = s.env['n_' + name] + 1

        def bad(s):
            s.env['n_' + name] = s.env['n_' + name] + 1
            s.env['last_exc'] = e
            s.env['op_failed'] = True

        alts = [(name + '-ok', None, 'value', None, ok)]
        if may_raise:
            alts.append((name + '-fails', None, 'raise', SExc(term=e), bad))
        raise Fork(node, alts)

    return model


def _ensure_future(eng, st, args, kw, node):
    st.env['n_release'] = st.env['n_release'] + 1
    st.env['released'] = to_z3(args[0], 'U')
    return None


def aexit_1():
    rel = z3.Function('release_of', pyvc.U, pyvc.U)
    return Contract(
        path=PATH,
        qualname='Transaction._aexit_1',
        types={'exc_type': 'U'},
        self_fields={'conn': 'U', 'conn_context_manager': 'U', '_task_manager': 'U'},
        spec_funcs={'release_of': (['U'], 'U')},
        calls={
            'self.conn.rollback': _counting('rollback'),
            'self.conn.commit': _counting('commit'),
            'log.info': lambda eng, st, args, kw, node: None,
            '_release_connection': lambda eng, st, args, kw, node: rel(to_z3(args[0], 'U')),
            'self._task_manager.ensure_future': _ensure_future,
        },
        ghost_init={'n_rollback': '0', 'n_commit': '0', 'n_release': '0', 'released': 'NOEXC', 'last_exc': 'NOEXC', 'op_failed': 'False'},
        consts={'NOEXC': z3.Const('no_exc', pyvc.U)},
        ensures=[
            ('a-failed-commit-or-rollback-is-never-reported-as-success', 'not op_failed'),
            ('rolls-back-and-never-commits-when-the-body-raised', 'implies(old(self.conn) is not None and truthy(exc_type), n_rollback == 1 and n_commit == 0)'),
            ('commits-and-never-rolls-back-otherwise', 'implies(old(self.conn) is not None and not truthy(exc_type), n_commit == 1 and n_rollback == 0)'),
            ('nothing-without-a-connection', 'implies(old(self.conn) is None, n_commit == 0 and n_rollback == 0)'),
            ('connection-dropped-and-release-scheduled-once', 'self.conn is None and self.conn_context_manager is None and n_release == 1 and released == release_of(old(self.conn_context_manager))'),
        ],
        raises={'*': True},
        on_raise=[
            ('only-a-failing-commit-or-rollback-escapes', 'exc == last_exc and n_commit + n_rollback == 1'),
            ('never-commits-after-a-failed-body', 'implies(truthy(exc_type), n_commit == 0)'),
            ('connection-dropped-and-release-scheduled-once', 'self.conn is None and self.conn_context_manager is None and n_release == 1 and released == release_of(old(self.conn_context_manager))'),
        ],
        canaries=[('never-commits', 'n_commit == 0'), ('never-rolls-back', 'n_rollback == 0')],
    )


def _truthy_fn(eng, st, args, kw, node):
    return eng.truthy(args[0])


def aexit_passes_type():
    """Transaction._aexit hands its exc_type to _aexit_1 (through asyncio.shield); TransactionAsyncContextManager.__aexit__
    hands its exc_type to tx._aexit"""
    out = []

    def rec(name):
        def model(eng, st, args, kw, node):
            eng.oblige(st, 'exc-type-forwarded-unchanged', to_z3(args[0], 'U') == to_z3(st.env['exc_type'], 'U') if args else z3.BoolVal(False))
            st.env['n_fwd'] = st.env['n_fwd'] + 1
            return z3.Const(pyvc.fresh_name(name), pyvc.U)

        return model

    out.append(Contract(
        path=PATH, qualname='Transaction._aexit', types={'exc_type': 'U', 'exc_val': 'U', 'exc_tb': 'U'},
        calls={'self._aexit_1': rec('coro'), 'asyncio.shield': lambda eng, st, args, kw, node: args[0]},
        ghost_init={'n_fwd': '0'}, ensures=[('cleanup-invoked-exactly-once', 'n_fwd == 1')], raises={},
    ))
    out.append(Contract(
        path=PATH, qualname='TransactionAsyncContextManager.__aexit__', types={'exc_type': 'U', 'exc_val': 'U', 'exc_tb': 'U'},
        self_fields={'tx': 'U'}, requires=['self.tx is not None'],
        calls={'self.tx._aexit': rec('aexit')},
        ghost_init={'n_fwd': '0'}, ensures=[('cleanup-invoked-exactly-once', 'n_fwd == 1'), ('never-swallows-the-exception', 'result is None')], raises={},
    ))
    return out


def async_init():
    def execute(eng, st, args, kw, node):
        sql = args[0]
        st.env['n_start'] = st.env['n_start'] + 1
        st.env['start_sql'] = sql
        e = z3.Const(pyvc.fresh_name('execute_exc'), pyvc.U)
        raise Fork(node, [('execute-ok', None, 'value', None, None), ('execute-fails', None, 'raise', SExc(term=e), lambda s: s.env.__setitem__('last_exc', e))])

    def failing(name, value):
        def model(eng, st, args, kw, node):
            e = z3.Const(pyvc.fresh_name(name + '_exc'), pyvc.U)
            raise Fork(node, [(name + '-ok', None, 'value', value(eng, st, args), None), (name + '-fails', None, 'raise', SExc(term=e), lambda s: s.env.__setitem__('last_exc', e))])

        return model

    CM = z3.Const('the_conn_cm', pyvc.U)
    CONN = z3.Const('the_conn', pyvc.U)
    rel = z3.Function('release_of', pyvc.U, pyvc.U)
    cursor = with_model(lambda eng, st, node: [(st.fork(), ('value', SRecord('cursor', {})))], lambda eng, st, exc: [(st, None)])
    return Contract(
        path=PATH,
        qualname='Transaction.async_init',
        types={'db_pool': 'U', 'read_only': 'bool'},
        self_fields={'conn': 'U', 'conn_context_manager': 'U', '_task_manager': 'U'},
        spec_funcs={'release_of': (['U'], 'U')},
        axioms=['CONN is not None'],
        calls={
            'db_pool.acquire': failing('acquire', lambda eng, st, a: CM),
            'aenter': failing('aenter', lambda eng, st, a: CONN),
            'DB_CONNECTION_QUEUE_SIZE.inc': lambda eng, st, args, kw, node: None,
            'DB_CONNECTION_QUEUE_SIZE.dec': lambda eng, st, args, kw, node: None,
            'SQL_TRANSACTIONS.inc': lambda eng, st, args, kw, node: None,
            'with:self.conn.cursor': cursor,
            'cursor.execute': execute,
            '_release_connection': lambda eng, st, args, kw, node: rel(to_z3(args[0], 'U')),
            'self._task_manager.ensure_future': _ensure_future,
        },
        ghost_init={'n_start': '0', 'start_sql': "''", 'n_release': '0', 'released': 'NOEXC', 'last_exc': 'NOEXC'},
        consts={'NOEXC': z3.Const('no_exc', pyvc.U), 'CONN': CONN},
        ensures=[
            ('transaction-started-exactly-once-before-returning', 'n_start == 1'),
            ('read-only-flag-selects-the-statement', "start_sql == ('START TRANSACTION READ ONLY;' if read_only else 'START TRANSACTION;')"),
            ('connection-kept-for-the-body', 'self.conn == CONN and n_release == 0'),
        ],
        raises={'*': True},
        on_raise=[
            ('raises-the-failure', 'exc == last_exc'),
            ('failed-start-drops-the-connection-and-schedules-its-release', 'self.conn is None and self.conn_context_manager is None and n_release == 1'),
        ],
    )


def aenter_cm():
    def ctor(eng, st, args, kw, node):
        st.env['n_tx'] = st.env['n_tx'] + 1
        return SRecord('Transaction', {'tag': z3.Const('new_tx', pyvc.U)})

    def init(eng, st, args, kw, node):
        e = z3.Const(pyvc.fresh_name('init_exc'), pyvc.U)
        eng.oblige(st, 'pool-and-read-only-forwarded', z3.And(to_z3(args[0], 'U') == to_z3(st.env['self'].fields['db_pool'], 'U'), eng.truthy(args[1]) == eng.truthy(st.env['self'].fields['read_only'])))
        raise Fork(node, [('init-ok', None, 'value', None, lambda s: s.env.__setitem__('n_init', s.env['n_init'] + 1)), ('init-fails', None, 'raise', SExc(term=e), lambda s: s.env.__setitem__('last_exc', e))])

    return Contract(
        path=PATH,
        qualname='TransactionAsyncContextManager.__aenter__',
        self_fields={'db_pool': 'U', 'read_only': 'bool', 'tx': 'U', 'task_manager': 'U'},
        calls={'Transaction': ctor, 'tx.async_init': init},
        ghost_init={'n_tx': '0', 'n_init': '0', 'last_exc': 'NOEXC'},
        consts={'NOEXC': z3.Const('no_exc', pyvc.U)},
        ensures=[('fresh-transaction-initialised-once', 'n_tx == 1 and n_init == 1')],
        raises={'*': True},
        on_raise=[('raises-the-failure', 'exc == last_exc')],
    )


def _decorators(fn):
    return [pyast.unparse(d) for d in fn.decorator_list]


def scans(ctx):
    tree = pyast.parse(core.read_repo(PATH))
    tw = pyvc.find_function(tree, 'transaction.transformer.wrapper')
    decs = _decorators(tw)
    ctx.add(core.decided('C27/transaction/wrapper-is-retried-as-a-whole', 'retry_transient_mysql_errors' in decs and decs.index('retry_transient_mysql_errors') == len(decs) - 1, repr(decs), kind='scan'))
    # one transaction PER ATTEMPT AND PER CALL: the context manager entered by the wrapper is created inside the wrapper by
    # db.start(...) (a manager shared between calls keeps the current transaction in one field: overlapping calls of the same
    # decorated function would then commit / roll back each other's transaction)
    withs = [n for n in pyast.walk(tw) if isinstance(n, (pyast.AsyncWith, pyast.With))]
    fresh = bool(withs) and all(isinstance(i.context_expr, pyast.Call) and pyvc._dotted(i.context_expr.func) == 'db.start' for w in withs for i in w.items)
    ctx.add(core.decided('C27/transaction/every-call-opens-its-own-transaction-context', fresh, repr([pyast.unparse(i.context_expr) for w in withs for i in w.items]), kind='scan'))
    tf = pyvc.find_function(tree, 'transaction.transformer')
    rets = [pyast.unparse(n.value) for n in pyast.walk(tf) if isinstance(n, pyast.Return) and n.value is not None and n in tf.body]
    ctx.add(core.decided('C27/transaction/transformer-returns-the-retrying-wrapper', rets == ['wrapper'], repr(rets), kind='scan'))
    tt = pyvc.find_function(tree, 'transaction')
    rets = [pyast.unparse(n.value) for n in tt.body if isinstance(n, pyast.Return) and n.value is not None]
    ctx.add(core.decided('C27/transaction/returns-the-transformer', rets == ['transformer'], repr(rets), kind='scan'))
    # ROLLBACK discards an attempt's writes only if the connection does not commit statements on its own: the pool the transactions
    # draw from is created with autocommit off (with autocommit on, every statement issued after a server-side COMMIT - all batch
    # procedures commit internally - would be committed immediately and survive the ROLLBACK of a failed or retried attempt)
    ai = pyvc.find_function(tree, 'Database.async_init')
    pools = [n for n in pyast.walk(ai) if isinstance(n, pyast.Call) and pyvc._dotted(n.func) == 'create_database_pool']
    off = len(pools) == 1 and any(k.arg == 'autocommit' and isinstance(k.value, pyast.Constant) and k.value.value is False for k in pools[0].keywords)
    cp = pyvc.find_function(tree, 'create_database_pool')
    fwd = [k for n in pyast.walk(cp) if isinstance(n, pyast.Call) and pyvc._dotted(n.func) == 'aiomysql.create_pool' for k in n.keywords if k.arg == 'autocommit']
    ctx.add(core.decided('C27/Database.async_init/transactions-run-on-connections-with-autocommit-off', off and len(fwd) == 1 and pyast.unparse(fwd[0].value) == 'autocommit', 'async_init: %r; create_database_pool forwards: %r' % ([pyast.unparse(p_) for p_ in pools], [pyast.unparse(k.value) for k in fwd]), kind='scan'))
    ctx.under_contract(PATH, 'Database.async_init (autocommit off)')
    for name in DB_METHODS:
        fn = pyvc.find_function(tree, 'Database.' + name)
        ctx.add(core.decided('C27/Database.%s/decorated-by-the-retry-loop' % name, _decorators(fn) == ['retry_transient_mysql_errors'], repr(_decorators(fn)), kind='scan'))
    # the retry loop may wrap only operations that open (and finish) their own transaction: re-running a single statement of
    # an open transaction would replay it outside the rolled-back attempt
    allowed = {'transaction.transformer.wrapper', 'Database.async_init', 'Database.check_call_procedure'} | {'Database.' + n for n in DB_METHODS}
    decorated = []

    def walk(node, prefix):
        for ch in pyast.iter_child_nodes(node):
            if isinstance(ch, (pyast.FunctionDef, pyast.AsyncFunctionDef, pyast.ClassDef)):
                q = prefix + ch.name
                if not isinstance(ch, pyast.ClassDef) and any('retry_transient_mysql_errors' in d for d in _decorators(ch)):
                    decorated.append(q)
                walk(ch, q + '.')
            else:
                walk(ch, prefix)

    walk(tree, '')
    uses = [n for n in pyast.walk(tree) if isinstance(n, pyast.Name) and n.id == 'retry_transient_mysql_errors']
    ctx.add(core.decided('C27/retry-only-wraps-whole-transactions', set(decorated) <= allowed and len(uses) == len(decorated), 'decorated=%r other-uses=%d' % (sorted(set(decorated) - allowed), len(uses) - len(decorated)), kind='scan'))
    ccp = pyvc.find_function(tree, 'Database.check_call_procedure')
    inner = [pyast.unparse(n.func) for n in pyast.walk(ccp) if isinstance(n, pyast.Call)]
    ctx.add(core.decided('C27/Database.check_call_procedure/only-runs-a-whole-retrying-transaction', [c for c in inner if c.startswith('self.')] == ['self.execute_and_fetchone'], repr(inner), kind='scan'))
    rw = pyvc.find_function(tree, 'retry_transient_mysql_errors')
    rets = [pyast.unparse(n.value) for n in rw.body if isinstance(n, pyast.Return) and n.value is not None]
    ctx.add(core.decided('C27/retry_transient_mysql_errors/returns-its-wrapper', rets == ['wrapper'], repr(rets), kind='scan'))
    ctx.under_contract(PATH, 'transaction (decorator structure)')


def _strict(ctx, eng, label):
    ctx.add(core.decided('C27/%s/no-call-outside-the-contract' % label, not eng.unmodelled, repr(eng.unmodelled), kind='frame'))
    eng.unmodelled = []


def native_witness(ctx):
    """concrete search on the real code, usable when the contracts no longer apply to a changed source (vc/check.py)"""
    return core.run_native(open(os.path.join(os.path.dirname(__file__), 'native', 'c27_replay.py')).read(), {})


def build(ctx):
    scans(ctx)  # first: AST obligations stand even if a changed body leaves the executor's subset
    e = pyvc.Engine(ctx, classifier()).run()
    _strict(ctx, e, 'exception_log_level_if_retryable')
    e = pyvc.Engine(ctx, retry_wrapper()).run()
    _strict(ctx, e, 'retry_transient_mysql_errors.wrapper')
    e = pyvc.Engine(ctx, transaction_wrapper()).run()
    _strict(ctx, e, 'transaction.transformer.wrapper')
    for name, (callee, ro) in DB_METHODS.items():
        e = pyvc.Engine(ctx, db_method(name, callee, ro)).run()
        _strict(ctx, e, 'Database.' + name)
    for c in [aexit_1()] + aexit_passes_type() + [async_init(), aenter_cm()]:
        c.calls.setdefault('truthy', _truthy_fn)
        e = pyvc.Engine(ctx, c).run()
        _strict(ctx, e, c.qualname)
    import os

    ctx.witness_search = lambda: core.run_native(open(os.path.join(os.path.dirname(__file__), 'native', 'c27_replay.py')).read(), {})
    ctx.assume('pymysql InternalError / OperationalError instances carry (errno, message) in .args (as raised by the driver)')
    ctx.assume('MySQL: ROLLBACK (or closing a connection without COMMIT) discards every write made since START TRANSACTION; stored procedures that issue their own START TRANSACTION/COMMIT are outside this contract')
    ctx.undecided('which exception reaches the retry loop when the body lost its connection (2013) and the ROLLBACK issued by the exit on that dead connection fails too: the exit re-raises the ROLLBACK failure (contract: only-a-failing-commit-or-rollback-escapes), so the retry decision is taken on the driver\'s error for a closed connection (aiomysql, not installed here: expected InterfaceError, which is not retryable) instead of the 2013 error; driver behaviour, not decidable on this tree')
    ctx.undecided('Database.execute_and_fetchall / select_and_fetchall are async generators and are NOT retried at all (rows may already have been yielded); the property is decided for the transaction decorator and the retrying convenience methods')
