"""C21 - retry policy retries exactly the transient failures.

Targets (hail/python/hailtop/utils/utils.py): delay_ms_for_try, retry_transient_errors_with_debug_string,
sync_retry_transient_errors, sleep_before_try, sync_sleep_before_try.

The operation `f` is an oracle: each call either returns a value or raises an arbitrary exception e; the three
classifiers are uninterpreted predicates L(e) = is_limited_retries_error, R(e) = is_rate_limit_error,
T(e) = is_transient_error.  Ghost nfail counts the failures of f so far; ghost last_exc / last_ok remember f's outcome.

Per-iteration contract (from the property text), holding for EVERY iteration, i.e. for every number of previous
failures (no bound):
  * the loop re-raises  <=>  KeyboardInterrupt(e)  or  not((nfail <= 5 and L(e)) or R(e) or T(e)),
    and what it raises is exactly the exception f raised;
  * otherwise it sleeps delay_ms_for_try(nfail)/1000 seconds and calls f again;
  * a value returned by f is returned unchanged.
So transient / rate-limit errors are retried without bound, a limited-retry error that is neither is retried for the
first five failures and raised on the sixth, anything else is raised immediately.
delay_ms_for_try: min(c//2, max) <= result <= min(c, max) with c = base * 2**min(tries, 30); so result <= max.
"""
from __future__ import annotations

import json
import os

import z3

from vc import core, pyvc
from vc.pyvc import Contract, Fork, LoopSpec, SExc, to_z3

PATH = 'hail/python/hailtop/utils/utils.py'


def _pred(name):
    def model(eng, st, args, kw, node):
        a = args[0]
        t = a.term if isinstance(a, SExc) else to_z3(a, 'U')
        return eng.uf(name, ['U'], 'bool')(t)

    return model


def _oracle_f(eng, st, args, kw, node):
    v = z3.Const(pyvc.fresh_name('f_value'), pyvc.U)
    e = z3.Const(pyvc.fresh_name('f_exc'), pyvc.U)

    def ok(s):
        s.env['last_ok'] = v

    def bad(s):
        s.env['nfail'] = s.env['nfail'] + 1
        s.env['last_exc'] = e

    raise Fork(node, [('f-returns', None, 'value', v, ok), ('f-raises', None, 'raise', SExc(term=e), bad)])


def _randint(eng, st, args, kw, node):
    # assumed contract of random.randint(a, b): an integer in [a, b], BOTH ends included
    a, b = eng.num(args[0]), eng.num(args[1])
    eng.oblige(st, 'call/random.randint/non-empty-range@L%d' % node.lineno, a <= b, kind='safety')
    r = z3.Int(pyvc.fresh_name('randint'))
    st.assume(z3.And(a <= r, r <= b))
    return r


def _uniform(eng, st, args, kw, node):
    raise core.Undecided('random.uniform: float jitter is outside the integer contract of delay_ms_for_try')


def _randrange(eng, st, args, kw, node):
    n = eng.num(args[0])
    eng.oblige(st, 'call/random.randrange/arg-positive@L%d' % node.lineno, n > 0, kind='safety')
    r = z3.Int(pyvc.fresh_name('rand'))
    st.assume(z3.And(r >= 0, r < n))
    return r


def _fresh_int(prefix):
    def model(eng, st, args, kw, node):
        return z3.Int(pyvc.fresh_name(prefix))

    return model


def _fresh_u(prefix):
    def model(eng, st, args, kw, node):
        return z3.Const(pyvc.fresh_name(prefix), pyvc.U)

    return model


RETRY_COND = "((nfail <= 5 and L(last_exc)) or R(last_exc) or T(last_exc))"


RETRY_COND_SYNC = "T(last_exc)"


def _sleep_model(kind):
    """asyncio.sleep(delay) / sync_sleep_before_try(tries): reaching it means 'retry'."""

    def model(eng, st, args, kw, node):
        s2 = st
        cond = RETRY_COND if kind == 'async' else RETRY_COND_SYNC
        eng.oblige(s2, 'retry/sleep-only-when-retryable@L%d' % node.lineno, eng.ev_bool_str("isinst(last_exc, Exception) and not isinst(last_exc, KeyboardInterrupt) and " + cond, s2))
        if kind == 'async':
            d = eng.num(args[0])
            eng.oblige(s2, 'retry/sleep-duration-is-delay_ms_for_try(nfail)/1000@L%d' % node.lineno, eng.ev_bool_str("last_delay_tries == nfail", s2))
            eng.oblige(s2, 'retry/sleep-duration-value@L%d' % node.lineno, d * 1000 == z3.ToReal(s2.env['last_delay_ms']))
        else:
            eng.oblige(s2, 'retry/sleep-before-try(nfail)@L%d' % node.lineno, eng.num(args[0]) == s2.env['nfail'])
        s2.env['slept'] = True
        return None

    return model


DELAY = Contract(
    path=PATH,
    qualname='delay_ms_for_try',
    types={'tries': 'int', 'base_delay_ms': 'int', 'max_delay_ms': 'int', 'result': 'int'},
    requires=['tries >= 0', 'base_delay_ms >= 1', 'max_delay_ms >= 0'],
    calls={'random.randrange': _randrange, 'random.randint': _randint, 'random.uniform': _uniform},
    ensures=[
        ('lower-bound', "result >= min((base_delay_ms * (1 << min(tries, 30))) // 2, max_delay_ms)"),
        ('upper-bound', "result <= min(base_delay_ms * (1 << min(tries, 30)), max_delay_ms)"),
        ('never-longer-than-max', "result <= max_delay_ms"),
    ],
    canaries=[('could-always-be-the-ceiling', "result == min(base_delay_ms * (1 << min(tries, 30)), max_delay_ms)")],
)


def _delay_call(eng, st, args, kw, node):
    r = eng.call_contract(DELAY, args, kw, st, node)
    st.env['last_delay_ms'] = r
    st.env['last_delay_tries'] = args[0]
    return r


COMMON_CALLS = {
    'f': _oracle_f,
    'is_limited_retries_error': _pred('L'),
    'is_rate_limit_error': _pred('R'),
    'is_transient_error': _pred('T'),
    'is_delayed_warning_error': _pred('D'),
    'time_msecs': _fresh_int('now'),
    'traceback.format_stack': _fresh_u('stack'),
    '.join': _fresh_u('joined'),
    'type': _fresh_u('type'),
    'delay_ms_for_try': _delay_call,
}

SPEC = {'L': (['U'], 'bool'), 'R': (['U'], 'bool'), 'T': (['U'], 'bool')}

GHOSTS = {'slept': 'False', 'nfail': '0', 'last_exc': 'NOEXC', 'last_ok': 'NOEXC', 'last_delay_ms': '0', 'last_delay_tries': '0'}
CONSTS = {'NOEXC': z3.Const('no_exc', pyvc.U)}


def retry_async():
    calls = dict(COMMON_CALLS)
    calls['asyncio.sleep'] = _sleep_model('async')
    return Contract(
        path=PATH,
        qualname='retry_transient_errors_with_debug_string',
        types={'debug_string': 'U', 'warning_delay_msecs': 'int', 'f': 'U', 'tries': 'int'},
        float_as_real=True,
        spec_funcs=SPEC,
        calls=calls,
        ghost_init=GHOSTS,
        consts=CONSTS,
        loops={0: LoopSpec(invariants=[('tries-counts-failures', 'tries == nfail and tries >= 0')], modifies=['nfail', 'last_exc', 'last_ok', 'last_delay_ms', 'last_delay_tries', 'slept'])},
        ensures=[('returns-what-f-returned', 'result == last_ok')],
        raises={'*': True},
        on_raise=[
            ('raises-exactly-what-f-raised', 'exc == last_exc'),
            ('gives-up-only-when-not-retryable', "isinst(exc, KeyboardInterrupt) or not isinst(exc, Exception) or not " + RETRY_COND),
        ],
    )


def retry_sync():
    calls = dict(COMMON_CALLS)
    calls['sync_sleep_before_try'] = _sleep_model('sync')
    return Contract(
        path=PATH,
        qualname='sync_retry_transient_errors',
        types={'f': 'U', 'tries': 'int'},
        spec_funcs=SPEC,
        calls=calls,
        ghost_init=GHOSTS,
        consts=CONSTS,
        loops={0: LoopSpec(invariants=[('tries-counts-failures', 'tries == nfail and tries >= 0')], modifies=['nfail', 'last_exc', 'last_ok', 'last_delay_ms', 'last_delay_tries', 'slept'])},
        ensures=[('returns-what-f-returned', 'result == last_ok')],
        raises={'*': True},
        on_raise=[
            ('raises-exactly-what-f-raised', 'exc == last_exc'),
            ('gives-up-only-when-not-retryable', "isinst(exc, KeyboardInterrupt) or not isinst(exc, Exception) or not " + RETRY_COND_SYNC),
        ],
    )


def _sleep_wrappers(ctx):
    """sleep_before_try / sync_sleep_before_try sleep exactly delay_ms_for_try(tries, base, max)/1000 seconds."""
    for qn, sleeper in (('sleep_before_try', 'asyncio.sleep'), ('sync_sleep_before_try', 'time.sleep')):

        def sleep(eng, st, args, kw, node):
            eng.oblige(st, 'sleeps-delay_ms_for_try/1000@L%d' % node.lineno, eng.num(args[0]) * 1000 == z3.ToReal(st.env['last_delay_ms']))
            eng.oblige(
                st,
                'delay-computed-from-own-arguments@L%d' % node.lineno,
                z3.And(st.env['last_delay_tries'] == st.env['tries'], st.env['last_args'][1] == st.env['base_delay_ms'], st.env['last_args'][2] == st.env['max_delay_ms']),
            )
            return None

        def delay(eng, st, args, kw, node):
            r = eng.call_contract(DELAY, args, kw, st, node)
            st.env['last_delay_ms'] = r
            st.env['last_delay_tries'] = args[0]
            st.env['last_args'] = tuple(args)
            return r

        c = Contract(
            path=PATH,
            qualname=qn,
            types={'tries': 'int', 'base_delay_ms': 'int', 'max_delay_ms': 'int'},
            requires=['tries >= 0', 'base_delay_ms >= 1', 'max_delay_ms >= 0'],
            float_as_real=True,
            ghost_init={'last_delay_ms': '0', 'last_delay_tries': '0 - 1', 'last_args': '(0, 0, 0)'},
            calls={sleeper: sleep, 'delay_ms_for_try': delay},
        )
        pyvc.Engine(ctx, c).run()


REPLAY = r'''
import sys, json, os, ast, random
p = json.load(sys.stdin)
src = open(os.path.join(os.environ['VERIF_REPO'], 'hail/python/hailtop/utils/utils.py')).read()
tree = ast.parse(src)
keep = [n for n in tree.body if (isinstance(n, ast.FunctionDef) and n.name == 'delay_ms_for_try') or (isinstance(n, ast.Assign) and isinstance(n.targets[0], ast.Name) and n.targets[0].id in ('LOG_2_MAX_MULTIPLIER', 'DEFAULT_MAX_DELAY_MS', 'DEFAULT_BASE_DELAY_MS'))]
class R:
    def __init__(self, frac): self.frac = frac
    def randrange(self, n):
        if n <= 0: raise ValueError('empty range')
        return min(n - 1, int(self.frac * n))
def run(tries, base, mx, frac):
    ns = {'random': R(frac)}
    exec(compile(ast.Module(body=keep, type_ignores=[]), 'utils-extract', 'exec'), ns)
    return ns['delay_ms_for_try'](tries, base, mx)
def bad(tries, base, mx, frac):
    c = base * 2 ** min(tries, 30)
    r = run(tries, base, mx, frac)
    return None if min(c // 2, mx) <= r <= min(c, mx) else {'tries': tries, 'base_delay_ms': base, 'max_delay_ms': mx, 'jitter_fraction': frac, 'result': r, 'required': [min(c // 2, mx), min(c, mx)]}
res = {'confirmed': False}
cands = []
if 'tries' in p:
    cands.append((p['tries'], p['base'], p['max']))
if p.get('search'):
    for t in list(range(0, 12)) + [29, 30, 31, 40]:
        for b in (1, 2, 250, 1000):
            for m in (0, 1, 250, 1000, 60000):
                cands.append((t, b, m))
for (t, b, m) in cands:
    for frac in (0.0, 0.5, 0.999999):
        w = bad(t, b, m, frac)
        if w:
            res = {'confirmed': True, 'input': w}
            break
    if res['confirmed']: break
print(json.dumps(res))
'''


def _delay_replayer(eng):
    def replay(model, obl):
        payload = {'search': True}
        if model is not None:
            try:
                payload.update({'tries': pyvc.concretize(model, eng.inputs['tries']), 'base': pyvc.concretize(model, eng.inputs['base_delay_ms']), 'max': pyvc.concretize(model, eng.inputs['max_delay_ms'])})
            except Exception:
                pass
        return core.run_native(REPLAY, payload)

    return replay


REPLAY_RETRY = r'''
import sys, json, os, ast, asyncio
p = json.load(sys.stdin)
src = open(os.path.join(os.environ['VERIF_REPO'], 'hail/python/hailtop/utils/utils.py')).read()
tree = ast.parse(src)
want = {'retry_transient_errors_with_debug_string', 'sync_retry_transient_errors', 'delay_ms_for_try', 'sync_sleep_before_try'}
keep = [n for n in tree.body if (isinstance(n, (ast.FunctionDef, ast.AsyncFunctionDef)) and n.name in want) or (isinstance(n, ast.Assign) and isinstance(n.targets[0], ast.Name) and n.targets[0].id in ('LOG_2_MAX_MULTIPLIER', 'DEFAULT_MAX_DELAY_MS', 'DEFAULT_BASE_DELAY_MS'))]
class E(Exception):
    def __init__(self, L, R, T): self.L, self.R, self.T = L, R, T
class Log:
    def warning(self, *a, **k): pass
import random, traceback, typing
sleeps = []
class FakeAsyncio:
    @staticmethod
    async def sleep(d): sleeps.append(d)
class FakeTime:
    @staticmethod
    def sleep(d): sleeps.append(d)
def mk():
    ns = {'random': random, 'traceback': traceback, 'log': Log(), 'asyncio': FakeAsyncio, 'time': FakeTime, 'time_msecs': lambda: 0,
          'is_limited_retries_error': lambda e: e.L, 'is_rate_limit_error': lambda e: e.R, 'is_transient_error': lambda e: e.T,
          'is_delayed_warning_error': lambda e: False, 'Callable': typing.Callable, 'Awaitable': typing.Awaitable, 'T': typing.TypeVar('T')}
    exec(compile(ast.Module(body=keep, type_ignores=[]), 'utils-extract', 'exec'), ns)
    return ns
def scenario(kind, pre_failures, L, R, T):
    """pre_failures transient failures, then failures of class (L,R,T) forever (up to a cap), observe when it gives up"""
    ns = mk(); calls = {'n': 0}
    cap = pre_failures + 9
    def f_sync():
        calls['n'] += 1
        if calls['n'] <= pre_failures: raise E(False, False, True)
        if calls['n'] > cap: return 'ok'
        raise E(L, R, T)
    async def f_async(): return f_sync()
    try:
        if kind == 'async':
            r = asyncio.run(ns['retry_transient_errors_with_debug_string']('', 0, f_async))
        else:
            r = ns['sync_retry_transient_errors'](f_sync)
        return ('ok', calls['n'])
    except E as e:
        return ('raised', calls['n'])
res = {'confirmed': False}
for kind in ('async', 'sync'):
    for pre in range(0, 8):
        for L in (False, True):
            for R in (False, True):
                for T in (False, True):
                    out, n = scenario(kind, pre, L, R, T)
                    # expected: failure number k (1-based, counting all failures) is retried iff (k <= 5 and L) or R or T
                    exp_raise_at = None
                    for k in range(pre + 1, pre + 10):
                        if not ((k <= 5 and L) or R or T):
                            exp_raise_at = k; break
                    got_raise_at = n if out == 'raised' else None
                    if kind == 'sync':
                        # the sync helper only consults is_transient_error (checked as stated in its own contract)
                        exp_raise_at = None if T else pre + 1
                    if exp_raise_at != got_raise_at and not res['confirmed']:
                        res = {'confirmed': True, 'input': {'helper': kind, 'transient_failures_first': pre, 'then_error_class': {'limited': L, 'rate_limit': R, 'transient': T}, 'gave_up_at_failure': got_raise_at, 'required': exp_raise_at}}
print(json.dumps(res))
'''


# ---- classification: every rate-limit failure is also transient ---------------------------------------------------------------
# sync_retry_transient_errors (and every caller that classifies with is_transient_error alone) retries a rate-limit failure only
# if is_transient_error says so; the property asks for "every transient or rate-limit failure" to be retried by the helpers.

RATE = ("((isinst_aiohttp and e.status == 429) or (isinst_httpx and (e.status == 429 or (e.status == 403 and 'rateLimitExceeded' in e.body))))")


def _isinstance_model(eng, st, args, kw, node):
    cls = node.args[1]
    name = pyvc._dotted(cls)
    if name == 'aiohttp.ClientResponseError':
        return st.env['isinst_aiohttp']
    if name == 'hailtop.httpx.ClientResponseError':
        return st.env['isinst_httpx']
    if name is None:
        raise core.Undecided('isinstance against a computed class')
    return eng.uf('isinst_' + name.replace('.', '_'), ['U'], 'bool')(to_z3(args[0], 'U'))


def classifier_contracts():
    types = {'e': 'U', '.status': 'int', '.body': 'str', '.error_codes': 'Array[U, bool]'}
    common = dict(path=PATH, types=types, strings=True, calls={'isinstance': _isinstance_model})
    XI = {'isinst_aiohttp': 'bool', 'isinst_httpx': 'bool'}
    a = Contract(qualname='is_rate_limit_error', ensures=[('true-exactly-for-429-and-google-403-rate-limit-responses', 'result == %s' % RATE)], raises={}, canaries=[('never-true', 'result == False')], extra_inputs=dict(XI), **common)
    b = Contract(
        qualname='is_transient_error', label='is_transient_error[http clauses]', fragment=('re:^if isinstance\\(e, aiohttp\\.ClientResponseError\\)', 3),
        ensures=[('a-rate-limit-failure-is-classified-transient-by-the-http-clauses', 'implies(%s, result == True)' % RATE)], raises={},
        canaries=[('everything-transient', 'result == True')], extra_inputs=dict(XI, e='U'), **common)
    return [a, b]


# ---- classification: which exception objects the classifiers look at ------------------------------------------------------------
# "raise any other error immediately": an error is classified by its own class and fields; the only other exception object that
# may decide is its EXPLICIT cause (`raise X from Y`, e.__cause__), followed recursively.  The implicit context (an error raised
# while another one is being handled, e.__context__) says nothing about the error itself: a permanent error raised inside the
# handler of a transient one is permanent.
#
# Whole-function contracts: isinstance(e, C) is the uninterpreted predicate isinst_C(e), guarded by the input `plain` ("e is an
# instance of none of the classes the classifier tests for"); the recursive call is the predicate T / L itself.  The errno table,
# the socket constants and the message table are arbitrary (symbolic) inputs, so the statement holds for every content of them.

CHAIN_TYPES = {
    'e': 'U', '.status': 'int', '.body': 'str', '.error_codes': 'Array[U, bool]', '.message': 'str', '.strerror': 'str', '.errno': 'int',
    '.os_error': 'U', '.args': 'Array[int, str]', '.__cause__': 'U', '.__context__': 'U', '.__suppress_context__': 'bool',
}
# for the chain contracts the texts are irrelevant: `'lit' in e.body / e.message / e.args[0]` is an arbitrary predicate per literal
# (a set of literals, like error_codes) - no string theory in their VCs
CHAIN_TYPES_ABSTRACT = dict(CHAIN_TYPES, **{'.body': 'Array[U, bool]', '.message': 'Array[U, bool]', '.args': 'Array[int, Array[U, bool]]'})
CHAIN_ATTRS_FORBIDDEN = ('__context__', '__suppress_context__', '__traceback__')
CLASSIFIERS = {'is_transient_error': 'T', 'is_limited_retries_error': 'L'}


def _isinstance_plain(eng, st, args, kw, node):
    name = pyvc._dotted(node.args[1])
    if name is None:
        raise core.Undecided('isinstance against a computed class')
    hit = eng.uf('isinst_' + name.replace('.', '_'), ['U'], 'bool')(to_z3(args[0], 'U'))
    plain = st.env.get('plain')
    return hit if plain is None else z3.And(z3.Not(plain), hit)


def _fn_of(src, name):
    import ast

    for n in ast.parse(src).body:
        if isinstance(n, (ast.FunctionDef, ast.AsyncFunctionDef)) and n.name == name:
            return n
    raise core.Undecided('anchor-moved: %s not found' % name)


def _tail_after_class_tests(fn):
    """(first, last) header texts of the statements that follow the last top-level `if` testing isinstance(...): what the
    classifier does with an error none of whose class tests returned"""
    import ast

    last = -1
    for i, s in enumerate(fn.body):
        if isinstance(s, ast.If) and any(isinstance(c, ast.Call) and pyvc._dotted(c.func) == 'isinstance' for c in ast.walk(s.test)):
            last = i
    if last < 0 or last + 1 >= len(fn.body):
        raise core.Undecided('anchor-moved: %s has no statements after its class tests' % fn.name)
    return pyvc._header_text(fn.body[last + 1]), pyvc._header_text(fn.body[-1])


def chain_contracts(src):
    out = []
    for qn, pred in CLASSIFIERS.items():
        chain = '(e.__cause__ is not None and %s(e.__cause__))' % pred
        common = dict(
            path=PATH, qualname=qn, types=dict(CHAIN_TYPES_ABSTRACT), strings=True, spec_funcs={pred: (['U'], 'bool')}, raises={},
            calls={'isinstance': _isinstance_plain, qn: _pred(pred)},
            consts={'socket.EAI_AGAIN': z3.Int('EAI_AGAIN'), 'socket.EAI_NONAME': z3.Int('EAI_NONAME')},
        )
        tables = {'aiodocker': 'U', 'RETRYABLE_ERRNOS': 'Array[int, bool]', 'RETRY_ONCE_BAD_REQUEST_ERROR_MESSAGES': 'List[U]'}
        out.append(Contract(
            label='%s[plain error]' % qn, extra_inputs=dict(tables, plain='bool'),
            ensures=[('an-error-of-no-tested-class-is-classified-by-its-explicit-cause-alone', 'implies(plain, result == %s)' % chain)],
            canaries=[('a-plain-error-never-inherits-from-its-cause', 'implies(plain, result == False)')],
            **common))
        first, last = _tail_after_class_tests(_fn_of(src, qn))
        out.append(Contract(
            label='%s[after the class tests]' % qn, fragment=(first, last), extra_inputs=dict(tables, e='U'),
            ensures=[('only-the-explicit-cause-chain-is-followed', 'result == %s' % chain)],
            canaries=[('the-cause-is-never-followed', 'result == False')],
            **common))
    return out


def chain_scans(ctx, src):
    """decided on the real AST: the three classifiers read none of the implicit-chain attributes of an exception"""
    import ast

    for qn in list(CLASSIFIERS) + ['is_rate_limit_error']:
        fn = _fn_of(src, qn)
        hits = sorted({'%s@L%d' % (n.attr, n.lineno) for n in ast.walk(fn) if isinstance(n, ast.Attribute) and n.attr in CHAIN_ATTRS_FORBIDDEN}
                      | {'%r@L%d' % (n.value, n.lineno) for n in ast.walk(fn) if isinstance(n, ast.Constant) and n.value in CHAIN_ATTRS_FORBIDDEN})
        ctx.add(core.decided('%s/scan/reads-no-implicit-exception-context' % qn, not hits, 'reads of __context__ / __suppress_context__ / __traceback__: %s' % (hits or 'none')))


# ---- where the classified fields come from: hailtop.httpx -------------------------------------------------------------------------
# is_rate_limit_error / is_transient_error (403 + 'rateLimitExceeded' in e.body) and is_limited_retries_error (400 + a listed message
# in e.body) decide from the `body` of the hailtop.httpx.ClientResponseError that ClientSession.request raises.  "Retries every
# rate-limit failure" therefore needs: for a response with status >= 400 (and raise_for_status) the error that is raised carries
# the response's status and the WHOLE decoded payload of that response as `body`, and the constructor stores it unchanged.
# The transport (aiohttp's _request) is an oracle: it answers with an arbitrary response or raises an arbitrary exception;
# payload_of(resp) is what resp.read() yields, utf8_decoded(bytes) is bytes.decode().

HTTPX = 'hail/python/hailtop/httpx.py'


def _transport(eng, st, args, kw, node):
    r = z3.Const(pyvc.fresh_name('resp'), pyvc.U)
    e = z3.Const(pyvc.fresh_name('transport_exc'), pyvc.U)

    def ok(s):
        s.env['the_resp'] = r

    def bad(s):
        s.env['transport_failed'] = True

    raise Fork(node, [('transport-answers', None, 'value', r, ok), ('transport-raises', None, 'raise', SExc(term=e), bad)])


def _resp_read(eng, st, args, kw, node):
    eng.oblige(st, 'body/read-from-the-response-that-was-received@L%d' % node.lineno, to_z3(args[0], 'U') == st.env['the_resp'])
    return eng.uf('payload_of', ['U'], 'U')(to_z3(args[0], 'U'))


def _bytes_decode(eng, st, args, kw, node):
    if len(args) != 1 or kw:
        raise core.Undecided('bytes.decode with arguments (encoding / errors) is outside the model of the error body')
    return eng.uf('utf8_decoded', ['U'], 'str')(to_z3(args[0], 'U'))


def _client_response_error(eng, st, args, kw, node):
    st.env['err_body'] = kw['body'] if 'body' in kw else (args[2] if len(args) > 2 else '')
    st.env['err_status'] = kw.get('status', 0)
    st.env['err_raised'] = True
    return SExc('ClientResponseError')


def httpx_contracts():
    req = Contract(
        path=HTTPX, qualname='ClientSession.request.request_and_raise_for_status', label='ClientSession.request[raise for status]',
        types={'.status': 'int', '.reason': 'U'}, strings=True,
        # the statements after the json/data preamble: the request itself and what is made of the response
        fragment=('re:^resp = await self\\.client_session\\._request', 're:^return resp$'),
        extra_inputs={'self': 'U', 'method': 'U', 'url': 'U', 'kwargs': 'U', 'raise_for_status': 'bool'},
        calls={'self.client_session._request': _transport, '.read': _resp_read, '.decode': _bytes_decode, '.release': lambda eng, st, args, kw, node: None,
               'raise:ClientResponseError': _client_response_error},
        ghost_init={'the_resp': 'NORESP', 'err_body': "''", 'err_status': '0', 'err_raised': 'False', 'transport_failed': 'False'},
        consts={'NORESP': z3.Const('no_resp', pyvc.U)},
        spec_funcs={'payload_of': (['U'], 'U'), 'utf8_decoded': (['U'], 'str')},
        ensures=[('returns-the-response-it-received', 'result == the_resp'),
                 ('an-error-status-is-not-returned-when-raise_for_status', 'not (raise_for_status and the_resp.status >= 400)')],
        raises={'*': True},
        on_raise=[('the-error-carries-the-whole-decoded-response-body', 'implies(err_raised, err_body == utf8_decoded(payload_of(the_resp)))'),
                  ('the-error-carries-the-response-status', 'implies(err_raised, err_status == the_resp.status)'),
                  ('raises-only-for-error-statuses-or-what-the-transport-raised', 'transport_failed or isinst(exc, AssertionError) or (err_raised and raise_for_status and the_resp.status >= 400)')],
        canaries=[('never-returns-a-response', 'False')],
    )
    ctor = Contract(
        path=HTTPX, qualname='ClientResponseError.__init__', types={'request_info': 'U', 'history': 'U', 'body': 'str', 'kwargs': 'U'}, strings=True,
        self_fields={'body': 'str'},
        calls={'super': lambda eng, st, args, kw, node: z3.Const('super_object', pyvc.U), '.__init__': lambda eng, st, args, kw, node: None},
        ensures=[('stores-the-body-it-was-given-unchanged', 'self.body == body')], raises={},
        canaries=[('body-always-empty', "self.body == ''")],
    )
    return [req, ctor]


def _limited_http_setup(eng, st):
    tbl = eng.modconsts.get('RETRY_ONCE_BAD_REQUEST_ERROR_MESSAGES')
    if not isinstance(tbl, frozenset) or not tbl or not all(isinstance(x, str) for x in tbl):
        raise core.Undecided('anchor-moved: RETRY_ONCE_BAD_REQUEST_ERROR_MESSAGES is not a literal, non-empty set of strings')
    st.env['RETRY_ONCE_BAD_REQUEST_ERROR_MESSAGES'] = eng.list_of(sorted(tbl), 'str')
    st.env['a_listed_message_is_in_the_body'] = z3.Or(*[z3.Contains(eng.attr_of_U(st.env['e'], 'body'), z3.StringVal(x)) for x in sorted(tbl)])


def limited_http_contract():
    """the http clause of is_limited_retries_error, with the module's real message table: 400 and a listed message ANYWHERE in e.body"""
    return Contract(
        path=PATH, qualname='is_limited_retries_error', label='is_limited_retries_error[http clause]', types=dict(CHAIN_TYPES), strings=True,
        fragment=('re:^if isinstance\\(e, hailtop\\.httpx\\.ClientResponseError\\)', 1), extra_inputs={'e': 'U'}, setup=_limited_http_setup,
        consts={'__expand_small_any__': True},
        calls={'isinstance': _isinstance_plain}, spec_funcs={'isinst_hailtop_httpx_ClientResponseError': (['U'], 'bool')},
        ensures=[('a-400-with-a-listed-message-anywhere-in-the-body-is-a-limited-retry-error',
                  'implies(isinst_hailtop_httpx_ClientResponseError(e), result == (e.status == 400 and a_listed_message_is_in_the_body))')],
        raises={}, canaries=[('never-limited', 'result == False')],
    )


def _native(which):
    return core.run_native(open(os.path.join(os.path.dirname(os.path.abspath(__file__)), 'native', 'c21_replay.py')).read(), {'which': which})


def _first_confirmed(*thunks):
    r = {'confirmed': False}
    for t in thunks:
        r = t()
        if isinstance(r, dict) and r.get('confirmed'):
            return r
        if not isinstance(r, dict) or 'confirmed' not in r:
            return dict(r if isinstance(r, dict) else {}, confirmed=False, harness_error=True)
    return r


def _builtin_classes(ctx):
    """'raise any other error immediately', decided by exhaustive enumeration of the finite set of builtin exception classes on the
    real classifiers and the real async helper (contracts/native/c21_replay.py, mode 'classes'): an errno-less instance of a class
    that is neither transient nor rate-limit nor one of the two documented limited-retry classes (ConnectionResetError,
    ConnectionRefusedError) makes the helper call the operation exactly once.  Not a solver obligation: labelled native/enumeration."""
    r = _native(['classes'])
    if not isinstance(r, dict) or 'confirmed' not in r or 'classes' not in (r.get('ran') or []) or r.get('classes_probed', 0) < 20:
        raise core.Undecided('C21 builtin-class enumeration did not run: %r' % (r,))
    o = core.decided('retry_transient_errors/enumeration/builtin-error-classes-outside-the-documented-ones-are-raised-after-one-call', not r['confirmed'],
                     'enumerated %d builtin Exception subclasses constructible without arguments on the real code' % r['classes_probed'] if not r['confirmed'] else json.dumps(r)[:600], kind='native-enumeration')
    if r['confirmed']:
        o.info['__replay__'] = {'what': r.get('what'), 'input': r.get('input'), 'confirmed': True}
    ctx.add(o)


def native_witness(ctx):
    """concrete search on the real code, usable when the contracts no longer apply to a changed source (vc/check.py)"""
    return _first_confirmed(lambda: core.run_native(REPLAY, {'search': True}), lambda: core.run_native(REPLAY_RETRY, {}), lambda: _native(['chain']), lambda: _native(['body']))


def build(ctx):
    for c in classifier_contracts():
        pyvc.Engine(ctx, c).run()
    src = core.read_repo(PATH)
    chain_scans(ctx, src)
    for c in chain_contracts(src) + [limited_http_contract()]:
        e_ = pyvc.Engine(ctx, c)
        e_.replayer = lambda model, obl: _native(['chain'])
        e_.run()
    for c in httpx_contracts():
        e_ = pyvc.Engine(ctx, c)
        e_.replayer = lambda model, obl: _native(['body'])
        # a counter-model of the body clause is a string longer than the cut-off (1025+ characters): z3 5.1 does not find it
        # within any budget (and ignores its timeout), cvc5 answers at once - ask cvc5 first for these VCs
        e_.obl_info = {'cvc5_first': True}
        e_.run()
    eng = pyvc.Engine(ctx, DELAY)
    eng.replayer = _delay_replayer(eng)
    eng.run()
    a = pyvc.Engine(ctx, retry_async())
    a.replayer = lambda model, obl: core.run_native(REPLAY_RETRY, {})
    a.run()
    s = pyvc.Engine(ctx, retry_sync())
    s.replayer = a.replayer
    s.run()
    _sleep_wrappers(ctx)
    _builtin_classes(ctx)
    ctx.witness_search = lambda: native_witness(ctx)
    ctx.assume('inside the retry loops is_limited_retries_error / is_rate_limit_error / is_transient_error are uninterpreted predicates of the exception; the classifiers own contracts state only: the http clauses, and that an error of none of the tested classes is classified by its explicit __cause__ chain alone')
    ctx.assume('classifier contracts: isinstance(e, C) is an uninterpreted predicate per class C; RETRYABLE_ERRNOS, socket.EAI_* and (for the chain contracts) the message table are arbitrary; e.args[0] exists where the code reads it (aiohttp.ClientPayloadError)')
    ctx.assume('hailtop.httpx: the aiohttp transport is an oracle (answers with an arbitrary response or raises); payload_of(resp) is what resp.read() yields, utf8_decoded(b) is b.decode(); the json/data preamble of request_and_raise_for_status is outside the fragment under contract; aiohttp.ClientResponseError.__init__ (super) does not touch self.body')
    ctx.assume('random.randrange(n) returns an integer in [0, n) for n > 0')
    ctx.assume('f is an oracle: any call either returns or raises an arbitrary exception; logging, time_msecs and traceback calls have no effect on control flow')
    ctx.assume('float division by 1000.0 treated as real division (the delay in seconds is only passed to sleep)')
    ctx.assume('sync_retry_transient_errors consults only is_transient_error; the contract for it is "raise iff not transient" with L and R ignored (stated deviation: the property text speaks of the helpers collectively)')
    ctx.undecided('which concrete exception classes the classifiers count as transient (their class tests), and limited-retry classification of third-party / argument-carrying classes; decided are the http clauses, the cause-chain traversal, the origin of e.body and - by native enumeration, not by the solver - that no builtin error class outside ConnectionResetError / ConnectionRefusedError is retried by the async helper unless it is transient')
