"""C15 (c): what the round trip of a job's region set DEPENDS ON outside the encoder/decoder pair.

"a job's selected region set is recovered exactly from its stored bitset" holds for a stored job only if
  (store)   the bitset written for a job is encode(THAT job's regions) - front_end.py::_create_jobs
  (decode)  the bitset decoded for a job is the one stored for THAT job - job_private.py::create_instances_loop_body
  (stable)  the mapping region -> id used by the decoder is the one the encoder used: the id of an existing row of table
            `regions` never changes (the drivers re-register their regions at every start)

(store)  pyvc, fragment mode, on the real per-job loop body of _create_jobs:
   _create_jobs[region-bits]   from `regions = spec.get('regions')`, 2 statements, with n_regions / regions_bits_rep holding
                               ARBITRARY values on entry (whatever an earlier iteration or the function prologue left there):
        spec has no regions  =>  regions_bits_rep is None and n_regions is None
        spec has regions     =>  regions_bits_rep == ENC(regions, app['regions']), n_regions == len(regions); rejected with
                                 HTTPBadRequest exactly when empty or when some region is not a key of the mapping (which
                                 discharges the encoder's precondition "selected regions are keys of the mapping" at its call)
   _create_jobs[jobs-row]      the `jobs_args.append((...))` statement: columns 10 / 11 of the appended row are n_regions /
                               regions_bits_rep of this iteration; the INSERT INTO jobs statement executed with jobs_args names
                               the columns n_regions / regions_bits_rep at these positions (vc/sqlparse)
   plus, decided on the AST: n_regions / regions_bits_rep are bound nowhere else in _create_jobs (so the fragment's result
   reaches the append unchanged), the fragment and the append are statements of the same per-job loop body in this order.
(decode) on the AST of create_instances_loop_body (closure analysis) + pyvc on the nested coroutine:
   the per-job coroutine is handed its own `record`, reads format_version / spec / regions_bits_rep from THAT parameter, and
   has no free variable that the enclosing function rebinds inside a loop (a coroutine scheduled on the pool runs after the
   enclosing loop has moved on: a free variable would then hold the value of a LATER record);
   the arguments of self.create_instance are decode(record.regions_bits_rep) / the machine spec read from record.spec.
(stable) vc/sqlparse over every SQL statement embedded in batch/**/*.py and every migration that touches table `regions`:
   only SELECT, and INSERT whose ON DUPLICATE KEY UPDATE clause assigns nothing but `region = region`; no REPLACE / DELETE /
   UPDATE / TRUNCATE; each driver's create() registers its regions with such an INSERT; region_id is the AUTO_INCREMENT
   primary key and region is UNIQUE in the effective schema.
"""
from __future__ import annotations

import ast
import os
import re

import z3

from vc import core, pyvc
from vc.pyvc import Contract, SList, SRecord

FE = 'batch/batch/front_end/front_end.py'
JP = 'batch/batch/driver/instance_collection/job_private.py'

# ---------------------------------------------------------------------------------------------------------------------
# (store) front_end.py::_create_jobs

ENC = z3.Function('encode_regions', z3.IntSort(), z3.ArraySort(z3.IntSort(), pyvc.U), pyvc.U)  # regions_to_bits_rep(list, THE mapping)
REGION_FRAGMENT = (r"re:^regions = spec\.get\('regions'\)", 2)
ROW_FRAGMENT = (r"re:^jobs_args\.append\(", 1)
ALL_IN_MAPPING = "forall(lambda i: implies(0 <= i < len(REGIONS), REGIONS[i] in MAPPING))"


def _exact_set(eng, st, args, kw, node):
    """set(L) as a duplicate-free-or-not list with exactly the elements of L (the engine's built-in model only says 'drawn from L')"""
    if len(args) != 1 or not isinstance(args[0], SList) or args[0].et is None:
        raise core.Undecided('set() of %s' % ast.unparse(node))
    L = args[0]
    T = pyvc.fresh_value(('list', L.et), 'set_of')
    i, j = z3.Int(pyvc.fresh_name('se_i')), z3.Int(pyvc.fresh_name('se_j'))
    st.assume(z3.And(T.len >= 0, T.len <= L.len))
    st.assume(z3.ForAll([i], z3.Implies(z3.And(i >= 0, i < T.len), z3.Exists([j], z3.And(j >= 0, j < L.len, z3.Select(T.arr, i) == z3.Select(L.arr, j))))))
    st.assume(z3.ForAll([j], z3.Implies(z3.And(j >= 0, j < L.len), z3.Exists([i], z3.And(i >= 0, i < T.len, z3.Select(T.arr, i) == z3.Select(L.arr, j))))))
    return T


def _with_set_difference(eng):
    """A.difference(B) on the list model of sets: non-empty exactly when some element of A is not an element of B; its elements are such elements"""
    orig = eng.call_method

    def call_method(recv, meth, node, st):
        if meth == 'difference' and isinstance(recv, SList) and recv.et is not None and len(node.args) == 1 and not node.keywords:
            other = eng.ev(node.args[0], st)
            if isinstance(other, SList):
                T = pyvc.fresh_value(('list', recv.et), 'difference')
                i, j, k = z3.Int(pyvc.fresh_name('df_i')), z3.Int(pyvc.fresh_name('df_j')), z3.Int(pyvc.fresh_name('df_k'))
                in_other = lambda x: z3.Exists([j], z3.And(0 <= j, j < other.len, z3.Select(other.arr, j) == x)) if other.et is not None else z3.BoolVal(False)
                st.assume(T.len >= 0)
                st.assume((T.len > 0) == z3.Exists([i], z3.And(0 <= i, i < recv.len, z3.Not(in_other(z3.Select(recv.arr, i))))))
                st.assume(z3.ForAll([k], z3.Implies(z3.And(0 <= k, k < T.len), z3.And(z3.Not(in_other(z3.Select(T.arr, k))), z3.Exists([i], z3.And(0 <= i, i < recv.len, z3.Select(recv.arr, i) == z3.Select(T.arr, k)))))))
                return T
        return orig(recv, meth, node, st)

    eng.call_method = call_method


def region_bits_contract(has_regions):
    def setup(eng, st):
        st.env['spec'] = SRecord('dict', {'regions': st.env['REGIONS']} if has_regions else {})
        st.env['app'] = SRecord('dict', {'regions': st.env['MAPPING']})
        st.env['ENC_OF_THIS_SPEC'] = ENC(st.env['REGIONS'].len, st.env['REGIONS'].arr)
        _with_set_difference(eng)

    def encoder(eng, st, args, kw, node):
        if len(args) != 2 or kw or not isinstance(args[0], SList) or args[1] is not st.env['MAPPING']:
            raise core.Undecided('regions_to_bits_rep called with other arguments than (a list, app[\'regions\']): %s' % ast.unparse(node))
        eng.oblige(st, 'pre/regions_to_bits_rep/selected-regions-are-keys-of-the-mapping', eng.ev_bool_str(ALL_IN_MAPPING.replace('REGIONS', '__sel__'), _bind(st, '__sel__', args[0])))
        return ENC(args[0].len, args[0].arr)

    if has_regions:
        ens = [
            ('stored-bits-encode-the-regions-of-this-spec', 'regions_bits_rep == ENC_OF_THIS_SPEC'),
            ('n_regions-counts-the-regions-of-this-spec', 'n_regions == len(REGIONS)'),
            ('accepted-only-non-empty-and-known-regions', 'len(REGIONS) > 0 and ' + ALL_IN_MAPPING),
        ]
        canaries = [('bits-always-None', 'regions_bits_rep is None')]
    else:
        ens = [
            ('no-regions-in-this-spec-stores-NULL-bits', 'regions_bits_rep is None'),
            ('no-regions-in-this-spec-stores-NULL-count', 'n_regions is None'),
        ]
        canaries = [('bits-never-None', 'regions_bits_rep is not None')]
    return Contract(
        path=FE,
        qualname='_create_jobs',
        label='_create_jobs[region-bits/%s]' % ('spec-with-regions' if has_regions else 'spec-without-regions'),
        fragment=REGION_FRAGMENT,
        # n_regions / regions_bits_rep are INPUTS with arbitrary values: whatever the prologue or an earlier iteration left in them
        extra_inputs={'REGIONS': 'List[U]', 'MAPPING': 'Dict[U, int]', 'n_regions': 'U', 'regions_bits_rep': 'U'},
        setup=setup,
        strings=True,
        calls={'regions_to_bits_rep': encoder, 'set': _exact_set},
        raises={'HTTPBadRequest': 'len(REGIONS) == 0 or not ' + ALL_IN_MAPPING} if has_regions else {},
        ensures=ens,
        canaries=canaries,
    )


def _bind(st, name, value):
    s2 = st.fork()
    s2.env = dict(s2.env)
    s2.env[name] = value
    return s2


JOBS_ROW = 'Tuple[U, int, int, int, str, U, bool, int, int, U, U, U, U]'


def jobs_row_contract():
    def setup(eng, st):
        st.env['old_jobs_args'] = st.env['jobs_args']

    last = 'jobs_args[len(jobs_args) - 1]'
    return Contract(
        path=FE,
        qualname='_create_jobs',
        label='_create_jobs[jobs-row]',
        fragment=ROW_FRAGMENT,
        extra_inputs={
            'batch_id': 'U', 'job_id': 'int', 'update_id': 'int', 'job_group_id': 'int', 'state': 'str', 'db_spec': 'U', 'always_run': 'bool', 'cores_mcpu': 'int',
            'parent_ids': 'List[int]', 'inst_coll_name': 'U', 'n_regions': 'U', 'regions_bits_rep': 'U', 'n_max_attempts': 'U', 'jobs_args': 'List[%s]' % JOBS_ROW,
        },
        setup=setup,
        calls={'json.dumps': lambda eng, st, args, kw, node: z3.Const(pyvc.fresh_name('json'), pyvc.U)},
        ensures=[
            ('one-row-appended-for-this-job', 'len(jobs_args) == len(old_jobs_args) + 1 and %s[0] == batch_id and %s[1] == job_id' % (last, last)),
            ('row-carries-the-region-count-of-this-iteration', '%s[10] == n_regions' % last),
            ('row-carries-the-region-bits-of-this-iteration', '%s[11] == regions_bits_rep' % last),
        ],
        canaries=[('row-bits-always-None', '%s[11] is None' % last)],
    )


# ---------------------------------------------------------------------------------------------------------------------
# (decode) job_private.py::JobPrivateInstanceManager.create_instances_loop_body

JP_OUTER = 'JobPrivateInstanceManager.create_instances_loop_body'
MSPEC = z3.Function('stored_machine_spec', z3.IntSort(), pyvc.U, pyvc.U)  # BatchFormatVersion(v).get_spec_machine_spec(json.loads(s))
JSON = z3.Function('json_loads', pyvc.U, pyvc.U)
DEC = z3.Function('decode_regions', pyvc.U, pyvc.U)  # regions_bits_rep_to_regions(bits, THE mapping)


def _deferred_defs(outer):
    """nested function definitions of `outer` that are handed, by name, to a call inside `outer` (here: waitable_pool.call(f, ...)):
    such a function runs LATER than the statement that mentions it"""
    nested = {n.name: n for n in pyvc._direct_defs(outer)}
    handed = []
    for n in ast.walk(outer):
        if isinstance(n, ast.Call):
            for a in list(n.args) + [k.value for k in n.keywords]:
                if isinstance(a, ast.Name) and a.id in nested and nested[a.id] not in handed:
                    handed.append(nested[a.id])
    return handed


def _bound_names(stmts, into_defs=False):
    """names bound by the statements (assignment / for / with / except-as / walrus / def / import targets), not descending into nested defs"""
    out = set()

    def targets(t):
        if isinstance(t, ast.Name):
            out.add(t.id)
        elif isinstance(t, (ast.Tuple, ast.List)):
            for e in t.elts:
                targets(e)
        elif isinstance(t, ast.Starred):
            targets(t.value)

    def visit(n):
        if isinstance(n, (ast.FunctionDef, ast.AsyncFunctionDef, ast.ClassDef)):
            out.add(n.name)
            if not into_defs:
                return
        if isinstance(n, ast.Lambda) and not into_defs:
            return
        if isinstance(n, ast.Assign):
            for t in n.targets:
                targets(t)
        elif isinstance(n, (ast.AugAssign, ast.AnnAssign)):
            if not (isinstance(n, ast.AnnAssign) and n.value is None):
                targets(n.target)
        elif isinstance(n, (ast.For, ast.AsyncFor)):
            targets(n.target)
        elif isinstance(n, (ast.With, ast.AsyncWith)):
            for it in n.items:
                if it.optional_vars is not None:
                    targets(it.optional_vars)
        elif isinstance(n, ast.ExceptHandler) and n.name:
            out.add(n.name)
        elif isinstance(n, ast.NamedExpr):
            targets(n.target)
        elif isinstance(n, (ast.Import, ast.ImportFrom)):
            for a in n.names:
                out.add((a.asname or a.name).split('.')[0])
        elif isinstance(n, ast.comprehension):
            return  # comprehension targets are local to the comprehension
        for ch in ast.iter_child_nodes(n):
            visit(ch)

    for s in stmts:
        visit(s)
    return out


def _free_names(fn):
    """names read in fn that are neither parameters nor bound in fn (comprehension variables excluded)"""
    a = fn.args
    params = {x.arg for x in a.posonlyargs + a.args + a.kwonlyargs} | ({a.vararg.arg} if a.vararg else set()) | ({a.kwarg.arg} if a.kwarg else set())
    local = _bound_names(fn.body, into_defs=True) | params
    comp = set()
    for n in ast.walk(fn):
        if isinstance(n, ast.comprehension):
            for t in ast.walk(n.target):
                if isinstance(t, ast.Name):
                    comp.add(t.id)
    nonlocal_ = set()
    for n in ast.walk(fn):
        if isinstance(n, (ast.Nonlocal, ast.Global)):
            nonlocal_ |= set(n.names)
    reads = {n.id for n in ast.walk(fn) if isinstance(n, ast.Name) and isinstance(n.ctx, ast.Load)}
    return (reads - (local - nonlocal_) - comp) | nonlocal_


def _loops(fn):
    out = []

    def visit(n):
        for ch in ast.iter_child_nodes(n):
            if isinstance(ch, (ast.FunctionDef, ast.AsyncFunctionDef, ast.ClassDef, ast.Lambda)):
                continue
            if isinstance(ch, (ast.For, ast.AsyncFor, ast.While)):
                out.append(ch)
            visit(ch)

    visit(fn)
    return out


def decode_site_scans(ctx):
    tree = ast.parse(core.read_repo(JP))
    outer = pyvc.find_function(tree, JP_OUTER)
    deferred = _deferred_defs(outer)
    uses = [d for d in deferred if any(isinstance(n, ast.Call) and (pyvc._dotted(n.func) or '').split('.')[-1] in ('regions_bits_rep_to_regions', 'get_spec_machine_spec', 'create_instance') for n in ast.walk(d))]
    ctx.add(core.decided('scan/create_instances_loop_body/the-instance-for-a-job-is-created-by-a-coroutine-handed-to-the-pool', len(uses) == 1,
                         detail='nested functions handed to a call: %s; of these decode / create an instance: %s' % ([d.name for d in deferred], [d.name for d in uses])))
    rebound = set()
    for lp in _loops(outer):
        rebound |= _bound_names([lp]) - set()
    rebound -= {d.name for d in deferred}  # the def statement itself rebinds the function's own name only
    for d in deferred:
        free = _free_names(d)
        bad = sorted(free & rebound)
        ctx.add(core.decided('scan/create_instances_loop_body/%s/no-free-variable-is-rebound-by-the-enclosing-loops' % d.name, not bad,
                             detail='free variables of the deferred coroutine that a later iteration of an enclosing loop rebinds before the coroutine runs: %s' % (bad or 'none')))
    # every outer-scope call of the decoders (outside the deferred coroutine) would decode for the loop, not for the job: none today
    outside = []
    for n in ast.walk(outer):
        if isinstance(n, ast.Call) and (pyvc._dotted(n.func) or '').split('.')[-1] in ('regions_bits_rep_to_regions', 'get_spec_machine_spec'):
            if not any(n in list(ast.walk(d)) for d in deferred):
                outside.append('L%d %s' % (n.lineno, ast.unparse(n)[:80]))
    ctx.add(core.decided('scan/create_instances_loop_body/stored-forms-are-decoded-inside-the-per-job-coroutine', not outside, detail='decoder calls in the loop body itself: %s' % (outside or 'none')))
    # the call that hands the coroutine to the pool passes the loop's current `record` for the coroutine's record parameter
    ok, why = False, 'no call handing the coroutine found'
    for d in uses[:1]:
        params = [x.arg for x in d.args.args]
        for n in ast.walk(outer):
            if isinstance(n, ast.Call) and any(isinstance(a, ast.Name) and a.id == d.name for a in n.args):
                pos = [i for i, a in enumerate(n.args) if isinstance(a, ast.Name) and a.id == d.name][0]
                passed = [ast.unparse(a) for a in n.args[pos + 1:]]
                loop_targets = [ast.unparse(lp.target) for lp in _loops(outer) if isinstance(lp, (ast.For, ast.AsyncFor)) and any(n is x for x in ast.walk(lp))]
                rec_params = [p for p in params if any(isinstance(s, ast.Subscript) and isinstance(s.value, ast.Name) and s.value.id == p and isinstance(s.slice, ast.Constant) and s.slice.value == 'regions_bits_rep' for s in ast.walk(d))]
                ok = len(passed) == len(params) and len(rec_params) == 1 and passed[params.index(rec_params[0])] in loop_targets
                why = 'parameters %s, passed %s, record parameter %s, enclosing loop targets %s' % (params, passed, rec_params, loop_targets)
    ctx.add(core.decided('scan/create_instances_loop_body/the-coroutine-is-handed-the-record-of-this-iteration', ok, detail=why))
    return uses[0] if len(uses) == 1 else None


def decode_coroutine_contract(name):
    def setup(eng, st):
        st.env['record'] = SRecord('dict', {'format_version': st.env['FORMAT_VERSION'], 'spec': st.env['STORED_SPEC'], 'regions_bits_rep': st.env['STORED_BITS'], 'user': st.env['USER']})
        st.env['self'] = SRecord('JobPrivateInstanceManager', {'inst_coll_manager': SRecord('InstanceCollectionManager', {'regions': st.env['DEFAULT_REGIONS']}), 'app': SRecord('dict', {'regions': st.env['MAPPING']})})
        st.env['CREATED'] = z3.BoolVal(False)
        st.env['CREATED_MACHINE_SPEC'] = z3.Const('nothing_created_ms', pyvc.U)
        st.env['CREATED_REGIONS'] = z3.Const('nothing_created_regions', pyvc.U)
        orig = eng.call_method

        def call_method(recv, meth, node, st2):
            if isinstance(recv, SRecord) and recv.cls == 'BatchFormatVersion' and meth == 'get_spec_machine_spec' and len(node.args) == 1:
                return MSPEC(pyvc.to_z3(recv.fields['format_version'], 'int'), pyvc.to_z3(eng.ev(node.args[0], st2), 'U'))
            if isinstance(recv, SRecord) and recv.cls == 'JobPrivateInstanceManager' and meth == 'create_instance' and len(node.args) == 2:
                ms, rg = [pyvc.to_z3(eng.ev(a, st2), 'U') for a in node.args]
                eng.oblige(st2, 'pre/create_instance/at-most-one-instance-per-job', z3.Not(st2.env['CREATED']))
                st2.env['CREATED'], st2.env['CREATED_MACHINE_SPEC'], st2.env['CREATED_REGIONS'] = z3.BoolVal(True), ms, rg
                return (z3.Const(pyvc.fresh_name('instance'), pyvc.U), z3.Const(pyvc.fresh_name('resources'), pyvc.U))
            return orig(recv, meth, node, st2)

        eng.call_method = call_method

    def decoder(eng, st, args, kw, node):
        if len(args) != 2 or kw or args[1] is not st.env['MAPPING']:
            raise core.Undecided("regions_bits_rep_to_regions called with another mapping than self.app['regions']: %s" % ast.unparse(node))
        return DEC(pyvc.to_z3(args[0], 'U'))

    opaque = lambda eng, st, args, kw, node: None
    WANT_MS = 'stored_machine_spec(FORMAT_VERSION, json_loads(STORED_SPEC))'
    return Contract(
        path=JP,
        qualname=JP_OUTER + '.' + name,
        label='create_instances_loop_body.%s' % name,
        types={'batch_id': 'int', 'job_id': 'int', 'attempt_id': 'U', 'job_group_id': 'int', 'record': 'U'},
        extra_inputs={'FORMAT_VERSION': 'int', 'STORED_SPEC': 'U', 'STORED_BITS': 'U', 'USER': 'U', 'DEFAULT_REGIONS': 'U', 'MAPPING': 'Dict[U, int]'},
        spec_funcs={'stored_machine_spec': (['int', 'U'], 'U'), 'json_loads': (['U'], 'U'), 'decode_regions': (['U'], 'U')},
        setup=setup,
        strings=True,
        calls={
            'BatchFormatVersion': lambda eng, st, args, kw, node: SRecord('BatchFormatVersion', {'format_version': args[0]}),
            'json.loads': lambda eng, st, args, kw, node: JSON(pyvc.to_z3(args[0], 'U')),
            'regions_bits_rep_to_regions': decoder,
            'log.info': opaque, 'log.exception': opaque, 'mark_job_creating': opaque, 'mark_job_errored': opaque,
            'time_msecs': lambda eng, st, args, kw, node: z3.Int(pyvc.fresh_name('now')),
            'traceback.format_exc': lambda eng, st, args, kw, node: z3.Const(pyvc.fresh_name('tb'), pyvc.U),
        },
        raises={},
        ensures=[
            ('machine-spec-is-read-from-the-stored-spec-of-this-record', 'not CREATED or CREATED_MACHINE_SPEC == ' + WANT_MS),
            ('regions-are-decoded-from-the-stored-bits-of-this-record', 'not CREATED or CREATED_REGIONS == ite(STORED_BITS is None, DEFAULT_REGIONS, decode_regions(STORED_BITS))'),
        ],
        canaries=[('never-creates', 'not CREATED'), ('always-default-regions', 'CREATED_REGIONS == DEFAULT_REGIONS')],
    )


# ---------------------------------------------------------------------------------------------------------------------
# (stable) table `regions`: the id of an existing region never changes

DRIVERS = {
    'batch/batch/cloud/gcp/driver/driver.py': 'GCPDriver.create',
    'batch/batch/cloud/azure/driver/driver.py': 'AzureDriver.create',
    'batch/batch/cloud/terra/azure/driver/driver.py': 'TerraAzureDriver.create',
}
_WRITE_HEAD = re.compile(r'\s*(INSERT|REPLACE|UPDATE|DELETE|TRUNCATE|ALTER|DROP|RENAME|LOAD|CREATE|WITH)\b', re.I)
_REGIONS_WORD = re.compile(r'(?<![\w.])`?regions`?(?![\w])', re.I)
# statement kinds that cannot keep the ids of existing rows, recognised on the text (also when the statement is outside the SQL subset)
_DESTRUCTIVE = re.compile(r'\b(REPLACE(\s+LOW_PRIORITY|\s+DELAYED)?(\s+INTO)?|DELETE(\s+\w+)*?\s+FROM|UPDATE(\s+LOW_PRIORITY|\s+IGNORE)*|TRUNCATE(\s+TABLE)?|DROP\s+TABLE(\s+IF\s+EXISTS)?|RENAME\s+TABLE|ALTER\s+TABLE)\s+`?regions`?(?![\w])', re.I)


def _region_write_problems(stmt, where):
    """why a parsed statement may change / delete the id of an existing row of `regions` ([] when it cannot)"""
    from vc import sqlast as A

    out = []
    nodes = [stmt] + (list(stmt.walk()) if hasattr(stmt, 'walk') else [])
    seen = set()
    for n in nodes:
        if id(n) in seen:
            continue
        seen.add(id(n))
        if isinstance(n, A.Insert) and str(n.table).lower().strip('`') == 'regions':
            if n.replace:
                out.append('%s: REPLACE INTO regions deletes the existing row and inserts a new one with a fresh AUTO_INCREMENT region_id' % where)
            if n.columns is None or [c.lower() for c in n.columns] != ['region']:
                out.append('%s: INSERT INTO regions names columns %r, not just (region): region_id must come from AUTO_INCREMENT' % (where, n.columns))
            for tgt, val in n.on_duplicate:
                noop = isinstance(val, A.Name) and tgt.parts[-1].lower() == val.parts[-1].lower() == 'region' and len(val.parts) == 1
                if not noop:
                    out.append('%s: ON DUPLICATE KEY UPDATE %s = %s changes an existing region row' % (where, '.'.join(tgt.parts), val.to_sql() if hasattr(val, 'to_sql') else val))
        elif isinstance(n, A.Delete) and ('regions' in [str(t).lower() for t in ([n.table] + list(n.targets or []))]):
            out.append('%s: DELETE FROM regions' % where)
    return out


def _update_tables(stmt):
    from vc import sqlast as A

    names = []
    for n in [stmt] + (list(stmt.walk()) if hasattr(stmt, 'walk') else []):
        if isinstance(n, A.Update):
            for t in [n.tables] + (list(n.tables.walk()) if hasattr(n.tables, 'walk') else []):
                nm = getattr(t, 'name', None)
                if isinstance(nm, str):
                    names.append(nm.lower())
    return names


def regions_table_scans(ctx):
    import glob

    from vc import sqlast as A
    from vc import sqlparse as SP

    # (1) the effective schema: ids are handed out by AUTO_INCREMENT, one row per region name
    tabs = SP.effective_tables(core.REPO)
    t = tabs.get('regions')
    ok = t is not None and tuple(t.primary_key) == ('region_id',) and t.columns['region_id'].auto_increment and any(tuple(u) == ('region',) for u in t.unique_keys.values())
    ctx.add(core.decided('scan/regions-table/region_id-is-the-auto-increment-primary-key-and-region-is-unique', bool(ok), detail=repr(t)[:300]))

    # (2) every SQL string embedded in the Python sources of the service + every stored routine
    problems, inserts, n_strings, unparsed = [], {}, 0, []
    for fp in sorted(glob.glob(os.path.join(core.REPO, 'batch', 'batch', '**', '*.py'), recursive=True)):
        rel = os.path.relpath(fp, core.REPO)
        try:
            strings = SP.python_sql_strings(fp)
        except SyntaxError as e:
            raise core.Undecided('%s does not parse: %s' % (rel, e))
        for line, text, holes in strings:
            if not _REGIONS_WORD.search(text):
                continue
            where = '%s:%d' % (rel, line)
            m = _DESTRUCTIVE.search(text)  # on every string, wherever the statement sits in it
            if m:
                problems.append('%s: `%s` - the statement removes or rewrites rows of regions, so an existing region does not keep its region_id' % (where, ' '.join(m.group(0).split())))
                continue
            if not _WRITE_HEAD.match(text):
                continue  # a query (SELECT ... FROM regions), a log message, a docstring
            n_strings += 1
            try:
                stmts = SP.parse_statements(text, rel, line)
            except Exception as e:  # outside the SQL subset: not decided here
                unparsed.append('%s: %s' % (where, str(e)[:120]))
                continue
            for s in stmts:
                problems += _region_write_problems(s, where)
                if 'regions' in _update_tables(s):
                    problems.append('%s: UPDATE of table regions' % where)
                if isinstance(s, A.Insert) and str(s.table).lower() == 'regions':
                    inserts.setdefault(rel, []).append(line)
    for name, r in SP.effective_routines(core.REPO).items():
        for n in r.body.walk():
            problems += _region_write_problems(n, 'routine %s L%s' % (name, getattr(n, 'line', '?'))) if isinstance(n, (A.Insert, A.Delete)) else []
            if isinstance(n, A.Update) and 'regions' in _update_tables(n):
                problems.append('routine %s: UPDATE of table regions' % name)
    if unparsed:
        ctx.undecided('statements mentioning table regions outside the SQL subset: %s' % unparsed)
    ctx.add(core.decided('scan/regions-table/no-statement-changes-or-deletes-the-id-of-an-existing-region', not problems and not unparsed,
                         detail='; '.join(problems + unparsed) or '%d writing statements mention regions, all INSERT (region) ... ON DUPLICATE KEY UPDATE region = region' % n_strings))

    # (3) each driver registers its regions at start with such an INSERT, inside create(), before it reads the mapping
    for rel, qual in DRIVERS.items():
        tree = ast.parse(core.read_repo(rel))
        fn = pyvc.find_function(tree, qual)
        lines = [l for l in inserts.get(rel, []) if fn.lineno <= l <= fn.end_lineno]
        sel = [n.lineno for n in ast.walk(fn) if isinstance(n, ast.Constant) and isinstance(n.value, str) and re.match(r'\s*SELECT\b.*\bFROM\s+regions\b', n.value, re.I | re.S)]
        ctx.add(core.decided('scan/regions-table/%s/registers-regions-with-a-keeping-insert-before-reading-the-mapping' % qual, len(lines) >= 1 and len(sel) >= 1 and min(lines) < min(sel),
                             detail='INSERT INTO regions at lines %s, SELECT ... FROM regions at lines %s' % (lines, sel)))


# ---------------------------------------------------------------------------------------------------------------------
# (store) what is decided on the AST of _create_jobs


def _header(stmt):
    return pyvc._header_text(stmt)


def store_site_scans(ctx):
    from vc import sqlast as A
    from vc import sqlparse as SP

    tree = ast.parse(core.read_repo(FE))
    fn = pyvc.find_function(tree, '_create_jobs')
    per_job = [lp for lp in ast.walk(fn) if isinstance(lp, ast.For) and any(pyvc._anchor_match(REGION_FRAGMENT[0], _header(x)) for x in lp.body)]
    ok, detail, frag_stmts, append_stmt = False, 'no loop of _create_jobs has the region statements in its body', [], None
    if len(per_job) == 1:
        body = per_job[0].body
        i = [k for k, x in enumerate(body) if pyvc._anchor_match(REGION_FRAGMENT[0], _header(x))][0]
        frag_stmts = body[i: i + REGION_FRAGMENT[1]]
        apps = [k for k, x in enumerate(body) if pyvc._anchor_match(ROW_FRAGMENT[0], _header(x))]
        ok = len(apps) == 1 and apps[0] >= i + REGION_FRAGMENT[1] and ast.unparse(per_job[0].iter) == 'job_specs'
        append_stmt = body[apps[0]] if len(apps) == 1 else None
        detail = 'loop `for %s in %s` (line %d): region statements at body index %d, jobs_args.append at %s' % (ast.unparse(per_job[0].target), ast.unparse(per_job[0].iter), per_job[0].lineno, i, apps)
    ctx.add(core.decided('scan/_create_jobs/region-bits-are-computed-and-the-row-is-appended-in-the-same-per-job-iteration-in-this-order', ok, detail=detail))
    # the loop variable read by the region statements is the one of this loop, and nothing rebinds it in between
    inside = set()
    for x in frag_stmts:
        inside |= {id(n) for n in ast.walk(x)}
    elsewhere = []
    for n in ast.walk(fn):
        if id(n) in inside:
            continue
        names = set()
        if isinstance(n, (ast.Assign, ast.AugAssign, ast.AnnAssign, ast.For, ast.AsyncFor, ast.With, ast.AsyncWith, ast.NamedExpr, ast.ExceptHandler, ast.FunctionDef, ast.AsyncFunctionDef, ast.Import, ast.ImportFrom, ast.Delete)):
            shallow = type(n)(**{f: (getattr(n, f) if f not in ('body', 'orelse', 'finalbody', 'handlers') else []) for f in n._fields}) if not isinstance(n, (ast.FunctionDef, ast.AsyncFunctionDef, ast.ExceptHandler)) else None
            if shallow is not None:
                names = _bound_names([shallow]) | ({t.id for t in getattr(n, 'targets', []) if isinstance(t, ast.Name)} if isinstance(n, ast.Delete) else set())
            elif isinstance(n, ast.ExceptHandler):
                names = {n.name} if n.name else set()
            else:
                a = n.args
                names = {n.name} | {x.arg for x in a.posonlyargs + a.args + a.kwonlyargs}
        hit = names & {'n_regions', 'regions_bits_rep'}
        if hit:
            elsewhere.append('L%d binds %s' % (n.lineno, sorted(hit)))
    ctx.add(core.decided('scan/_create_jobs/region-count-and-bits-are-bound-only-by-the-per-job-region-statements', bool(frag_stmts) and not elsewhere,
                         detail='; '.join(elsewhere) or 'bound only at lines %s' % sorted({n.lineno for x in frag_stmts for n in ast.walk(x) if isinstance(n, ast.Name) and isinstance(n.ctx, ast.Store) and n.id in ('n_regions', 'regions_bits_rep')})))
    # the INSERT executed with jobs_args stores tuple positions 10 / 11 in columns n_regions / regions_bits_rep
    ins = []
    for n in ast.walk(fn):
        if isinstance(n, ast.Constant) and isinstance(n.value, str) and re.match(r'\s*(INSERT|REPLACE)\b[^;]*\bINTO\s+`?jobs`?\b', n.value, re.I):
            ins.append(n)
    ok, detail = False, 'INSERT INTO jobs statements in _create_jobs: %d' % len(ins)
    if len(ins) == 1 and append_stmt is not None:
        st = SP.parse_statements(ins[0].value, FE, ins[0].lineno)
        row = append_stmt.value.args[0] if isinstance(append_stmt, ast.Expr) and isinstance(append_stmt.value, ast.Call) and len(append_stmt.value.args) == 1 else None
        if len(st) == 1 and isinstance(st[0], A.Insert) and st[0].columns and isinstance(row, ast.Tuple):
            cols = [c.lower() for c in st[0].columns]
            vals = st[0].source[0] if isinstance(st[0].source, list) and len(st[0].source) == 1 else None
            positional = vals is not None and len(vals) == len(cols) and all(isinstance(v, A.Param) for v in vals)
            ok = positional and len(cols) == len(row.elts) and cols.index('regions_bits_rep') == 11 and cols.index('n_regions') == 10 if ('regions_bits_rep' in cols and 'n_regions' in cols) else False
            detail = 'columns %s; VALUES all positional parameters: %s; appended tuple has %d fields' % (cols, positional, len(row.elts))
    ctx.add(core.decided('scan/_create_jobs/insert-stores-tuple-fields-10-and-11-in-columns-n_regions-and-regions_bits_rep', bool(ok), detail=detail))


# ---------------------------------------------------------------------------------------------------------------------
# native replays: the real statements, extracted from the source of the tree under test, run under /venv/bin/python

REPLAY_STORE = r'''
import sys, json, os, ast, re
src = open(os.path.join(os.environ['VERIF_REPO'], 'batch/batch/front_end/front_end.py')).read()
tree = ast.parse(src)
fn = [n for n in ast.walk(tree) if isinstance(n, ast.AsyncFunctionDef) and n.name == '_create_jobs'][0]
loop = [n for n in ast.walk(fn) if isinstance(n, ast.For) and any(re.match(r"^regions = spec\.get\('regions'\)", ast.unparse(x)) for x in n.body)][0]
i = [k for k, x in enumerate(loop.body) if re.match(r"^regions = spec\.get\('regions'\)", ast.unparse(x))][0]
frag = loop.body[i:i + 2]
# statements of the function prologue (before the loop) that bind the two variables
pro = [x for x in fn.body if x is not loop and isinstance(x, (ast.Assign, ast.AnnAssign)) and any(isinstance(t, ast.Name) and t.id in ('n_regions', 'regions_bits_rep') for t in ast.walk(x))]
ut = ast.parse(open(os.path.join(os.environ['VERIF_REPO'], 'batch/batch/utils.py')).read())
import typing
ns = {'Optional': typing.Optional, 'Dict': typing.Dict, 'List': typing.List}
exec(compile(ast.Module(body=[n for n in ut.body if isinstance(n, ast.FunctionDef) and n.name == 'regions_to_bits_rep'], type_ignores=[]), 'utils-extract', 'exec'), ns)
class HTTPBadRequest(Exception):
    def __init__(self, reason=None, text=None): self.reason = reason
class web: HTTPBadRequest = HTTPBadRequest
mapping = {'us-central1': 1, 'us-east1': 2, 'europe-west1': 5}
env = {'app': {'regions': mapping}, 'web': web, 'regions_to_bits_rep': ns['regions_to_bits_rep'], 'Optional': typing.Optional}
exec(compile(ast.Module(body=pro, type_ignores=[]), 'front_end-prologue', 'exec'), env)
res = {'confirmed': False}
specs = [{'job_id': 1, 'regions': ['us-east1', 'europe-west1']}, {'job_id': 2}, {'job_id': 3, 'regions': ['us-central1']}, {'job_id': 4}]
for spec in specs:
    env['spec'] = spec
    exec(compile(ast.Module(body=frag, type_ignores=[]), 'front_end-fragment', 'exec'), env)
    want_bits = ns['regions_to_bits_rep'](spec['regions'], mapping) if 'regions' in spec else None
    want_n = len(spec['regions']) if 'regions' in spec else None
    if env.get('regions_bits_rep', 'unbound') != want_bits or env.get('n_regions', 'unbound') != want_n:
        res = {'confirmed': True, 'input': {'job_specs': specs, 'mapping': mapping}, 'what': 'job %d: stored regions_bits_rep=%r n_regions=%r, its own spec gives %r / %r' % (spec['job_id'], env.get('regions_bits_rep'), env.get('n_regions'), want_bits, want_n)}
        break
if not res['confirmed']:
    # a region that is not a key of the mapping, and an empty selection, are rejected with 400 before anything is encoded
    for bad in (['us-east1', 'mars-north1'], []):
        env['spec'] = {'job_id': 9, 'regions': bad}
        try:
            exec(compile(ast.Module(body=frag, type_ignores=[]), 'front_end-fragment', 'exec'), env)
            res = {'confirmed': True, 'input': {'spec': env['spec'], 'mapping': mapping}, 'what': 'regions %r accepted: stored regions_bits_rep=%r n_regions=%r' % (bad, env.get('regions_bits_rep'), env.get('n_regions'))}
            break
        except HTTPBadRequest:
            pass
        except Exception as e:
            res = {'confirmed': True, 'input': {'spec': env['spec'], 'mapping': mapping}, 'what': 'regions %r are not rejected with HTTPBadRequest but reach the encoder: %r' % (bad, e)}
            break
print(json.dumps(res))
'''

REPLAY_DECODE = r'''
import sys, json, os, ast, re, asyncio, types
src = open(os.path.join(os.environ['VERIF_REPO'], 'batch/batch/driver/instance_collection/job_private.py')).read()
tree = ast.parse(src)
cls = [n for n in tree.body if isinstance(n, ast.ClassDef) and n.name == 'JobPrivateInstanceManager'][0]
fn = [n for n in cls.body if isinstance(n, ast.AsyncFunctionDef) and n.name == 'create_instances_loop_body'][0]
# the innermost loop over runnable records, with everything after the pool hand-off kept; the statements run as written
loops = [n for n in ast.walk(fn) if isinstance(n, (ast.AsyncFor, ast.For)) and any(isinstance(x, ast.AsyncFunctionDef) for x in n.body)]
assert len(loops) == 1 and ast.unparse(loops[0].target) == 'record'
body = loops[0].body
created = []
class Pool:
    def __init__(self): self.pending = []
    async def call(self, f, *a): self.pending.append((f, a))
    async def wait(self):
        for f, a in self.pending: await f(*a)
class BFV:
    def __init__(self, v): self.v = v
    def get_spec_machine_spec(self, spec): return spec.get('machine_spec') if isinstance(spec, dict) else None
class Log:
    def info(self, *a, **k): pass
    def exception(self, *a, **k): pass
class Self:
    app = {'regions': {'r1': 1, 'r2': 2, 'r3': 3}}
    inst_coll_manager = types.SimpleNamespace(regions=['r1', 'r2', 'r3'])
    exceeded_shares_counter = types.SimpleNamespace(rate=lambda: 0.0, push=lambda b: None)
    scheduler_state_changed = types.SimpleNamespace(set=lambda: None)
    async def create_instance(self, machine_spec, regions):
        created.append((machine_spec, list(regions)))
        return ('instance%d' % len(created), {})
def dec(bits, mapping): return None if bits is None else [r for r, i in mapping.items() if (bits >> (i - 1)) & 1]
async def noop(*a, **k): return None
records = [
    {'batch_id': 1, 'job_id': 1, 'job_group_id': 0, 'n_prior_attempts': 0, 'n_max_attempts': 20, 'user': 'u', 'format_version': 7, 'spec': json.dumps({'machine_spec': {'machine_type': 'n1-standard-1'}}), 'regions_bits_rep': 1},
    {'batch_id': 1, 'job_id': 2, 'job_group_id': 0, 'n_prior_attempts': 0, 'n_max_attempts': 20, 'user': 'u', 'format_version': 7, 'spec': json.dumps({'machine_spec': {'machine_type': 'n1-highmem-8'}}), 'regions_bits_rep': 6},
    {'batch_id': 1, 'job_id': 3, 'job_group_id': 0, 'n_prior_attempts': 0, 'n_max_attempts': 20, 'user': 'u', 'format_version': 7, 'spec': json.dumps({'machine_spec': {'machine_type': 'n1-standard-2'}}), 'regions_bits_rep': None},
]
import random, traceback
class Box:
    def __init__(self, v): self.value = v
env = {'self': Self(), 'waitable_pool': Pool(), 'BatchFormatVersion': BFV, 'json': json, 'log': Log(), 'regions_bits_rep_to_regions': dec, 'mark_job_creating': noop, 'mark_job_errored': noop,
       'time_msecs': lambda: 0, 'secret_alnum_string': lambda n: 'abcdef', 'RegionsNotSupportedError': type('RegionsNotSupportedError', (Exception,), {}), 'traceback': traceback, 'random': random,
       }
# the loop as written (its body unchanged, all iterations in ONE scope as in the real function), over a list instead of the query
wrapper = ast.parse('async def __run__(self, records, waitable_pool):\n    n_user_instances_created = 0\n    n_allocated_instances = 100\n    n_instances_created = 0\n    should_wait = True\n    remaining = Box(100)\n    for record in records:\n        pass\n    await waitable_pool.wait()')
wrapper.body[0].body[-2].body = body
ast.fix_missing_locations(wrapper)
env['Box'] = Box
exec(compile(wrapper, 'job_private-loop', 'exec'), env)
asyncio.run(env['__run__'](env['self'], records, env['waitable_pool']))
want = [(json.loads(r['spec'])['machine_spec'], Self.inst_coll_manager.regions if r['regions_bits_rep'] is None else dec(r['regions_bits_rep'], Self.app['regions'])) for r in records]
res = {'confirmed': False}
if [(m, list(g)) for m, g in created] != [(m, list(g)) for m, g in want]:
    res = {'confirmed': True, 'input': {'records': [{k: r[k] for k in ('job_id', 'spec', 'regions_bits_rep')} for r in records]}, 'what': 'instances requested (machine spec, regions) %r; the stored forms of the three jobs give %r (schedule: the pool runs the coroutines after the loop has gone through all records, as when its workers are busy)' % (created, want)}
print(json.dumps(res))
'''

REPLAY_REGIONS = r'''
import sys, json, os, ast, re, sqlite3
# the statements the drivers run at start, taken from the sources under test, against a table with the production shape
root = os.environ['VERIF_REPO']
res = {'confirmed': False}
for rel in ('batch/batch/cloud/gcp/driver/driver.py', 'batch/batch/cloud/azure/driver/driver.py', 'batch/batch/cloud/terra/azure/driver/driver.py'):
    tree = ast.parse(open(os.path.join(root, rel)).read())
    stmts = [n.value for n in ast.walk(tree) if isinstance(n, ast.Constant) and isinstance(n.value, str) and re.search(r'\b(INTO|FROM|UPDATE|TABLE)\s+`?regions`?(?!\w)', n.value, re.I) and not re.match(r'\s*SELECT\b', n.value, re.I)]
    db = sqlite3.connect(':memory:')
    db.execute('CREATE TABLE regions (region_id INTEGER PRIMARY KEY AUTOINCREMENT, region VARCHAR(40) NOT NULL UNIQUE)')
    def run(names):
        for s in stmts:
            # MySQL -> sqlite spelling of the same statement kinds (REPLACE INTO and DELETE are the same in both)
            s2 = re.sub(r'ON\s+DUPLICATE\s+KEY\s+UPDATE\s+region\s*=\s*region', 'ON CONFLICT(region) DO UPDATE SET region = region', s.strip().rstrip(';'), flags=re.I).replace('%s', '?')
            if '?' in s2: db.executemany(s2, [(n,) for n in names])
            else: db.execute(s2)
    try:
        run(['a', 'b', 'c'])
        before = dict(db.execute('SELECT region, region_id FROM regions').fetchall())
        run(['a', 'b', 'c'])
        after = dict(db.execute('SELECT region, region_id FROM regions').fetchall())
    except Exception as e:
        continue  # a statement the stand-in database cannot run: nothing replayed for this driver
    if before != after:
        bits = sum(1 << (before[r] - 1) for r in ('a', 'c'))
        back = [r for r, i in after.items() if 0 < i < 64 and (bits >> (i - 1)) & 1]
        res = {'confirmed': True, 'input': {'driver': rel, 'regions': ['a', 'b', 'c'], 'job_regions': ['a', 'c']}, 'what': 'region ids after the first driver start %r, after the second %r: the bits %d stored for [a, c] now decode to %r (statements replayed on sqlite with the production table shape)' % (before, after, bits, back)}
        break
print(json.dumps(res))
'''


def _replayer(script):
    return lambda model=None, obl=None: core.run_native(script, {})


def native_witness():
    """first confirmed failing input among the three site replays (used by C15.native_witness when the contracts no longer fit)"""
    for script in (REPLAY_STORE, REPLAY_DECODE, REPLAY_REGIONS):
        try:
            r = core.run_native(script, {})
        except Exception:
            continue
        if r and r.get('confirmed'):
            return r
    return {'confirmed': False}


def build(ctx):
    # (store)
    store_site_scans(ctx)
    for c in (region_bits_contract(False), region_bits_contract(True), jobs_row_contract()):
        eng = pyvc.Engine(ctx, c)
        eng.replayer = _replayer(REPLAY_STORE)
        eng.run()
    # (decode)
    d = decode_site_scans(ctx)
    if d is None:
        raise core.Undecided('anchor-moved: the per-job coroutine of create_instances_loop_body was not identified')
    eng = pyvc.Engine(ctx, decode_coroutine_contract(d.name))
    eng.replayer = _replayer(REPLAY_DECODE)
    eng.run()
    # (stable)
    regions_table_scans(ctx)
    for prefix, script in (('scan/_create_jobs', REPLAY_STORE), ('scan/create_instances_loop_body', REPLAY_DECODE), ('scan/regions-table', REPLAY_REGIONS)):
        for o in ctx.obls:
            if o.name.startswith(ctx.pid + '/' + prefix):
                ctx.replayers.setdefault(o.name, _replayer(script))
    ctx.assume("the mapping region -> id is read once per process start (front end and driver: SELECT region_id, region FROM regions into app['regions']); both read the same table, whose existing rows keep their ids (scan/regions-table/*); a region registered after the front end started is unknown to it until its restart and is rejected as invalid, never mis-encoded")
    ctx.assume('job_private.py: the decoder / reader calls in the per-job coroutine are cut at their contracts (C15 a, b): decode_regions / stored_machine_spec are uninterpreted; sqlite stands in for MySQL only in the replay of a failed regions-table obligation')
