"""C38 - GVCF/VDS combiner merges every input exactly once (claimed clauses: even genome partitioning; merge-plan slices; where
the merged datasets go and when the final output may be written; step dispatch; the step parameters of new / resumed plans).

calculate_even_genome_partitioning.calc_parts (hail/python/hail/vds/combiner/combine.py): for every contig length L >= 1
and every interval_size >= 1 the returned inclusive intervals tile [1, L]: first starts at 1, consecutive intervals are
adjacent (next.start == prev.end + 1), every interval is non-empty, the last ends at L, and end - start <= interval_size.
"""
from __future__ import annotations

import z3

from vc import core, pyvc
from vc.pyvc import Contract, LoopSpec

PATH = 'hail/python/hail/vds/combiner/combine.py'


def _locus_interval(eng, st, args, kw, node):
    return (eng.num(args[0]), eng.num(args[1]))


TILE = (
    "forall(lambda j: implies(0 <= j < len({X}), {X}[j][0] <= {X}[j][1] and {X}[j][1] - {X}[j][0] <= interval_size and 1 <= {X}[j][0] and {X}[j][1] <= contig_len))"
)
ADJ = "forall(lambda j: implies(0 <= j < len({X}) - 1, {X}[j + 1][0] == {X}[j][1] + 1))"


def calc_parts():
    return Contract(
        path=PATH,
        qualname='calculate_even_genome_partitioning.calc_parts',
        types={'contig': 'U', 'intervals': 'List[Tuple[int, int]]', 'result': 'List[Tuple[int, int]]'},
        extra_inputs={'interval_size': 'int', 'LENGTHS': 'Array[U, int]'},
        float_as_real=True,
        setup=lambda eng, st: st.env.__setitem__('reference_genome', pyvc.SRecord('ReferenceGenome', {'lengths': st.env['LENGTHS']})),
        ghost_init={'contig_len': 'LENGTHS[contig]'},
        requires=['LENGTHS[contig] >= 1', 'interval_size >= 1'],
        calls={'locus_interval': _locus_interval},
        loops={
            0: LoopSpec(
                invariants=[
                    ('sizes', "real_size >= 1 and real_size <= interval_size and contig_length == contig_len"),
                    ('cursor', "1 <= n and n <= contig_length + 1"),
                    ('first-and-last', "(len(intervals) == 0 and n == 1) or (len(intervals) >= 1 and intervals[0][0] == 1 and intervals[len(intervals) - 1][1] == n - 1)"),
                    ('tiles', TILE.format(X='intervals')),
                    ('adjacent', ADJ.format(X='intervals')),
                ]
            )
        },
        ensures=[
            ('non-empty-result', 'len(result) >= 1'),
            ('starts-at-first-base', 'result[0][0] == 1'),
            ('ends-at-last-base', 'result[len(result) - 1][1] == contig_len'),
            ('intervals-non-empty-bounded-in-range', TILE.format(X='result')),
            ('intervals-adjacent-no-gap-no-overlap', ADJ.format(X='result')),
        ],
        canaries=[('one-interval-only', 'len(result) == 1')],
    )


REPLAY = r'''
import sys, json, os, ast, math
p = json.load(sys.stdin)
src = open(os.path.join(os.environ['VERIF_REPO'], 'hail/python/hail/vds/combiner/combine.py')).read()
tree = ast.parse(src)
fn = [n for n in tree.body if isinstance(n, ast.FunctionDef) and n.name == 'calculate_even_genome_partitioning'][0]
fn.decorator_list = []
fn.returns = None
class Locus:
    def __init__(self, contig, position, reference_genome): self.position = position
class Interval:
    def __init__(self, start, end, includes_end): self.start, self.end, self.includes_end = start.position, end.position, includes_end
class HL:
    pass
hl = HL(); hl.Locus = Locus; hl.Interval = Interval
ns = {'hl': hl, 'math': math, 'List': list}
exec(compile(ast.Module(body=[fn], type_ignores=[]), 'combine-extract', 'exec'), ns)
class RG:
    def __init__(self, L):
        self.name = 'GRCh38'
        self.lengths = {c: L for c in [f'chr{i}' for i in range(1, 23)] + ['chrX', 'chrY', 'chrM']}
def check(L, size):
    ivs = ns['calculate_even_genome_partitioning'](RG(L), size)[:None]
    per = {}
    # every contig has the same length: inspect the intervals of the first contig (they are emitted contig by contig)
    out = []
    cur = []
    for iv in ivs:
        if cur and iv.start == 1:
            out.append(cur); cur = []
        cur.append((iv.start, iv.end))
    out.append(cur)
    problems = []
    if len(out) != 25: problems.append('expected 25 contigs, got %d groups' % len(out))
    first = out[0]
    if not first or first[0][0] != 1: problems.append('does not start at base 1')
    if first and first[-1][1] != L: problems.append('last interval ends at %s, contig length %d' % (first[-1][1] if first else None, L))
    for (s, e) in first:
        if s > e: problems.append('empty interval %r' % ((s, e),))
        if e - s > size: problems.append('interval %r longer than requested %d' % ((s, e), size))
    for (a, b) in zip(first, first[1:]):
        if b[0] != a[1] + 1: problems.append('gap/overlap between %r and %r' % (a, b))
    return {'confirmed': bool(problems), 'problems': problems, 'intervals': first[:8], 'input': {'contig_length': L, 'interval_size': size}}
res = {'confirmed': False}
cands = []
if 'L' in p: cands.append((p['L'], p['size']))
if p.get('search'):
    cands += [(L, s) for L in range(1, 41) for s in range(1, 13)]
for (L, s) in cands:
    if L < 1 or s < 1 or L > 10**7: continue
    r = check(L, s)
    if r['confirmed']:
        res = r; break
print(json.dumps(res))
'''


COMBINER_REPLAY = open(__import__('os').path.join(__import__('os').path.dirname(__import__('os').path.abspath(__file__)), 'native', 'c38_combiner_replay.py')).read()


# ---- merge plan: every pending input goes into exactly one merge ---------------------------------------------------------------
COMB = 'hail/python/hail/vds/combiner/variant_dataset_combiner.py'


def _plan_contracts():
    """_step_vdses chooses the datasets of one merge from bins (dict: size class -> list of datasets); _step_gvcfs takes a prefix of
    the pending GVCFs.  Contracts on the real statements (fragments of the two methods): what is taken and what stays is a
    SPLIT of what was there (take ++ rest == old, element by element, per bin), bins not visited are untouched, at most
    branch_factor datasets are taken."""
    out = []
    T = {'self._vdses': 'Map[int, List[U]]', 'files_to_merge': 'List[U]', 'extra': 'List[U]'}

    def setup(eng, st):
        st.env['self'] = pyvc.SRecord('VariantDatasetCombiner', {'_vdses': st.env['BINS'], '_branch_factor': st.env['BF'], '_num_vdses': st.env['NV']})
        st.env['OLD'] = st.env['BINS']

    # (1) head: the lowest bin gives up to branch_factor datasets from its front
    out.append(Contract(
        path=COMB, qualname='VariantDatasetCombiner._step_vdses', label='VariantDatasetCombiner._step_vdses[first-bin]', fragment=('re:^current_bin = original_bin = min\\(self\\._vdses\\)', 're:^remaining = '),
        types=dict(T), extra_inputs={'BINS': 'Map[int, List[U]]', 'BF': 'int', 'NV': 'int'}, setup=setup,
        requires=['BF >= 2', 'len(BINS) >= 1', "forall(lambda b: implies(b in BINS, len(BINS[b]) >= 1))"],
        ensures=[
            ('taken-and-kept-split-the-lowest-bin', 'implies(current_bin in self._vdses, files_to_merge + self._vdses[current_bin] == OLD[current_bin]) and implies(not (current_bin in self._vdses), files_to_merge == OLD[current_bin])'),
            ('a-bin-is-dropped-only-when-empty-and-kept-bins-are-non-empty', 'implies(current_bin in self._vdses, len(self._vdses[current_bin]) >= 1)'),
            ('other-bins-untouched', 'forall(lambda b: implies(b != current_bin, (b in self._vdses) == (b in OLD) and implies(b in OLD, self._vdses[b] == OLD[b])))'),
            ('between-one-and-branch-factor-datasets', '1 <= len(files_to_merge) and len(files_to_merge) <= BF and remaining == BF - len(files_to_merge)'),
            ('the-bin-chosen-is-a-bin', 'current_bin in OLD and original_bin == current_bin'),
        ],
        raises={}, canaries=[('always-whole-bin', 'not (current_bin in self._vdses)')],
    ))

    def setup2(eng, st):
        setup(eng, st)
        st.env['files_to_merge'] = st.env['FTM']
        st.env['remaining'] = st.env['REM']

    # (2) one top-up iteration: the (now) lowest bin gives its LAST `remaining` datasets
    out.append(Contract(
        path=COMB, qualname='VariantDatasetCombiner._step_vdses', label='VariantDatasetCombiner._step_vdses[top-up iteration]', fragment=('re:^current_bin = min\\(self\\._vdses\\)', 're:^remaining = '),
        types=dict(T), extra_inputs={'BINS': 'Map[int, List[U]]', 'BF': 'int', 'NV': 'int', 'FTM': 'List[U]', 'REM': 'int'}, setup=setup2,
        requires=['BF >= 2', 'len(BINS) >= 1', "forall(lambda b: implies(b in BINS, len(BINS[b]) >= 1))", 'REM >= 1', 'REM == BF - len(FTM)', 'len(FTM) >= 1'],
        ensures=[
            ('taken-and-kept-split-the-bin', 'implies(current_bin in self._vdses, self._vdses[current_bin] + extra == OLD[current_bin]) and implies(not (current_bin in self._vdses), extra == OLD[current_bin])'),
            ('kept-bins-are-non-empty', 'implies(current_bin in self._vdses, len(self._vdses[current_bin]) >= 1)'),
            ('what-was-taken-joins-the-merge-nothing-else-changes-in-it', 'files_to_merge == extra + FTM'),
            ('other-bins-untouched', 'forall(lambda b: implies(b != current_bin, (b in self._vdses) == (b in OLD) and implies(b in OLD, self._vdses[b] == OLD[b])))'),
            ('never-more-than-branch-factor', 'len(files_to_merge) <= BF and remaining == BF - len(files_to_merge) and len(extra) >= 1'),
        ],
        raises={}, canaries=[('always-whole-bin', 'not (current_bin in self._vdses)')],
    ))

    def setup3(eng, st):
        st.env['self'] = pyvc.SRecord('VariantDatasetCombiner', {'_gvcfs': st.env['G'], '_branch_factor': st.env['BF'], '_gvcf_batch_size': st.env['BS']})

    # (3) _step_gvcfs: a prefix of the pending GVCFs is taken, the rest stays in order
    out.append(Contract(
        path=COMB, qualname='VariantDatasetCombiner._step_gvcfs', label='VariantDatasetCombiner._step_gvcfs[selection]', fragment=('re:^step = self\\._branch_factor', 're:^self\\._gvcfs = '),
        types={'self._gvcfs': 'List[U]', 'files_to_merge': 'List[U]'}, extra_inputs={'G': 'List[U]', 'BF': 'int', 'BS': 'int'}, setup=setup3,
        requires=['BF >= 2', 'BS >= 1', 'len(G) >= 1'],
        ensures=[('taken-and-kept-split-the-pending-gvcfs', 'files_to_merge + self._gvcfs == G'), ('at-most-one-batch-and-at-least-one', '1 <= len(files_to_merge) and len(files_to_merge) <= BS * BF')],
        raises={}, canaries=[('takes-everything', 'len(self._gvcfs) == 0')],
    ))
    return out


def _plan(ctx):
    for c in _plan_contracts():
        eng = pyvc.Engine(ctx, c)
        eng.run()
        ctx.add(core.decided('C38/%s/no-call-outside-the-contract' % eng.label, not eng.unmodelled, repr(eng.unmodelled), kind='frame'))
    # the top-up loop re-runs that iteration while datasets remain and the merge is short of branch_factor; sample names are cut
    # with the same bounds as the files
    import ast as pyast

    tree = pyast.parse(core.read_repo(COMB))
    fn = pyvc.find_function(tree, 'VariantDatasetCombiner._step_vdses')
    loops = [n for n in fn.body if isinstance(n, pyast.While)]
    ctx.add(core.decided('C38/VariantDatasetCombiner._step_vdses/top-up-loop-runs-while-datasets-remain-and-the-merge-is-short', len(loops) == 1 and pyast.unparse(loops[0].test) == 'self._num_vdses > 0 and remaining > 0', repr([pyast.unparse(l.test) for l in loops]), kind='scan'))
    g = pyast.unparse(pyvc.find_function(tree, 'VariantDatasetCombiner._step_gvcfs'))
    ctx.add(core.decided('C38/VariantDatasetCombiner._step_gvcfs/sample-names-are-cut-like-the-files', "sample_names = self._gvcf_sample_names[:self._gvcf_batch_size * step]" in g and "self._gvcf_sample_names = self._gvcf_sample_names[self._gvcf_batch_size * step:]" in g, '', kind='scan'))
    # resumed runs must not write onto intermediates still pending in the saved plan: the job counter restarts at 1 after a load
    # (it is not serialised), so the path prefix has to be fresh per combiner object
    init = pyast.unparse(pyvc.find_function(tree, 'VariantDatasetCombiner.__init__'))
    ser = [pyast.unparse(n.value) for n in pyast.walk(tree) if isinstance(n, pyast.Assign) and pyast.unparse(n.targets[0]) == '__serialized_slots__']
    fresh = 'self._uuid = uuid.uuid4()' in init or any("'_job_id'" in x and "'_uuid'" in x for x in ser)
    ctx.add(core.decided('C38/VariantDatasetCombiner/intermediate-paths-of-a-resumed-run-are-fresh', fresh, 'uuid4 per object, or job id and uuid saved with the plan', kind='scan'))
    ctx.under_contract(COMB, 'VariantDatasetCombiner.__init__ (intermediate path prefix)')
    props = _Props(ctx, tree)
    _filing(ctx, tree, props)
    _resume(ctx, tree, _Props(ctx, tree))
    _setter_and_step(ctx, tree, _Props(ctx, tree))



# ---- wave 4: where the merged datasets go, who may write the final output, the plan's parameters after a resume ---------------
import ast as _ast


def _class_properties(tree, cls):
    """the @property getters / @<name>.setter functions of a class, read from the real class body"""
    out = {}
    cnode = [n for n in tree.body if isinstance(n, _ast.ClassDef) and n.name == cls][0]
    for n in cnode.body:
        if not isinstance(n, _ast.FunctionDef):
            continue
        for d in n.decorator_list:
            t = _ast.unparse(d)
            if t == 'property':
                out.setdefault(n.name, {})['get'] = n
            elif t == n.name + '.setter':
                out.setdefault(n.name, {})['set'] = n
    return out


class _InlineCtx:
    """the check context as seen by an inlined property body: its 'precondition' is the caller's path condition, already covered by
    the caller's vacuity obligations and the executor's feasibility checks, so that one obligation is not repeated per inlining"""

    def __init__(self, ctx):
        self.__dict__['_ctx'] = ctx

    def __getattr__(self, n):
        return getattr(self._ctx, n)

    def __setattr__(self, n, v):
        setattr(self._ctx, n, v)

    def add(self, o, **kw):
        if o.name.endswith('/vacuity/requires-satisfiable'):
            return o
        return self._ctx.add(o, **kw)


class _Props:
    """call models `property:<name>` / `property-set:<name>` (vc/pyvc.py getattr / assign on records) that EXECUTE the real getter /
    setter body of VariantDatasetCombiner on the record; every outcome of the body comes back as one alternative of a path split"""

    def __init__(self, ctx, tree, cls='VariantDatasetCombiner', skip=()):
        self.ctx, self.cls, self.seq = ctx, cls, 0
        self.props = _class_properties(tree, cls)
        self.consts = {}
        cnode = [n for n in tree.body if isinstance(n, _ast.ClassDef) and n.name == cls][0]
        kv = {}
        for n in cnode.body:
            if isinstance(n, _ast.Assign) and len(n.targets) == 1 and isinstance(n.targets[0], _ast.Name) and isinstance(n.value, _ast.Constant):
                kv[n.targets[0].id] = n.value.value
        self.consts[cls] = pyvc.SRecord('classobj:' + cls, kv)
        self.skip = set(skip)

    def models(self, base_calls):
        calls = dict(base_calls)
        for name, d in self.props.items():
            if name in self.skip:
                continue
            if 'get' in d:
                calls['property:' + name] = (lambda fn, nm: lambda eng, st, args, kw, node: self._run(eng, st, fn, nm, args[0], {}, node))(d['get'], name)
            if 'set' in d:
                calls['property-set:' + name] = (lambda fn, nm: lambda eng, st, args, kw, node: self._run(eng, st, fn, nm, args[0], {fn.args.args[1].arg: args[1]}, node))(d['set'], name)
        self.calls = calls
        return calls

    def _run(self, eng, st, fn, name, rec, params, node):
        if node is not None and id(node) in st.decided:
            kind, payload = st.take_decided(node)
            if kind == 'raise':
                raise pyvc.PyRaise(payload)
            return payload
        self.seq += 1
        pc = list(st.pc)

        def setup(e2, s2):
            s2.env['self'] = rec.clone()
            for k, v in params.items():
                s2.env[k] = v
            for c in pc:
                s2.assume(c)

        c = Contract(path=COMB, qualname='%s.%s' % (self.cls, name), label='%s.%s[%s]#%d' % (self.cls, name, 'setter' if params else 'getter', self.seq), fragment=('re:.', len(fn.body)),
                     setup=setup, calls=self.calls, consts=dict(eng.c.consts, **self.consts), raises={'*': True}, float_as_real=True, strings=eng.c.strings, types=dict(eng.c.types))
        sub = pyvc.Engine(_InlineCtx(self.ctx), c)
        sub.fn = fn  # the def carrying the decorator (getter and setter share a name)
        sub.loop_ordinals = {id(n): k for k, n in enumerate(sub._loops_preorder(fn))}
        outs = []
        sub.at_return = lambda s2, res: outs.append(('value', res, s2))
        sub.at_raise = lambda s2, exc: outs.append(('raise', exc, s2))
        sub.run()
        self.ctx.under_contract(COMB, '%s.%s (%s)' % (self.cls, name, 'setter' if params else 'getter'))
        base = len(pc)

        def effect(sub_state):
            def apply(caller):
                target = eng.ev(node.value, caller) if node is not None else rec
                target.fields.update(sub_state.env['self'].fields)
            return apply

        alts = []
        for i, (kind, payload, s2) in enumerate(outs):
            extra = list(s2.pc[base:])
            alts.append(('%s-%d' % (name, i), z3.And(*extra) if extra else None, kind, payload, effect(s2)))
        if len(alts) == 1 and alts[0][1] is None:
            rec.fields.update(outs[0][2].env['self'].fields)
            if alts[0][2] == 'raise':
                raise pyvc.PyRaise(alts[0][3])
            return alts[0][3]
        if node is None:
            raise core.Undecided('property %s splits the path where no statement can be re-executed' % name)
        raise pyvc.Fork(node, alts)



def _tail_anchor(fn, what):
    """header text (as a regex anchor) of the first top-level statement of `fn` that contains a call of self.<what>"""
    import re

    for i, stmt in enumerate(fn.body):
        for n in _ast.walk(stmt):
            if isinstance(n, _ast.Call) and pyvc._dotted(n.func) == 'self.' + what:
                return i, 're:^' + re.escape(pyvc._header_text(stmt)) + '$'
    return None, None


def _engine_call(eng, st, args, kw, node):
    """a call into the query engine / file system / logger: no effect on the combiner's plan (assumption), opaque result"""
    return z3.Const(pyvc.fresh_name('engine_result'), pyvc.U)


def _write_final(eng, st, args, kw, node):
    rec = st.env['self']
    st.env['FINAL'] = st.env['FINAL'] + 1
    st.env['FINAL_G'] = rec.fields['_gvcfs'].len  # what is still pending at the moment of the final write
    st.env['FINAL_V'] = rec.fields['_vdses'].size
    st.env['FINAL_ARG'] = args[0]
    return None


def _dd_read(eng, st, args, kw, node):
    """self._vdses is a collections.defaultdict(list) (checked on __init__): reading a missing bin yields (and stores) an empty list"""
    m, k = args
    kz = pyvc.to_z3(k, m.kt)
    l = pyvc.from_z3(z3.Select(m.val, kz), m.vt)
    v = pyvc.SList(z3.If(z3.Select(m.has, kz), l.len, 0), l.arr, l.et)
    if not getattr(eng, 'in_spec', False):
        eng.assign(node.value, eng.store(m, k, v, st, node), st)
    return v


def _metadata(eng, st, args, kw, node):
    p = kw['path'] if 'path' in kw else args[0]
    n = kw['n_samples'] if 'n_samples' in kw else args[1]
    return eng.uf('VDSMetadata', ['str', 'int'], 'U')(pyvc.to_z3(p, 'str'), pyvc.to_z3(n, 'int'))


def _log(eng, st, args, kw, node):
    return eng.uf('math_log', ['int', 'int'], 'real')(eng.num(args[0]), eng.num(args[1]))


def _floor(eng, st, args, kw, node):
    x = eng.num(args[0])
    return x if z3.is_int(x) else z3.ToInt(x)


def _str_model(name, n):
    def model(eng, st, args, kw, node):
        return eng.uf(name, ['str'] * 1 + ['int'] * (n - 1), 'str')(*[pyvc.to_z3(a, 'str' if i == 0 else 'int') for i, a in enumerate(args[:n])])
    return model


FILING_TYPES = {'.n_samples': 'int', '.path': 'str', 'merge_metadata': 'List[U]', 'paths': 'List[str]'}
META_AXIOM = "forall('str', 'int', lambda p_, n_: VDSMetadata(p_, n_).n_samples == n_ and VDSMetadata(p_, n_).path == p_)"
KEPT = "forall(lambda b: implies(b in OLD, b in self._vdses and len(OLD[b]) <= len(self._vdses[b]) and forall(lambda j: implies(0 <= j < len(OLD[b]), self._vdses[b][j] == OLD[b][j]))))"
SAME_BINS = "forall(lambda b: (b in self._vdses) == (b in OLD) and implies(b in OLD, self._vdses[b] == OLD[b]))"
FINAL_ONLY_AT_THE_END = ('the-final-output-is-written-only-when-no-gvcf-and-no-dataset-is-pending', 'implies(FINAL >= 1, FINAL_G == 0 and FINAL_V == 0)')


def _filing_setup(extra=None):
    def setup(eng, st):
        f = {'_gvcfs': st.env['G'], '_vdses': st.env['BINS'], '_branch_factor': st.env['BF'], '_job_id': st.env['JOB'], '_output_path': st.env['OUT'], '_temp_path': st.env['TMP'], '_uuid': st.env['UUID'],
             '_target_records': st.env['TR']}
        st.env['self'] = pyvc.SRecord('VariantDatasetCombiner', f)
        st.env['OLD'] = st.env['BINS']
        st.env['FINAL'] = z3.IntVal(0)
        st.env['FINAL_G'] = z3.IntVal(-1)
        st.env['FINAL_V'] = z3.IntVal(-1)
        st.env['FINAL_ARG'] = z3.Const('no_final_arg', pyvc.U)
        if extra:
            extra(eng, st)
    return setup


FILING_INPUTS = {'G': 'List[U]', 'BINS': 'Map[int, List[U]]', 'BF': 'int', 'JOB': 'int', 'OUT': 'str', 'TMP': 'str', 'UUID': 'U', 'TR': 'int'}


def _filing(ctx, tree, props):
    base_calls = {
        'self._write_final': _write_final, 'subscript:self._vdses': _dd_read, 'VDSMetadata': _metadata, 'log': _log, 'floor': _floor,
        'self._temp_out_path': lambda eng, st, args, kw, node: eng.uf('temp_out_path', ['str'], 'str')(pyvc.to_z3(args[0], 'str')),
        'os.path.join': lambda eng, st, args, kw, node: eng.uf('path_join%d' % len(args), ['str'] * len(args), 'str')(*[pyvc.to_z3(a, 'str') for a in args]),
        '.rjust': lambda eng, st, args, kw, node: z3.String(pyvc.fresh_name('rjust')),
        'hl.vds.write_variant_datasets': _engine_call, '.write': _engine_call, 'info': _engine_call,
    }
    calls = props.models(base_calls)
    cs = []
    # (4) _step_gvcfs, from the statement that may write the final output to the end: the datasets imported in this batch either ARE
    #     the result (one dataset, nothing else pending) or are all filed as pending datasets
    g = pyvc.find_function(tree, 'VariantDatasetCombiner._step_gvcfs')
    gi, ganchor = _tail_anchor(g, '_write_final')
    ctx.add(core.decided('C38/VariantDatasetCombiner._step_gvcfs/the-final-output-is-written-from-one-top-level-statement-after-the-import-loop',
                         gi is not None and any(isinstance(x, _ast.For) for x in g.body[:gi]) and sum(1 for n in _ast.walk(g) if isinstance(n, _ast.Call) and pyvc._dotted(n.func) == 'self._write_final') == 1,
                         'index %r' % gi, kind='scan'))
    if gi is not None:
        # the guard alone, with quantifier-free hypotheses (a failing guard then has a counter-model the solver can produce)
        cs.append(Contract(
            path=COMB, qualname='VariantDatasetCombiner._step_gvcfs', label='VariantDatasetCombiner._step_gvcfs[final-write guard]', fragment=(ganchor, 1),
            types=dict(FILING_TYPES, merge_vds='List[U]'), extra_inputs=dict(FILING_INPUTS, MV='List[U]'), strings=True, float_as_real=True,
            setup=_filing_setup(lambda eng, st: st.env.update({'merge_vds': st.env['MV']})), requires=['BF >= 2', 'len(MV) >= 1'], calls=calls,
            ensures=[FINAL_ONLY_AT_THE_END, ('the-final-output-is-the-single-dataset-of-this-batch-written-once', 'implies(FINAL >= 1, FINAL == 1 and len(merge_vds) == 1 and FINAL_ARG == merge_vds[0])'),
                     ('pending-inputs-untouched', 'self._gvcfs == G and len(self._vdses) == len(OLD)')],
            raises={}, canaries=[('never-final', 'FINAL == 0'), ('always-final', 'FINAL == 1')],
        ))
        cs.append(Contract(
            path=COMB, qualname='VariantDatasetCombiner._step_gvcfs', label='VariantDatasetCombiner._step_gvcfs[filing]', fragment=(ganchor, len(g.body) - gi),
            types=dict(FILING_TYPES, merge_vds='List[U]', merge_n_samples='List[int]', FILED_L='List[U]'), extra_inputs=dict(FILING_INPUTS, MV='List[U]', MN='List[int]', MM0='List[U]'), strings=True, float_as_real=True,
            setup=_filing_setup(lambda eng, st: st.env.update({'merge_vds': st.env['MV'], 'merge_n_samples': st.env['MN'], 'merge_metadata': st.env['MM0']})),  # MM0: value of a name the final-write path never binds
            requires=['BF >= 2', 'len(MV) == len(MN)', 'len(MV) >= 1'], axioms=[META_AXIOM], calls=calls,
            ghosts=[pyvc.Ghost('re:^self\\._vdses\\[.*\\]\\.append\\(md\\)$', 'FILED_L = FILED_L + [md]')], ghost_init={'FILED_L': '[]'},
            loops={'re:^for md in ': LoopSpec(index='k_', modifies=['FILED_L'], invariants=[
                ('pending-datasets-kept-in-order', KEPT), ('no-final-write', 'FINAL == 0'),
                ('the-records-so-far-are-filed-one-by-one', 'len(FILED_L) == k_ and forall(lambda j: implies(0 <= j < k_, FILED_L[j] == merge_metadata[j]))')])},
            ensures=[
                ('a-final-write-files-nothing', 'implies(FINAL >= 1, ' + SAME_BINS + ')'),
                ('pending-gvcfs-untouched', 'self._gvcfs == G'),
                ('pending-datasets-are-kept-in-order', KEPT),
                ('every-record-is-filed-exactly-once', 'implies(FINAL == 0, FILED_L == merge_metadata)'),
                ('one-record-per-imported-dataset-with-its-sample-count', 'implies(FINAL == 0, len(merge_metadata) == len(MV) and forall(lambda j: implies(0 <= j < len(MN), merge_metadata[j].n_samples == MN[j])))'),
            ],
            raises={}, canaries=[('never-final', 'FINAL == 0'), ('always-final', 'FINAL == 1')],
        ))
        # (5) one filing iteration (the body of the last loop): the record goes to the end of exactly one bin >= 1
        cs.append(_file_one('VariantDatasetCombiner._step_gvcfs', 'VariantDatasetCombiner._step_gvcfs[file one dataset]', 'md', calls))
    # (6) _step_vdses, from the statement that may write the final output to the end: final only when nothing is pending; otherwise
    #     the merged dataset is appended to a bin ABOVE the bin the merge started from, with the merged sample count
    v = pyvc.find_function(tree, 'VariantDatasetCombiner._step_vdses')
    vi, vanchor = _tail_anchor(v, '_write_final')
    ctx.add(core.decided('C38/VariantDatasetCombiner._step_vdses/the-final-output-is-written-from-one-top-level-statement',
                         vi is not None and sum(1 for n in _ast.walk(v) if isinstance(n, _ast.Call) and pyvc._dotted(n.func) == 'self._write_final') == 1, 'index %r' % vi, kind='scan'))
    if vi is not None:
        cs.append(Contract(
            path=COMB, qualname='VariantDatasetCombiner._step_vdses', label='VariantDatasetCombiner._step_vdses[final-write guard]', fragment=(vanchor, 1),
            types=dict(FILING_TYPES), extra_inputs=dict(FILING_INPUTS, CMB='U'), strings=True, float_as_real=True,
            setup=_filing_setup(lambda eng, st: st.env.update({'combined': st.env['CMB']})), requires=['BF >= 2'], calls=calls,
            ensures=[FINAL_ONLY_AT_THE_END, ('the-final-output-is-the-merged-dataset-written-once', 'implies(FINAL >= 1, FINAL == 1 and FINAL_ARG == CMB)'),
                     ('pending-inputs-untouched', 'self._gvcfs == G and len(self._vdses) == len(OLD)')],
            raises={}, canaries=[('never-final', 'FINAL == 0'), ('always-final', 'FINAL == 1')],
        ))
        cs.append(Contract(
            path=COMB, qualname='VariantDatasetCombiner._step_vdses', label='VariantDatasetCombiner._step_vdses[filing]', fragment=(vanchor, len(v.body) - vi),
            types=dict(FILING_TYPES), extra_inputs=dict(FILING_INPUTS, CMB='U', TP='str', NS='int', OB='int', NB0='int'), strings=True, float_as_real=True,
            setup=_filing_setup(lambda eng, st: st.env.update({'combined': st.env['CMB'], 'temp_path': st.env['TP'], 'new_n_samples': st.env['NS'], 'original_bin': st.env['OB'], 'new_bin': st.env['NB0']})),
            requires=['BF >= 2', 'NS >= 1'], calls=calls,  # no quantified hypothesis: a wrong bin has a counter-model the solver can produce
            ensures=[
                ('a-final-write-files-nothing', 'implies(FINAL >= 1, ' + SAME_BINS + ')'),
                ('pending-gvcfs-untouched', 'self._gvcfs == G'),
                ('otherwise-the-merged-dataset-is-filed-in-a-later-bin', 'implies(FINAL == 0, new_bin > OB and new_bin in self._vdses)'),
                ('at-the-end-of-that-bin', 'implies(FINAL == 0, len(self._vdses[new_bin]) == ite(new_bin in OLD, len(OLD[new_bin]), 0) + 1)'),
                ('pending-datasets-are-kept-in-order', KEPT),
                ('other-bins-untouched', 'implies(FINAL == 0, forall(lambda b: implies(b != new_bin, (b in self._vdses) == (b in OLD) and implies(b in OLD, self._vdses[b] == OLD[b]))))'),
            ],
            raises={}, canaries=[('never-final', 'FINAL == 0'), ('always-final', 'FINAL == 1')],
        ))
    if vi is not None:
        cs.append(Contract(
            path=COMB, qualname='VariantDatasetCombiner._step_vdses', label='VariantDatasetCombiner._step_vdses[filing: sample count]', fragment=(vanchor, len(v.body) - vi),
            types=dict(FILING_TYPES), extra_inputs=dict(FILING_INPUTS, CMB='U', TP='str', NS='int', OB='int', NB0='int'), strings=True, float_as_real=True,
            setup=_filing_setup(lambda eng, st: st.env.update({'combined': st.env['CMB'], 'temp_path': st.env['TP'], 'new_n_samples': st.env['NS'], 'original_bin': st.env['OB'], 'new_bin': st.env['NB0']})),
            requires=['BF >= 2', 'NS >= 1'], axioms=[META_AXIOM], calls=calls,
            ensures=[('the-new-record-carries-the-merged-sample-count', 'implies(FINAL == 0, self._vdses[new_bin][len(self._vdses[new_bin]) - 1].n_samples == NS)')],
            raises={},
        ))
    if gi is not None:
        # how many records are filed, with quantifier-free invariants (a loop that skips a record then has a counter-model)
        cs.append(Contract(
            path=COMB, qualname='VariantDatasetCombiner._step_gvcfs', label='VariantDatasetCombiner._step_gvcfs[filing: count]', fragment=(ganchor, len(g.body) - gi),
            types=dict(FILING_TYPES, merge_vds='List[U]', merge_n_samples='List[int]'), extra_inputs=dict(FILING_INPUTS, MV='List[U]', MN='List[int]', MM0='List[U]'), strings=True, float_as_real=True,
            setup=_filing_setup(lambda eng, st: st.env.update({'merge_vds': st.env['MV'], 'merge_n_samples': st.env['MN'], 'merge_metadata': st.env['MM0'], 'FILED': z3.IntVal(0)})),
            requires=['BF >= 2', 'len(MV) == len(MN)', 'len(MV) >= 1'], calls=calls,
            ghosts=[pyvc.Ghost('re:^self\\._vdses\\[.*\\]\\.append\\(md\\)$', 'FILED = FILED + 1')],
            loops={'re:^for md in ': LoopSpec(index='k_', modifies=['FILED'], invariants=[('no-final-write', 'FINAL == 0'), ('one-filing-per-round', 'FILED == k_')])},
            ensures=[('as-many-filings-as-imported-datasets', 'implies(FINAL == 0, FILED == len(MV) and len(merge_metadata) == len(MV))')],
            raises={},
        ))
    # (7) __init__ files the input datasets with the same statement
    cs.append(_file_one('VariantDatasetCombiner.__init__', 'VariantDatasetCombiner.__init__[file one input dataset]', 'vds', calls))
    for c in cs:
        eng = pyvc.Engine(ctx, c)
        eng.replayer = lambda model, obl: core.run_native(COMBINER_REPLAY, {'scenario': 'search'}, timeout=300)
        eng.run()
        ctx.add(core.decided('C38/%s/no-call-outside-the-contract' % eng.label, not eng.unmodelled, repr(eng.unmodelled), kind='frame'))


def _file_one(qualname, label, var, calls):
    K = 'max(1, floor(log(%s.n_samples, BF)))' % var
    return Contract(
        path=COMB, qualname=qualname, label=label, fragment=('re:^self\\._vdses\\[.*\\]\\.append\\(%s\\)$' % var, 1),
        types=dict(FILING_TYPES), extra_inputs=dict(FILING_INPUTS, MD='U'), strings=True, float_as_real=True,
        setup=_filing_setup(lambda eng, st: st.env.update({var: st.env['MD']})), requires=['BF >= 2'], calls=calls,
        ensures=[
            ('appended-to-the-end-of-its-bin', 'K_ in self._vdses and implies(K_ in OLD, self._vdses[K_] == OLD[K_] + [MD]) and implies(not (K_ in OLD), self._vdses[K_] == [MD])'.replace('K_', K)),
            ('bins-start-at-one', '%s >= 1' % K),
            ('other-bins-untouched', 'forall(lambda b: implies(b != %s, (b in self._vdses) == (b in OLD) and implies(b in OLD, self._vdses[b] == OLD[b])))' % K),
            ('nothing-else-changes', 'self._gvcfs == G and FINAL == 0'),
        ],
        raises={}, canaries=[('always-a-new-bin', 'not (%s in OLD)' % K)],
    )



def _resume(ctx, tree, props):
    """new_combiner.maybe_load_from_saved_path: a plan found at save_path is resumed with the caller's branch factor / batch size.
    The resumed object must satisfy what __init__ guarantees for a new one (batch size >= 1, branch factor >= 2: the selection
    contracts above need both to take at least one input per step) and must still hold the saved pending inputs."""
    def load_combiner(eng, st, args, kw, node):
        rec = pyvc.SRecord('VariantDatasetCombiner', {
            '_gvcfs': st.env['LG'], '_vdses': st.env['LB'], '_gvcf_batch_size': st.env['LBS'], '_branch_factor': st.env['LBF'], '_target_records': st.env['LTR'],
            '_gvcf_import_intervals': st.env['LI'], '_gvcf_sample_names': st.env['LN'], '_save_path': args[0]})
        raise pyvc.Fork(node, [('plan-loaded', None, 'value', rec, None)] + [('load-raises-' + x, None, 'raise', pyvc.SExc(x), None) for x in ('ValueError', 'TypeError', 'OSError', 'KeyError', 'FatalError')])

    calls = props.models({
        'hl.current_backend': lambda eng, st, args, kw, node: pyvc.SRecord('Backend', {'fs': z3.Const('the_fs', pyvc.U)}),
        '.exists': lambda eng, st, args, kw, node: z3.Bool(pyvc.fresh_name('exists')),
        'load_combiner': load_combiner, 'warning': lambda eng, st, args, kw, node: None,
    })
    c = Contract(
        path=COMB, qualname='new_combiner.maybe_load_from_saved_path', types={'save_path': 'str'}, strings=True, float_as_real=True,
        extra_inputs={'force': 'bool', 'branch_factor': 'int', 'target_records': 'int', 'gvcf_batch_size': 'int', 'gvcf_paths': 'List[U]', 'vds_paths': 'List[U]', 'gvcf_sample_names': 'List[U]', 'LG': 'List[U]', 'LB': 'Map[int, List[U]]', 'LBS': 'int', 'LBF': 'int', 'LTR': 'int',
                      'LI': 'List[U]', 'LN': 'List[U]'},
        requires=['branch_factor >= 2', 'gvcf_batch_size >= 1', 'LBS >= 1', 'LBF >= 2'], calls=calls,
        ensures=[
            ('a-resumed-plan-takes-at-least-one-input-per-step', 'True if result is None else (result._gvcf_batch_size >= 1 and result._branch_factor >= 2)'),
            ('the-pending-inputs-of-the-saved-plan-are-taken-over-unchanged', 'True if result is None else (result._gvcfs == LG and len(result._vdses) == len(LB) and forall(lambda b: (b in result._vdses) == (b in LB) and implies(b in LB, result._vdses[b] == LB[b])) and result._gvcf_sample_names == LN and result._gvcf_import_intervals == LI)'),
            ('force-starts-afresh', 'implies(force, result is None)'),
        ],
        raises={'FatalError': True}, canaries=[('never-resumes', 'result is None')],
    )
    eng = pyvc.Engine(ctx, c)
    eng.replayer = lambda model, obl: core.run_native(COMBINER_REPLAY, {'scenario': 'resume'}, timeout=300)
    eng.run()
    ctx.add(core.decided('C38/%s/no-call-outside-the-contract' % eng.label, not eng.unmodelled, repr(eng.unmodelled), kind='frame'))



def _setter_and_step(ctx, tree, props):
    # (8) the public batch-size setter (the only other writer of _gvcf_batch_size besides __init__ and the resume path)
    pr = _class_properties(tree, 'VariantDatasetCombiner')
    if 'set' in pr.get('gvcf_batch_size', {}):
        fn = pr['gvcf_batch_size']['set']
        c = Contract(
            path=COMB, qualname='VariantDatasetCombiner.gvcf_batch_size', label='VariantDatasetCombiner.gvcf_batch_size[setter]', types={'value': 'int'}, strings=True,
            self_fields={'_gvcf_import_intervals': 'List[U]', '_gvcf_batch_size': 'int'}, consts=dict(props.consts), calls={'warning': lambda eng, st, args, kw, node: None},
            requires=['value >= 1'],
            ensures=[
                ('never-more-than-requested', 'self._gvcf_batch_size <= old(value)'),
                ('unchanged-request-when-within-the-task-limit', 'implies(old(value) * len(self._gvcf_import_intervals) <= LIMIT, self._gvcf_batch_size == old(value))'),
                ('import-intervals-untouched', 'self._gvcf_import_intervals == old(self._gvcf_import_intervals)'),
                ('batch-size-stays-at-least-one', 'self._gvcf_batch_size >= 1'),
            ],
            ghost_init={'LIMIT': 'VariantDatasetCombiner._gvcf_merge_task_limit'}, raises={}, canaries=[('never-clamps', 'self._gvcf_batch_size == old(value)')],
        )
        eng = pyvc.Engine(ctx, c)
        eng.fn = fn
        eng.loop_ordinals = {id(n): k for k, n in enumerate(eng._loops_preorder(fn))}
        eng.replayer = lambda model, obl: core.run_native(COMBINER_REPLAY, {'scenario': 'setter'})
        eng.run()
    # closed world: who writes the two step parameters
    writers = []
    for n in _ast.walk(tree):
        tg = []
        if isinstance(n, _ast.Assign):
            tg = n.targets
        elif isinstance(n, (_ast.AugAssign, _ast.AnnAssign)):
            tg = [n.target]
        for t in tg:
            for x in _ast.walk(t):
                if isinstance(x, _ast.Attribute) and isinstance(x.ctx, _ast.Store) and x.attr in ('_gvcf_batch_size', 'gvcf_batch_size', '_branch_factor'):
                    writers.append('%s = %s' % (_ast.unparse(x), _ast.unparse(n.value) if getattr(n, 'value', None) is not None else '?'))
    expected = sorted(['self._branch_factor = branch_factor', 'self._gvcf_batch_size = gvcf_batch_size', 'self._gvcf_batch_size = value', 'combiner._branch_factor = branch_factor', 'combiner._gvcf_batch_size = gvcf_batch_size'])
    ctx.add(core.decided('C38/VariantDatasetCombiner/step-parameters-are-written-only-by-init-the-setter-and-the-resume-path', sorted(writers) == expected, repr(sorted(writers)), kind='scan'))
    init = pyvc.find_function(tree, 'VariantDatasetCombiner.__init__')
    rebound = [n.id for n in _ast.walk(init) if isinstance(n, _ast.Name) and isinstance(n.ctx, (_ast.Store, _ast.Del)) and n.id in ('branch_factor', 'gvcf_batch_size')]
    ctx.add(core.decided('C38/VariantDatasetCombiner.__init__/validated-parameters-are-stored-as-validated', not rebound, repr(rebound), kind='scan'))
    c = Contract(
        path=COMB, qualname='VariantDatasetCombiner.__init__', label='VariantDatasetCombiner.__init__[parameter validation]', fragment=('re:^if branch_factor < 2$', 're:^if gvcf_batch_size < 1$'), strings=True,
        extra_inputs={'branch_factor': 'int', 'gvcf_batch_size': 'int'},
        ensures=[('a-new-plan-takes-at-least-one-input-per-step', 'branch_factor >= 2 and gvcf_batch_size >= 1')], raises={'ValueError': 'branch_factor < 2 or gvcf_batch_size < 1'},
        canaries=[('rejects-nothing', 'branch_factor < 2')],
    )
    pyvc.Engine(ctx, c).run()
    ctx.add(core.decided('C38/VariantDatasetCombiner.__init__/pending-datasets-live-in-a-defaultdict-of-lists', 'self._vdses = collections.defaultdict(list)' in _ast.unparse(init)
                         and sum(1 for n in _ast.walk(tree) if isinstance(n, _ast.Assign) and any(_ast.unparse(t).endswith('._vdses') for t in n.targets)) == 1, '', kind='scan'))
    md = [n for n in tree.body if isinstance(n, _ast.ClassDef) and n.name == 'VDSMetadata']
    fields = [x.target.id for x in md[0].body if isinstance(x, _ast.AnnAssign)] if md else []
    ctx.add(core.decided('C38/VDSMetadata/is-the-pair-path-n_samples', fields == ['path', 'n_samples'] and [_ast.unparse(b) for b in md[0].bases] == ['NamedTuple'], repr(fields), kind='scan'))

    # (9) step(): which of the two step functions runs, and that each runs only where its selection contract applies
    def stepper(which):
        def model(eng, st, args, kw, node):
            rec = st.env['self']
            st.env['CALLED_' + which] = st.env['CALLED_' + which] + 1
            if which == 'G':
                st.env['PRE_G'] = rec.fields['_gvcfs'].len >= 1
            else:
                st.env['PRE_V'] = rec.fields['_vdses'].size >= 1
            for f, t in (('_gvcfs', 'List[U]'), ('_vdses', 'Map[int, List[U]]')):
                v = pyvc.fresh_value(pyvc.parse_type(t), 'after_step' + f)
                for w in pyvc.wf_constraints(v):
                    st.assume(w)
                rec.fields[f] = v
            return None
        return model

    def setup(eng, st):
        st.env.update({'CALLED_G': z3.IntVal(0), 'CALLED_V': z3.IntVal(0), 'PRE_G': z3.BoolVal(True), 'PRE_V': z3.BoolVal(True)})

    c = Contract(
        path=COMB, qualname='VariantDatasetCombiner.step', self_fields={'_gvcfs': 'List[U]', '_vdses': 'Map[int, List[U]]', '_job_id': 'int'}, setup=setup,
        calls=props.models({'self._step_gvcfs': stepper('G'), 'self._step_vdses': stepper('V')}),
        ensures=[
            ('a-gvcf-step-runs-only-with-pending-gvcfs', 'implies(CALLED_G >= 1, PRE_G)'),
            ('a-dataset-step-runs-only-with-pending-datasets', 'implies(CALLED_V >= 1, PRE_V)'),
            ('exactly-one-step-unless-finished', 'CALLED_G + CALLED_V == ite(len(old(self._gvcfs)) == 0 and len(old(self._vdses)) == 0, 0, 1)'),
            ('a-finished-plan-is-left-alone', 'implies(len(old(self._gvcfs)) == 0 and len(old(self._vdses)) == 0, self._gvcfs == old(self._gvcfs) and len(self._vdses) == 0 and self._job_id == old(self._job_id))'),
            ('an-unfinished-plan-gets-a-new-job-number', 'implies(len(self._gvcfs) > 0 or len(self._vdses) > 0, self._job_id == old(self._job_id) + 1)'),
        ],
        raises={}, canaries=[('never-steps', 'CALLED_G + CALLED_V == 0'), ('only-gvcf-steps', 'CALLED_V == 0')],
    )
    eng = pyvc.Engine(ctx, c)
    eng.run()
    ctx.add(core.decided('C38/%s/no-call-outside-the-contract' % eng.label, not eng.unmodelled, repr(eng.unmodelled), kind='frame'))
    # run(): save, step, ... until finished, then one more save
    run = pyvc.find_function(tree, 'VariantDatasetCombiner.run')
    loops = [n for n in run.body if isinstance(n, _ast.While)]
    ok = len(loops) == 1 and _ast.unparse(loops[0].test) == 'not self.finished' and [_ast.unparse(x) for x in loops[0].body] == ['self.save()', 'self.step()'] and not loops[0].orelse
    ok = ok and _ast.unparse(run.body[run.body.index(loops[0]) + 1]) == 'self.save()' if ok else False
    ctx.add(core.decided('C38/VariantDatasetCombiner.run/saves-the-plan-before-every-step-steps-until-finished-and-saves-the-finished-plan', ok, '', kind='scan'))
    ctx.under_contract(COMB, 'VariantDatasetCombiner.run (loop shape)')


def _search():
    r = core.run_native(REPLAY, {'search': True})
    if r.get('confirmed'):
        return r
    r2 = core.run_native(COMBINER_REPLAY, {'scenario': 'search'}, timeout=300)
    return r2 if r2.get('confirmed') or 'error' not in r2 else r


def native_witness(ctx):
    """concrete search on the real code, usable when the contracts no longer apply to a changed source (vc/check.py): the
    partitioning on small contigs, then the real combiner class driven step by step on small plans / through the resume path"""
    return _search()


def _contig_selection(ctx):
    """calculate_even_genome_partitioning, outer part: the contigs handed to calc_parts are the 25 primary contigs of the named
    reference (autosomes 1-22, X, Y and the mitochondrial contig), each once, and every one of them is partitioned and its
    intervals returned.  The two list expressions are evaluated from the real AST (they are closed expressions: literals,
    range() and f-strings over the comprehension variable); anything else is undecided."""
    import ast as pyast

    tree = pyast.parse(core.read_repo(PATH))
    fn = pyvc.find_function(tree, 'calculate_even_genome_partitioning')
    got = {}
    for n in pyast.walk(fn):
        if isinstance(n, pyast.If) and isinstance(n.test, pyast.Compare) and pyast.unparse(n.test.left) == 'reference_genome.name' and len(n.test.comparators) == 1 and isinstance(n.test.comparators[0], pyast.Constant):
            name = n.test.comparators[0].value
            for st in n.body:
                if isinstance(st, pyast.Assign) and pyast.unparse(st.targets[0]) == 'contigs':
                    names_used = {x.id for x in pyast.walk(st.value) if isinstance(x, pyast.Name)}
                    bound = {x.id for c_ in pyast.walk(st.value) if isinstance(c_, pyast.comprehension) for x in pyast.walk(c_.target) if isinstance(x, pyast.Name)}
                    if names_used - bound - {'range', 'str'}:
                        got[name] = 'not a closed expression: %s' % pyast.unparse(st.value)
                    else:
                        got[name] = eval(compile(pyast.Expression(body=st.value), 'contigs-of-' + str(name), 'eval'), {'__builtins__': {'range': range, 'str': str}})  # pylint: disable=eval-used
    want = {'GRCh37': [str(i) for i in range(1, 23)] + ['X', 'Y', 'MT'], 'GRCh38': ['chr%d' % i for i in range(1, 23)] + ['chrX', 'chrY', 'chrM']}
    ok = all(isinstance(got.get(k), list) and sorted(got[k]) == sorted(v) and len(set(got[k])) == len(got[k]) for k, v in want.items())
    ctx.add(core.decided('C38/calculate_even_genome_partitioning/every-primary-contig-including-the-mitochondrial-one-is-partitioned-once', ok, repr({k: (v if not isinstance(v, list) else '%d contigs, missing %r' % (len(v), sorted(set(want.get(k, [])) - set(v)))) for k, v in got.items()})[:400], kind='scan'))
    tail = [pyast.unparse(x) for x in fn.body[-3:]]
    ctx.add(core.decided('C38/calculate_even_genome_partitioning/the-intervals-of-every-selected-contig-are-returned', tail == ['intervals = []', 'for ctg in contigs:\n    intervals.extend(calc_parts(ctg))', 'return intervals'], repr(tail), kind='scan'))


def build(ctx):
    _contig_selection(ctx)
    c = calc_parts()
    eng = pyvc.Engine(ctx, c)

    def replayer(model, obl):
        payload = {'search': True}
        if model is not None:
            try:
                L = model.eval(z3.Select(eng.inputs['LENGTHS'], eng.inputs['contig']), model_completion=True).as_long()
                payload.update({'L': L, 'size': pyvc.concretize(model, eng.inputs['interval_size'])})
            except Exception:
                pass
        return core.run_native(REPLAY, payload)

    eng.replayer = replayer
    eng.run()
    _plan(ctx)
    ctx.witness_search = _search
    ctx.assume('math.ceil(a / b) on Python ints equals the exact rational ceiling (float division rounding cannot cross an integer for a < 2**53; contig lengths are < 2**31)')
    ctx.assume('"no longer than requested" is read as end - start <= interval_size (the code\'s own unit; an inclusive interval then holds one more locus)')
    ctx.assume('hl.Interval / hl.Locus are value constructors: an interval is the pair (start position, end position), includes_end=True')
    ctx.assume('calls into the query engine, the file system and the logger (hl.*, dataset.write, os.path.join, info/warning) do not touch the combiner plan; their results are opaque')
    ctx.assume('VDSMetadata(path, n_samples) is a free pair constructor (typing.NamedTuple with exactly these fields: checked on the class)')
    ctx.assume('floor(log(n, b)) is some integer (nothing about its value is used: bins only need to be >= 1 / above the starting bin, which the code forces itself)')
    ctx.assume('new_combiner is called with branch_factor >= 2 and gvcf_batch_size >= 1 also when it resumes a saved plan (only __init__ validates them; the resume path stores them unchecked)')
    ctx.undecided('termination of run(): every GVCF step takes at least one GVCF, the merged dataset goes to a later bin, step() runs exactly one step - proved; that a non-final dataset step merges at least two datasets (so the number of pending datasets falls) is not')
    ctx.undecided('save/resume: the resume path of new_combiner is under contract given what load_combiner returns; the JSON Encoder / Decoder round trip of the plan (to_dict, Decoder._object_hook) is not')
    ctx.undecided('engine calls (combine_variant_datasets, import of the GVCF batches): that the dataset written is built from exactly the files selected')
