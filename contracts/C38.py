"""C38 - GVCF/VDS combiner merges every input exactly once (claimed clauses: even genome partitioning; merge-plan slices).

calculate_even_genome_partitioning.calc_parts (hail/python/hail/vds/combiner/combine.py): for every contig length L >= 1
and every interval_size >= 1 the returned inclusive intervals tile [1, L]: first starts at 1, consecutive intervals are
adjacent (next.start == prev.end + 1), every interval is non-empty, the last ends at L, and end - start <= interval_size.
"""
from __future__ import annotations

import z3

from vc import core, pyvc
from vc.pyvc import Contract, LoopSpec

PATH = 'hail/python/hail/vds/combiner/combine.py'


def _locus_interval(eng, st, args, kw, node):
    return (eng.num(args[0]), eng.num(args[1]))


TILE = (
    "forall(lambda j: implies(0 <= j < len({X}), {X}[j][0] <= {X}[j][1] and {X}[j][1] - {X}[j][0] <= interval_size and 1 <= {X}[j][0] and {X}[j][1] <= contig_len))"
)
ADJ = "forall(lambda j: implies(0 <= j < len({X}) - 1, {X}[j + 1][0] == {X}[j][1] + 1))"


def calc_parts():
    return Contract(
        path=PATH,
        qualname='calculate_even_genome_partitioning.calc_parts',
        types={'contig': 'U', 'intervals': 'List[Tuple[int, int]]', 'result': 'List[Tuple[int, int]]'},
        extra_inputs={'interval_size': 'int', 'LENGTHS': 'Array[U, int]'},
        float_as_real=True,
        setup=lambda eng, st: st.env.__setitem__('reference_genome', pyvc.SRecord('ReferenceGenome', {'lengths': st.env['LENGTHS']})),
        ghost_init={'contig_len': 'LENGTHS[contig]'},
        requires=['LENGTHS[contig] >= 1', 'interval_size >= 1'],
        calls={'locus_interval': _locus_interval},
        loops={
            0: LoopSpec(
                invariants=[
                    ('sizes', "real_size >= 1 and real_size <= interval_size and contig_length == contig_len"),
                    ('cursor', "1 <= n and n <= contig_length + 1"),
                    ('first-and-last', "(len(intervals) == 0 and n == 1) or (len(intervals) >= 1 and intervals[0][0] == 1 and intervals[len(intervals) - 1][1] == n - 1)"),
                    ('tiles', TILE.format(X='intervals')),
                    ('adjacent', ADJ.format(X='intervals')),
                ]
            )
        },
        ensures=[
            ('non-empty-result', 'len(result) >= 1'),
            ('starts-at-first-base', 'result[0][0] == 1'),
            ('ends-at-last-base', 'result[len(result) - 1][1] == contig_len'),
            ('intervals-non-empty-bounded-in-range', TILE.format(X='result')),
            ('intervals-adjacent-no-gap-no-overlap', ADJ.format(X='result')),
        ],
        canaries=[('one-interval-only', 'len(result) == 1')],
    )


REPLAY = r'''
import sys, json, os, ast, math
p = json.load(sys.stdin)
src = open(os.path.join(os.environ['VERIF_REPO'], 'hail/python/hail/vds/combiner/combine.py')).read()
tree = ast.parse(src)
fn = [n for n in tree.body if isinstance(n, ast.FunctionDef) and n.name == 'calculate_even_genome_partitioning'][0]
fn.decorator_list = []
fn.returns = None
class Locus:
    def __init__(self, contig, position, reference_genome): self.position = position
class Interval:
    def __init__(self, start, end, includes_end): self.start, self.end, self.includes_end = start.position, end.position, includes_end
class HL:
    pass
hl = HL(); hl.Locus = Locus; hl.Interval = Interval
ns = {'hl': hl, 'math': math, 'List': list}
exec(compile(ast.Module(body=[fn], type_ignores=[]), 'combine-extract', 'exec'), ns)
class RG:
    def __init__(self, L):
        self.name = 'GRCh38'
        self.lengths = {c: L for c in [f'chr{i}' for i in range(1, 23)] + ['chrX', 'chrY', 'chrM']}
def check(L, size):
    ivs = ns['calculate_even_genome_partitioning'](RG(L), size)[:None]
    per = {}
    # every contig has the same length: inspect the intervals of the first contig (they are emitted contig by contig)
    out = []
    cur = []
    for iv in ivs:
        if cur and iv.start == 1:
            out.append(cur); cur = []
        cur.append((iv.start, iv.end))
    out.append(cur)
    problems = []
    if len(out) != 25: problems.append('expected 25 contigs, got %d groups' % len(out))
    first = out[0]
    if not first or first[0][0] != 1: problems.append('does not start at base 1')
    if first and first[-1][1] != L: problems.append('last interval ends at %s, contig length %d' % (first[-1][1] if first else None, L))
    for (s, e) in first:
        if s > e: problems.append('empty interval %r' % ((s, e),))
        if e - s > size: problems.append('interval %r longer than requested %d' % ((s, e), size))
    for (a, b) in zip(first, first[1:]):
        if b[0] != a[1] + 1: problems.append('gap/overlap between %r and %r' % (a, b))
    return {'confirmed': bool(problems), 'problems': problems, 'intervals': first[:8], 'input': {'contig_length': L, 'interval_size': size}}
res = {'confirmed': False}
cands = []
if 'L' in p: cands.append((p['L'], p['size']))
if p.get('search'):
    cands += [(L, s) for L in range(1, 41) for s in range(1, 13)]
for (L, s) in cands:
    if L < 1 or s < 1 or L > 10**7: continue
    r = check(L, s)
    if r['confirmed']:
        res = r; break
print(json.dumps(res))
'''


# ---- merge plan: every pending input goes into exactly one merge ---------------------------------------------------------------
COMB = 'hail/python/hail/vds/combiner/variant_dataset_combiner.py'


def _plan_contracts():
    """_step_vdses chooses the datasets of one merge from bins (dict: size class -> list of datasets); _step_gvcfs takes a prefix of
    the pending GVCFs.  Contracts on the real statements (fragments of the two methods): what is taken and what stays is a
    SPLIT of what was there (take ++ rest == old, element by element, per bin), bins not visited are untouched, at most
    branch_factor datasets are taken."""
    out = []
    T = {'self._vdses': 'Map[int, List[U]]', 'files_to_merge': 'List[U]', 'extra': 'List[U]'}

    def setup(eng, st):
        st.env['self'] = pyvc.SRecord('VariantDatasetCombiner', {'_vdses': st.env['BINS'], '_branch_factor': st.env['BF'], '_num_vdses': st.env['NV']})
        st.env['OLD'] = st.env['BINS']

    # (1) head: the lowest bin gives up to branch_factor datasets from its front
    out.append(Contract(
        path=COMB, qualname='VariantDatasetCombiner._step_vdses', label='VariantDatasetCombiner._step_vdses[first-bin]', fragment=('re:^current_bin = original_bin = min\\(self\\._vdses\\)', 're:^remaining = '),
        types=dict(T), extra_inputs={'BINS': 'Map[int, List[U]]', 'BF': 'int', 'NV': 'int'}, setup=setup,
        requires=['BF >= 2', 'len(BINS) >= 1', "forall(lambda b: implies(b in BINS, len(BINS[b]) >= 1))"],
        ensures=[
            ('taken-and-kept-split-the-lowest-bin', 'implies(current_bin in self._vdses, files_to_merge + self._vdses[current_bin] == OLD[current_bin]) and implies(not (current_bin in self._vdses), files_to_merge == OLD[current_bin])'),
            ('a-bin-is-dropped-only-when-empty-and-kept-bins-are-non-empty', 'implies(current_bin in self._vdses, len(self._vdses[current_bin]) >= 1)'),
            ('other-bins-untouched', 'forall(lambda b: implies(b != current_bin, (b in self._vdses) == (b in OLD) and implies(b in OLD, self._vdses[b] == OLD[b])))'),
            ('between-one-and-branch-factor-datasets', '1 <= len(files_to_merge) and len(files_to_merge) <= BF and remaining == BF - len(files_to_merge)'),
            ('the-bin-chosen-is-a-bin', 'current_bin in OLD and original_bin == current_bin'),
        ],
        raises={}, canaries=[('always-whole-bin', 'not (current_bin in self._vdses)')],
    ))

    def setup2(eng, st):
        setup(eng, st)
        st.env['files_to_merge'] = st.env['FTM']
        st.env['remaining'] = st.env['REM']

    # (2) one top-up iteration: the (now) lowest bin gives its LAST `remaining` datasets
    out.append(Contract(
        path=COMB, qualname='VariantDatasetCombiner._step_vdses', label='VariantDatasetCombiner._step_vdses[top-up iteration]', fragment=('re:^current_bin = min\\(self\\._vdses\\)', 're:^remaining = '),
        types=dict(T), extra_inputs={'BINS': 'Map[int, List[U]]', 'BF': 'int', 'NV': 'int', 'FTM': 'List[U]', 'REM': 'int'}, setup=setup2,
        requires=['BF >= 2', 'len(BINS) >= 1', "forall(lambda b: implies(b in BINS, len(BINS[b]) >= 1))", 'REM >= 1', 'REM == BF - len(FTM)', 'len(FTM) >= 1'],
        ensures=[
            ('taken-and-kept-split-the-bin', 'implies(current_bin in self._vdses, self._vdses[current_bin] + extra == OLD[current_bin]) and implies(not (current_bin in self._vdses), extra == OLD[current_bin])'),
            ('kept-bins-are-non-empty', 'implies(current_bin in self._vdses, len(self._vdses[current_bin]) >= 1)'),
            ('what-was-taken-joins-the-merge-nothing-else-changes-in-it', 'files_to_merge == extra + FTM'),
            ('other-bins-untouched', 'forall(lambda b: implies(b != current_bin, (b in self._vdses) == (b in OLD) and implies(b in OLD, self._vdses[b] == OLD[b])))'),
            ('never-more-than-branch-factor', 'len(files_to_merge) <= BF and remaining == BF - len(files_to_merge) and len(extra) >= 1'),
        ],
        raises={}, canaries=[('always-whole-bin', 'not (current_bin in self._vdses)')],
    ))

    def setup3(eng, st):
        st.env['self'] = pyvc.SRecord('VariantDatasetCombiner', {'_gvcfs': st.env['G'], '_branch_factor': st.env['BF'], '_gvcf_batch_size': st.env['BS']})

    # (3) _step_gvcfs: a prefix of the pending GVCFs is taken, the rest stays in order
    out.append(Contract(
        path=COMB, qualname='VariantDatasetCombiner._step_gvcfs', label='VariantDatasetCombiner._step_gvcfs[selection]', fragment=('re:^step = self\\._branch_factor', 're:^self\\._gvcfs = '),
        types={'self._gvcfs': 'List[U]', 'files_to_merge': 'List[U]'}, extra_inputs={'G': 'List[U]', 'BF': 'int', 'BS': 'int'}, setup=setup3,
        requires=['BF >= 2', 'BS >= 1', 'len(G) >= 1'],
        ensures=[('taken-and-kept-split-the-pending-gvcfs', 'files_to_merge + self._gvcfs == G'), ('at-most-one-batch-and-at-least-one', '1 <= len(files_to_merge) and len(files_to_merge) <= BS * BF')],
        raises={}, canaries=[('takes-everything', 'len(self._gvcfs) == 0')],
    ))
    return out


def _plan(ctx):
    for c in _plan_contracts():
        eng = pyvc.Engine(ctx, c)
        eng.run()
        ctx.add(core.decided('C38/%s/no-call-outside-the-contract' % eng.label, not eng.unmodelled, repr(eng.unmodelled), kind='frame'))
    # the top-up loop re-runs that iteration while datasets remain and the merge is short of branch_factor; sample names are cut
    # with the same bounds as the files
    import ast as pyast

    tree = pyast.parse(core.read_repo(COMB))
    fn = pyvc.find_function(tree, 'VariantDatasetCombiner._step_vdses')
    loops = [n for n in fn.body if isinstance(n, pyast.While)]
    ctx.add(core.decided('C38/VariantDatasetCombiner._step_vdses/top-up-loop-runs-while-datasets-remain-and-the-merge-is-short', len(loops) == 1 and pyast.unparse(loops[0].test) == 'self._num_vdses > 0 and remaining > 0', repr([pyast.unparse(l.test) for l in loops]), kind='scan'))
    g = pyast.unparse(pyvc.find_function(tree, 'VariantDatasetCombiner._step_gvcfs'))
    ctx.add(core.decided('C38/VariantDatasetCombiner._step_gvcfs/sample-names-are-cut-like-the-files', "sample_names = self._gvcf_sample_names[:self._gvcf_batch_size * step]" in g and "self._gvcf_sample_names = self._gvcf_sample_names[self._gvcf_batch_size * step:]" in g, '', kind='scan'))
    # resumed runs must not write onto intermediates still pending in the saved plan: the job counter restarts at 1 after a load
    # (it is not serialised), so the path prefix has to be fresh per combiner object
    init = pyast.unparse(pyvc.find_function(tree, 'VariantDatasetCombiner.__init__'))
    ser = [pyast.unparse(n.value) for n in pyast.walk(tree) if isinstance(n, pyast.Assign) and pyast.unparse(n.targets[0]) == '__serialized_slots__']
    fresh = 'self._uuid = uuid.uuid4()' in init or any("'_job_id'" in x and "'_uuid'" in x for x in ser)
    ctx.add(core.decided('C38/VariantDatasetCombiner/intermediate-paths-of-a-resumed-run-are-fresh', fresh, 'uuid4 per object, or job id and uuid saved with the plan', kind='scan'))
    ctx.under_contract(COMB, 'VariantDatasetCombiner.__init__ (intermediate path prefix)')


def native_witness(ctx):
    """concrete search on the real code, usable when the contracts no longer apply to a changed source (vc/check.py)"""
    return core.run_native(REPLAY, {'search': True})


def build(ctx):
    c = calc_parts()
    eng = pyvc.Engine(ctx, c)

    def replayer(model, obl):
        payload = {'search': True}
        if model is not None:
            try:
                L = model.eval(z3.Select(eng.inputs['LENGTHS'], eng.inputs['contig']), model_completion=True).as_long()
                payload.update({'L': L, 'size': pyvc.concretize(model, eng.inputs['interval_size'])})
            except Exception:
                pass
        return core.run_native(REPLAY, payload)

    eng.replayer = replayer
    eng.run()
    _plan(ctx)
    ctx.witness_search = lambda: core.run_native(REPLAY, {'search': True})
    ctx.assume('math.ceil(a / b) on Python ints equals the exact rational ceiling (float division rounding cannot cross an integer for a < 2**53; contig lengths are < 2**31)')
    ctx.assume('"no longer than requested" is read as end - start <= interval_size (the code\'s own unit; an inclusive interval then holds one more locus)')
    ctx.assume('hl.Interval / hl.Locus are value constructors: an interval is the pair (start position, end position), includes_end=True')
    ctx.undecided('merge plan: the selection statements of _step_vdses / _step_gvcfs are under contract (splits per bin); that the new dataset is filed in a later bin and the run terminates is not')
    ctx.undecided('save/resume of the combiner plan (JSON encode/decode of the combiner state)')
    ctx.undecided('engine calls (combine_variant_datasets, import_gvcfs) and termination of run()')
