"""C02 - billing aggregates equal the sum of attempt usage.

Invariant per aggregate table T (job, job group incl. ancestors, billing project + user, billing project + user + date):
   total_T(key, res) = sum over attempts a mapped to key, over resources r of a with deduped_resource_id = res of r.quantity * billed(a)
with billed(a) = max(coalesce(rollup - start, 0), 0) and totals taken over `token` (and over dates for the by-date table).
Delta obligations, for all rows / databases, on the real effective trigger text:
 * attempts_after_update: for each of the four tables the trigger adds  (billed(NEW) - billed(OLD)) * r.quantity  at exactly the key
   derived from the attempt (job: (batch, job, res); job group: (batch, a, res) for exactly the ancestors a of the job's group;
   project/user: (billing_project(batch), user(batch), res); by date: the same at the statement's UTC date), for EVERY resource
   row r of the attempt and for nothing else; a zero delta may be skipped; inserted value == duplicate-branch increment.
 * attempt_resources_after_insert: adds NEW.quantity * billed(attempt) to the same four key sets (resources registered after
   billing started are billed for the time already rolled up).
 * add_attempt_resources (embedded SQL): the duplicate branch is `quantity = quantity` (a re-sent report changes nothing and
   fires no AFTER INSERT trigger); per-name quantities are summed before insertion (AST obligation).
 * compact_agg_billing_project_users_table(_by_date): SELECT-sum, DELETE and INSERT carry the same key; the inserted usage is
   the selected sum at token 0, so total(key) is unchanged (AST + parsed-SQL obligations).
"""
from __future__ import annotations

import ast as pyast

import z3

from contracts import sqlspec as SP
from vc import core, sqlast as A, sqlparse, sqlvc
from vc.sqlvc import SV

TABLES = {
    'aggregated_billing_project_user_resources_v3': ['billing_project', 'user', 'resource_id'],
    'aggregated_job_group_resources_v3': ['batch_id', 'job_group_id', 'resource_id'],
    'aggregated_job_resources_v3': ['batch_id', 'job_id', 'resource_id'],
    'aggregated_billing_project_user_resources_by_date_v3': ['billing_date', 'billing_project', 'user', 'resource_id'],
}


def billed(row):
    s, r = row['start_time'], row['rollup_time']
    d = z3.If(z3.Or(s.n, r.n), z3.IntVal(0), r.v - s.v)
    return z3.If(d > 0, d, z3.IntVal(0))


def _check_trigger(ctx, ex, trg_name, table, old, new, delta_of, res_row_of, pre_fn):
    trg = ex.routines[trg_name]
    ctx.under_contract(SP.rel(trg.source_file), 'TRIGGER ' + trg_name)
    st = ex.new_state()
    for t in ('batches', 'jobs', 'attempts', 'attempt_resources', 'job_group_self_and_ancestors', 'globals'):
        st.db.tab(t)
    base = st.db.fork()
    outs = ex.run_trigger(trg_name, st, old, new)
    pre = pre_fn(base)
    batches, jobs, jgsa = base.tab('batches'), base.tab('jobs'), base.tab('job_group_self_and_ancestors')
    ar = base.tab('attempt_resources')
    b, j, a = new['batch_id'].v, new['job_id'].v, new['attempt_id'].v
    n_feasible = 0
    nonzero = []
    for pi, s in enumerate(outs):
        hyps = list(s.pc) + pre
        if not sqlvc.feasible(hyps, 3000):
            continue
        n_feasible += 1
        ups = [e for e in s.effects if e.kind == 'upsert-select']
        writes = [e for e in s.effects if e.kind in ('insert', 'upsert', 'update', 'update-set', 'insert-select', 'delete', 'delete-set', 'upsert-select')]
        delta = delta_of(base)
        if not ups:
            ctx.add(core.valid('%s/path%d/no-write-only-when-delta-is-zero' % (trg_name, pi), hyps, delta == 0))
            ctx.add(core.decided('%s/path%d/no-other-writes' % (trg_name, pi), not writes, repr([(e.kind, e.table) for e in writes]), kind='frame'))
            continue
        ctx.add(core.decided('%s/path%d/writes-exactly-the-four-aggregate-tables' % (trg_name, pi), sorted(e.table for e in ups) == sorted(TABLES) and all(e.table in TABLES for e in writes), repr([(e.kind, e.table) for e in writes]), kind='frame'))
        for e in ups:
            d = e.data
            h = list(s.pc[: d['pc_len']]) + pre
            cond = d['cond']
            for col, goal in d['additivity_goals']:
                ctx.add(core.valid('%s/path%d/%s/additive/%s' % (trg_name, pi, e.table, col), h + [cond], goal))
            ctx.add(core.decided('%s/path%d/%s/only-usage-updated' % (trg_name, pi, e.table), d['updated_cols'] == ['usage'], repr(d['updated_cols']), kind='scan'))
            key, vals = d['key'], d['values']
            # which resource row does this source row stand for?
            res_id, qty, res_exists = res_row_of(base, d)
            ctx.add(core.valid('%s/path%d/%s/value-is-quantity-times-delta' % (trg_name, pi, e.table), h + [cond], z3.And(z3.Not(vals['usage'].n), vals['usage'].v == qty * delta)))
            ctx.add(core.valid('%s/path%d/%s/key-resource-is-the-deduped-resource' % (trg_name, pi, e.table), h + [cond], key['resource_id'].v == res_id))
            if res_exists is not None:
                ctx.add(core.valid('%s/path%d/%s/rows-only-for-resources-of-the-attempt' % (trg_name, pi, e.table), h + [cond], res_exists))
            bp = batches.get([b], 'billing_project')
            us = batches.get([b], 'user')
            if 'billing_project' in key:
                ctx.add(core.valid('%s/path%d/%s/key-is-the-batch-billing-project-and-user' % (trg_name, pi, e.table), h + [cond], z3.And(key['billing_project'].v == bp.v, key['user'].v == us.v, z3.Not(key['billing_project'].n), z3.Not(key['user'].n))))
            if 'job_id' in key:
                ctx.add(core.valid('%s/path%d/%s/key-is-the-job' % (trg_name, pi, e.table), h + [cond], z3.And(key['batch_id'].v == b, key['job_id'].v == j)))
            if 'job_group_id' in key:
                grp = jobs.get([b, j], 'job_group_id')
                ctx.add(core.valid('%s/path%d/%s/rows-only-for-ancestors-of-the-job-group' % (trg_name, pi, e.table), h + [cond], z3.And(key['batch_id'].v == b, jgsa.has([b, grp.v, key['job_group_id'].v]))))
                anc = z3.Int('anc_any')
                ints = [k for k in d['kvars'] if z3.is_int(k)]
                # every ancestor gets a row (for every resource row of the attempt): existence of a source row with that ancestor
                if ints:
                    ex_src = z3.Exists(d['kvars'], z3.And(cond, key['job_group_id'].v == anc, key['resource_id'].v == res_id)) if d['kvars'] else z3.And(cond, key['job_group_id'].v == anc)
                    ctx.add(core.valid('%s/path%d/%s/every-ancestor-gets-the-delta' % (trg_name, pi, e.table), h + [jgsa.has([b, grp.v, anc]), z3.Exists(d['kvars'], cond)], z3.Exists(d['kvars'], z3.And(cond, key['job_group_id'].v == anc))))
            nonzero.append(z3.And(*h, cond, vals['usage'].v != 0))
    ctx.add(core.decided('%s/paths-generated' % trg_name, n_feasible >= 2, '%d feasible paths' % n_feasible, kind='vacuity'))
    ctx.add(core.satisfiable('%s/vacuity/some-row-adds-usage' % trg_name, z3.Or(*nonzero) if nonzero else z3.BoolVal(False)))


def build(ctx):
    ex = sqlvc.Exec(inline_after=False)
    # ---- attempts_after_update
    old = ex.symbolic_row('attempts', 'OLD')
    new = ex.symbolic_row('attempts', 'NEW')
    for c in ('batch_id', 'job_id', 'attempt_id', 'instance_name'):
        new[c] = old[c]

    def pre_fn(base):
        b, j = new['batch_id'].v, new['job_id'].v
        batches, jobs, jgsa = base.tab('batches'), base.tab('jobs'), base.tab('job_group_self_and_ancestors')
        grp = jobs.get([b, j], 'job_group_id')
        return [batches.has([b]), jobs.has([b, j]), z3.Not(batches.get([b], 'user').n), z3.Not(batches.get([b], 'billing_project').n), jgsa.has([b, grp.v, grp.v])]

    def res_row_upd(base, d):
        # source rows range over attempt_resources rows of the attempt: the free key variable is the resource id
        ar = base.tab('attempt_resources')
        rid = [k for k in d['kvars'] if z3.is_int(k) and 'attempt_resources' in str(k)]
        if not rid:
            raise core.Undecided('attempts_after_update: source of the upsert is not the attempt_resources rows of the attempt')
        key = [new['batch_id'].v, new['job_id'].v, new['attempt_id'].v, rid[0]]
        return ar.get(key, 'deduped_resource_id').v, ar.get(key, 'quantity').v, ar.has(key)

    _check_trigger(ctx, ex, 'attempts_after_update', 'attempts', old, new, lambda base: billed(new) - billed(old), res_row_upd, pre_fn)

    # ---- attempt_resources_after_insert
    newr = ex.symbolic_row('attempt_resources', 'NEW')
    new2 = newr

    def pre_fn2(base):
        b, j = newr['batch_id'].v, newr['job_id'].v
        batches, jobs, jgsa, att = base.tab('batches'), base.tab('jobs'), base.tab('job_group_self_and_ancestors'), base.tab('attempts')
        grp = jobs.get([b, j], 'job_group_id')
        return [batches.has([b]), jobs.has([b, j]), att.has([b, j, newr['attempt_id'].v]), z3.Not(batches.get([b], 'user').n), z3.Not(batches.get([b], 'billing_project').n), jgsa.has([b, grp.v, grp.v])]

    def delta_ins(base):
        att = base.tab('attempts')
        k = [newr['batch_id'].v, newr['job_id'].v, newr['attempt_id'].v]
        return billed({'start_time': att.get(k, 'start_time'), 'rollup_time': att.get(k, 'rollup_time')})

    def res_row_ins(base, d):
        return newr['deduped_resource_id'].v, newr['quantity'].v, None

    # reuse the checker with `new` bound to the inserted resource row
    globals()['_new_for_insert'] = newr
    _orig_new = new

    def _run():
        nonlocal_new = newr
        trg_name = 'attempt_resources_after_insert'
        trg = ex.routines[trg_name]
        ctx.under_contract(SP.rel(trg.source_file), 'TRIGGER ' + trg_name)
        st = ex.new_state()
        for t in ('batches', 'jobs', 'attempts', 'attempt_resources', 'job_group_self_and_ancestors', 'globals'):
            st.db.tab(t)
        base = st.db.fork()
        outs = ex.run_trigger(trg_name, st, None, newr)
        pre = pre_fn2(base)
        batches, jobs, jgsa = base.tab('batches'), base.tab('jobs'), base.tab('job_group_self_and_ancestors')
        b, j = newr['batch_id'].v, newr['job_id'].v
        delta = delta_ins(base)
        n_feasible = 0
        nonzero = []
        for pi, s in enumerate(outs):
            hyps = list(s.pc) + pre
            if not sqlvc.feasible(hyps, 3000):
                continue
            n_feasible += 1
            ups = [e for e in s.effects if e.kind == 'upsert-select']
            writes = [e for e in s.effects if e.kind in ('insert', 'upsert', 'update', 'update-set', 'insert-select', 'delete', 'delete-set', 'upsert-select')]
            if not ups:
                ctx.add(core.valid('%s/path%d/no-write-only-when-nothing-billed-yet' % (trg_name, pi), hyps, delta == 0))
                continue
            ctx.add(core.decided('%s/path%d/writes-exactly-the-four-aggregate-tables' % (trg_name, pi), sorted(e.table for e in ups) == sorted(TABLES) and all(e.table in TABLES for e in writes), repr([(e.kind, e.table) for e in writes]), kind='frame'))
            for e in ups:
                d = e.data
                h = list(s.pc[: d['pc_len']]) + pre
                cond = d['cond']
                key, vals = d['key'], d['values']
                for col, goal in d['additivity_goals']:
                    ctx.add(core.valid('%s/path%d/%s/additive/%s' % (trg_name, pi, e.table, col), h + [cond], goal))
                ctx.add(core.valid('%s/path%d/%s/value-is-quantity-times-billed' % (trg_name, pi, e.table), h + [cond], z3.And(z3.Not(vals['usage'].n), vals['usage'].v == newr['quantity'].v * delta)))
                ctx.add(core.valid('%s/path%d/%s/key-resource-is-the-deduped-resource' % (trg_name, pi, e.table), h + [cond], key['resource_id'].v == newr['deduped_resource_id'].v))
                if 'billing_project' in key:
                    ctx.add(core.valid('%s/path%d/%s/key-is-the-batch-billing-project-and-user' % (trg_name, pi, e.table), h + [cond], z3.And(key['billing_project'].v == batches.get([b], 'billing_project').v, key['user'].v == batches.get([b], 'user').v)))
                if 'job_id' in key:
                    ctx.add(core.valid('%s/path%d/%s/key-is-the-job' % (trg_name, pi, e.table), h + [cond], z3.And(key['batch_id'].v == b, key['job_id'].v == j)))
                if 'job_group_id' in key:
                    grp = jobs.get([b, j], 'job_group_id')
                    ctx.add(core.valid('%s/path%d/%s/rows-only-for-ancestors-of-the-job-group' % (trg_name, pi, e.table), h + [cond], z3.And(key['batch_id'].v == b, jgsa.has([b, grp.v, key['job_group_id'].v]))))
                    anc = z3.Int('anc_any')
                    ctx.add(core.valid('%s/path%d/%s/every-ancestor-gets-the-delta' % (trg_name, pi, e.table), h + [jgsa.has([b, grp.v, anc])], z3.Exists(d['kvars'], z3.And(cond, key['job_group_id'].v == anc)) if d['kvars'] else z3.And(cond, key['job_group_id'].v == anc)))
                nonzero.append(z3.And(*h, cond, vals['usage'].v != 0))
        ctx.add(core.decided('%s/paths-generated' % trg_name, n_feasible >= 2, '%d feasible paths' % n_feasible, kind='vacuity'))
        ctx.add(core.satisfiable('%s/vacuity/some-row-adds-usage' % trg_name, z3.Or(*nonzero) if nonzero else z3.BoolVal(False)))

    _run()
    _python_side(ctx)
    from contracts import sqlspec as _SP
    _SP.engine_obligations(ctx, ex)
    ctx.assume('token abstraction: every reader of the aggregated_*_v3 tables sums `usage` over `token`; one shard changed by e changes the total by e (meta-lemma L1)')
    ctx.assume('the per-day table books each delta on UTC_DATE() of the statement; the invariant is stated on the sum over dates')
    ctx.assume('attempt_resources.quantity / deduped_resource_id are never updated (the duplicate branch of the only writer is `quantity = quantity`)')
    ctx.assume('structural facts used as preconditions: the batch and job rows of the attempt exist with non-NULL user / billing_project, and the job group is its own ancestor (A1)')
    ctx.undecided('cost arithmetic in _get_batch (floating point usage * rate); atomicity across the separate transactions of mark_job_started and add_attempt_resources')


def _conj(e):
    if e is None:
        return []
    if isinstance(e, A.BinOp) and e.op == 'AND':
        return _conj(e.left) + _conj(e.right)
    return [e]


def _python_side(ctx):
    src = core.read_repo('batch/batch/driver/job.py')
    tree = pyast.parse(src)
    fn = [n for n in pyast.walk(tree) if isinstance(n, pyast.AsyncFunctionDef) and n.name == 'add_attempt_resources'][0]
    ctx.under_contract('batch/batch/driver/job.py', 'add_attempt_resources')
    sql = [n.value for n in pyast.walk(fn) if isinstance(n, pyast.Constant) and isinstance(n.value, str) and 'attempt_resources' in n.value and 'INSERT' in n.value.upper()]
    ok = False
    detail = ''
    if len(sql) == 1:
        stn = sqlparse.parse_statements(sql[0])[0]
        detail = stn.to_sql()
        ok = (
            isinstance(stn, A.Insert)
            and stn.table == 'attempt_resources'
            and list(stn.columns) == ['batch_id', 'job_id', 'attempt_id', 'resource_id', 'deduped_resource_id', 'quantity']
            and len(stn.on_duplicate) == 1
            and stn.on_duplicate[0][0].parts[-1] == 'quantity'
            and isinstance(stn.on_duplicate[0][1], A.Name)
            and stn.on_duplicate[0][1].parts[-1] == 'quantity'
        )
    ctx.add(core.decided('add_attempt_resources/duplicate-report-changes-nothing (quantity = quantity)', ok, detail, kind='scan'))
    body = pyast.unparse(fn)
    summed = "_resources[resource['name']] += resource['quantity']" in body and 'for name, quantity in _resources.items()' in body
    ctx.add(core.decided('add_attempt_resources/quantities-summed-per-resource-name-one-row-per-name', summed, '', kind='scan'))
    # compaction
    msrc = core.read_repo('batch/batch/driver/main.py')
    mtree = pyast.parse(msrc)
    for fname in ('compact_agg_billing_project_users_table', 'compact_agg_billing_project_users_by_date_table'):
        fns = [n for n in pyast.walk(mtree) if isinstance(n, pyast.AsyncFunctionDef) and n.name == fname]
        if not fns:
            raise core.Undecided('anchor-moved: %s' % fname)
        ctx.under_contract('batch/batch/driver/main.py', fname)
        compact = [n for n in pyast.walk(fns[0]) if isinstance(n, pyast.AsyncFunctionDef) and n.name == 'compact']
        if not compact:
            raise core.Undecided('anchor-moved: %s.compact' % fname)
        stmts = []
        for n in pyast.walk(compact[0]):
            if isinstance(n, pyast.Constant) and isinstance(n.value, str) and n.value.strip()[:6].upper() in ('SELECT', 'DELETE', 'INSERT'):
                stmts.append(sqlparse.parse_statements(n.value)[0])
        sels = [x for x in stmts if isinstance(x, A.SelectStmt)]
        dels = [x for x in stmts if isinstance(x, A.Delete)]
        inss = [x for x in stmts if isinstance(x, A.Insert)]
        by_date = 'by_date' in fname
        keycols = (['billing_date'] if by_date else []) + ['billing_project', 'user', 'resource_id']
        table = 'aggregated_billing_project_user_resources_by_date_v3' if by_date else 'aggregated_billing_project_user_resources_v3'

        def where_cols(w):
            return sorted(c.left.parts[-1] for c in _conj(w) if isinstance(c, A.BinOp) and c.op == '=' and isinstance(c.left, A.Name) and isinstance(c.right, (A.Param, A.NamedParam)))

        sum_sel = [x for x in sels if any(isinstance(n, A.Func) and n.name == 'SUM' for n in x.select.walk())]
        ok_sel = bool(sum_sel) and all(where_cols(x.select.where) == sorted(keycols) and len(_conj(x.select.where)) == len(keycols) and SP._tables_of(x.select.from_) == [table] for x in sum_sel)
        ok_del = len(dels) == 1 and dels[0].table == table and where_cols(dels[0].where) == sorted(keycols) and len(_conj(dels[0].where)) == len(keycols)
        ok_ins = len(inss) == 1 and inss[0].table == table and not inss[0].on_duplicate and sorted(inss[0].columns) == sorted(keycols + ['token', 'usage'])
        tok0 = False
        if ok_ins:
            # the values are passed as a Python tuple next to the INSERT string: token is the literal 0, usage the selected sum
            for call in pyast.walk(compact[0]):
                if isinstance(call, pyast.Call) and len(call.args) >= 2 and isinstance(call.args[0], pyast.Constant) and isinstance(call.args[0].value, str) and 'INSERT INTO' in call.args[0].value and isinstance(call.args[1], pyast.Tuple):
                    elts = call.args[1].elts
                    cols = list(inss[0].columns)
                    t_ = elts[cols.index('token')]
                    u_ = elts[cols.index('usage')]
                    tok0 = isinstance(t_, pyast.Constant) and t_.value == 0 and pyast.unparse(u_) == "original_usage['usage']"
                    keys_ok = all(pyast.unparse(elts[cols.index(k)]) == "target['%s']" % k for k in keycols)
                    tok0 = tok0 and keys_ok
        ctx.add(core.decided('%s/sum-select-delete-insert-share-the-full-key' % fname, ok_sel and ok_del and ok_ins and tok0, 'select=%s delete=%s insert=%s token0=%s' % (ok_sel, ok_del, ok_ins, tok0), kind='scan'))
        # the sum that is re-inserted must be read under a lock: between a plain snapshot read and the DELETE a billing trigger
        # may add usage to a shard of this key, which the DELETE would then remove while the stale sum is re-inserted
        first_locks = bool(sum_sel) and sum_sel[0].select.locking == 'FOR UPDATE' and stmts.index(sum_sel[0]) == 0
        ctx.add(core.decided('%s/the-sum-to-re-insert-is-read-under-a-lock-first' % fname, first_locks, 'locking=%r' % (sum_sel[0].select.locking if sum_sel else None), kind='scan'))
        txt = pyast.unparse(compact[0])
        flows = "original_usage = await tx.execute_and_fetchone" in txt and ("new_usage['usage'] != original_usage['usage']" in txt)
        ctx.add(core.decided('%s/inserted-usage-is-the-selected-sum-and-is-rechecked' % fname, flows, '', kind='scan'))
