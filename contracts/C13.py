"""C13 - job billing never exceeds the instance and survives serialization.

The property is decomposed into contracts on the real code (all bodies are re-read and executed symbolically on every run, the
class hierarchy - mixins, super() calls, class constants - is resolved from the class statements, constructors run the real
__init__):

 (R) per resource class X of batch/batch/cloud/{gcp,azure}/resources.py, `X.to_quantified_resource`:
     R1  never raises and bills a non-negative quantity for non-negative arguments;
     R2  *share* resources (everything that is not a DynamicSizedDisk): for any two jobs and any whole with
         cpu >= cpu1 + cpu2, mem >= mem1 + mem2, fraction >= fraction1 + fraction2:  q(job1) + q(job2) <= q(whole), whatever
         the external storage arguments are (so the quantity is monotone, super-additive and independent of external storage);
         the billed resource name does not depend on the arguments;
     R3  *external storage* resources (DynamicSizedDisk): nothing is billed for external storage 0 (the whole worker has
         none), and the result does not depend on cpu / memory / fraction;
 (F) InstanceConfig.quantified_resources: the fraction handed to every resource is one function F(cpu, cores) with
     F(cores * 1000) = 1024 (a job using the whole worker is billed the whole worker), F >= 0 and
     F(a) + F(b) <= F(a + b) (inductive step of "any packing adds up to at most the whole": with R2 the running total T of a
     packing of total cpu S satisfies T <= q(S), and adding a job keeps it); cpu, memory and storage are passed through
     unchanged; every non-None quantity is returned exactly once, in order, and nothing else.
 (S) serialization: for every resource class X, gcp/azure_resource_from_dict(X(..).to_dict()) is an X with identical fields
     and bills identical quantities; {GCP,Azure}SlimInstanceConfig.from_dict(c.to_dict()) has the same machine type (hence
     cores and memory), job_private flag and, element-wise, the round-tripped resources.
 (M) {gcp,azure}_cores_mcpu_to_memory_bytes (the memory figure of every pool job): exactly floor(mcpu * per-core bytes / 1000)
     for any positive per-core table value, hence super-additive in mcpu and equal to cores * per-core for the whole worker.
 (P) PoolConfig.convert_requests_to_resources: the memory it returns is (M) of the cores it returns; the cores fit the worker.
 (W) worker.py Job.__init__ (fragment): the job is billed quantified_resources(spec cores, spec memory, the external storage
     the worker attaches for it) - 0 on a job-private instance, the request on a pool worker; worker.py keeps these fields
     fixed after construction, creates disks of exactly that size and reports self.resources; the drivers' create_vm bill the
     whole worker as quantified_resources(cores * 1000, machine memory, 0).
"""
from __future__ import annotations

import ast as pyast
import os

import z3

from vc import core, pyvc
from vc.pyclass import ClassIndex, Inliner
from vc.pyvc import Contract, Ghost, LoopSpec, SRecord

BASE = 'batch/batch/resources.py'
CLOUDS = {
    'gcp': ('batch/batch/cloud/gcp/resources.py', 'gcp_resource_from_dict', 'GCPResource'),
    'azure': ('batch/batch/cloud/azure/resources.py', 'azure_resource_from_dict', 'AzureResource'),
}
IC = 'batch/batch/instance_config.py'
QARGS = ('cpu_in_mcpu', 'memory_in_bytes', 'worker_fraction_in_1024ths', 'external_storage_in_gib')


def _sym_for(param, ann, tag):
    """symbolic constructor argument from the parameter annotation; -> (value, facts)"""
    a = pyast.unparse(ann) if ann is not None else 'str'
    if a == 'int':
        v = z3.Int('%s_%s' % (tag, param))
        return v, [v >= 0]
    if a == 'bool':
        return z3.Bool('%s_%s' % (tag, param)), []
    if a.startswith('Dict['):
        d = pyvc.fresh_value(('dict', 'U', 'U'), '%s_%s' % (tag, param))
        return d, pyvc.wf_constraints(d)
    return z3.Const('%s_%s' % (tag, param), pyvc.U), []


def _instance(inl, cx, cls, tag):
    _, owner, init = cx.find(cls, '__init__')
    args, facts = [], []
    for p in init.args.args[1:]:
        v, f = _sym_for(p.arg, p.annotation, tag)
        args.append(v)
        facts += f
    outs = inl.run_ctor(cls, args, pc=facts, label='%s.__init__[%s]' % (cls, tag))
    ok = [o for o in outs if o[0] == 'value']
    if len(ok) != 1 or len(outs) != 1:
        raise pyvc.Undecided('%s.__init__ has %d outcomes' % (cls, len(outs)))
    return ok[0][1], facts


def _quantity(outs, base_len):
    """(no_raise_goal, none_cond, quantity term (0 for None), name term or None) from outcomes of to_quantified_resource"""
    raised = []
    none_c = []
    q = z3.IntVal(0)
    name = None
    names = []
    for kind, payload, s in outs:
        cond = z3.And(*s.pc[base_len:]) if len(s.pc) > base_len else z3.BoolVal(True)
        if kind == 'raise':
            raised.append(cond)
        elif payload is None:
            none_c.append(cond)
        else:
            if not isinstance(payload, SRecord) or set(payload.fields) != {'name', 'quantity'}:
                raise pyvc.Undecided('to_quantified_resource result is not a {name, quantity} dict: %r' % (payload,))
            q = z3.If(cond, pyvc.to_z3(payload.fields['quantity'], 'int'), q)
            names.append((cond, pyvc.to_z3(payload.fields['name'], 'U')))
    if names:
        name = names[-1][1]
        for cond, n in names[:-1]:
            name = z3.If(cond, n, name)
    return z3.Or(*raised) if raised else z3.BoolVal(False), z3.Or(*none_c) if none_c else z3.BoolVal(False), q, name


def _job(tag):
    vs = {a: z3.Int('%s_%s' % (tag, a)) for a in QARGS}
    return vs, [v >= 0 for v in vs.values()]


def resources(ctx, cloud):
    path, dispatcher, root = CLOUDS[cloud]
    cx = ClassIndex([BASE, path])
    extra = {}
    if cloud == 'azure':
        extra = azure_disk_models()
    inl = Inliner(ctx, cx, calls=extra)
    classes = [c for c in cx.concrete() if cx.path_of[c] == path and root in cx.mro(c)]
    ctx.add(core.decided('%s/resource-classes-found' % cloud, len(classes) >= 5, repr(classes), kind='vacuity'))
    for cls in classes:
        inst, facts = _instance(inl, cx, cls, cls)
        dynamic = 'DynamicSizedDiskResourceMixin' in cx.mro(cls)
        if cloud == 'azure' and dynamic:
            # invariant of the name table (established by AzureDynamicSizedDiskResource.create, which loops over the same disk
            # table): every disk tier the lookup can return has a resource name
            g = z3.Int('g_tab')
            facts = facts + [z3.ForAll([g], z3.Implies(extra['__fits'](g), v.has(extra['__name'](g)))) for v in inst.fields.values() if isinstance(v, pyvc.SDict)]
        j1, f1 = _job('j1')
        j2, f2 = _job('j2')
        w, fw = _job('w')
        hyp = facts + f1 + f2 + fw
        runs = {}
        for tag, j in (('j1', j1), ('j2', j2), ('w', w)):
            outs = inl.run_method(inst, 'to_quantified_resource', kw=j, pc=hyp, label='%s.to_quantified_resource[%s]' % (cls, tag))
            runs[tag] = _quantity(outs, len(hyp))
        for tag in ('j1',):
            raised, none_c, q, name = runs[tag]
            if cloud == 'azure' and dynamic:
                # the Azure disk table is finite: a request above the largest tier trips `assert disk`
                ctx.add(core.valid('C13/%s/%s/raises-only-when-no-disk-tier-fits' % (cloud, cls), hyp + [raised], z3.Not(extra['__fits'](j1['external_storage_in_gib']))))
            else:
                ctx.add(core.valid('C13/%s/%s/never-raises-for-non-negative-arguments' % (cloud, cls), hyp, z3.Not(raised)))
            ctx.add(core.valid('C13/%s/%s/quantity-non-negative' % (cloud, cls), hyp + (extra.get('__axioms', []) if dynamic else []), q >= 0))
        (_, n1, q1, nm1), (_, n2, q2, nm2), (_, nw, qw, nmw) = runs['j1'], runs['j2'], runs['w']
        if not dynamic:
            pack = [w['cpu_in_mcpu'] >= j1['cpu_in_mcpu'] + j2['cpu_in_mcpu'], w['memory_in_bytes'] >= j1['memory_in_bytes'] + j2['memory_in_bytes'], w['worker_fraction_in_1024ths'] >= j1['worker_fraction_in_1024ths'] + j2['worker_fraction_in_1024ths']]
            ctx.add(core.valid('C13/%s/%s/two-jobs-never-billed-more-than-a-whole-that-contains-them' % (cloud, cls), hyp + pack, q1 + q2 <= qw))
            ctx.add(core.valid('C13/%s/%s/always-billed' % (cloud, cls), hyp, z3.Not(n1)))
            ctx.add(core.valid('C13/%s/%s/resource-name-independent-of-the-job' % (cloud, cls), hyp, nm1 == nm2))
            ctx.add(core.satisfiable('C13/%s/%s/canary/quantity-can-be-positive' % (cloud, cls), hyp + [q1 > 0]))
        else:
            same = [j1['external_storage_in_gib'] == j2['external_storage_in_gib']]
            ctx.add(core.valid('C13/%s/%s/nothing-billed-without-external-storage' % (cloud, cls), hyp + [j1['external_storage_in_gib'] == 0], z3.And(n1, q1 == 0)))
            ctx.add(core.valid('C13/%s/%s/depends-on-external-storage-only' % (cloud, cls), hyp + same, z3.And(q1 == q2, n1 == n2, nm1 == nm2 if nm1 is not None else True)))
            ctx.add(core.valid('C13/%s/%s/billed-at-least-the-storage-requested-in-mib' % (cloud, cls), hyp + extra.get('__axioms', []) + [z3.Not(runs['j1'][0])], q1 >= 1024 * j1['external_storage_in_gib']))
        # ---- (S) serialization round trip through the real to_dict / dispatcher / from_dict / __init__
        douts = inl.run_method(inst, 'to_dict', pc=facts, label='%s.to_dict' % cls)
        if len(douts) != 1 or douts[0][0] != 'value' or not isinstance(douts[0][1], SRecord):
            raise pyvc.Undecided('%s.to_dict: %d outcomes' % (cls, len(douts)))
        d = douts[0][1]
        routs = inl.run_function(dispatcher, [d], pc=facts, label='%s(%s.to_dict())' % (dispatcher, cls))
        bad = [o for o in routs if o[0] == 'raise']
        ctx.add(core.decided('C13/%s/%s/reload-of-own-serialization-never-raises' % (cloud, cls), not bad, repr([(b[1], b[2].trace[-3:]) for b in bad]), kind='vc'))
        good = [o for o in routs if o[0] == 'value']
        ctx.add(core.decided('C13/%s/%s/reload-yields-one-outcome' % (cloud, cls), len(good) == 1, '%d' % len(good), kind='vc'))
        for kind, inst2, s in good[:1]:
            same_cls = isinstance(inst2, SRecord) and inst2.cls == inst.cls
            ctx.add(core.decided('C13/%s/%s/reload-yields-the-same-class' % (cloud, cls), same_cls, getattr(inst2, 'cls', repr(inst2)), kind='vc'))
            if not same_cls:
                continue
            ctx.add(core.decided('C13/%s/%s/reload-has-the-same-fields' % (cloud, cls), set(inst2.fields) == set(inst.fields), '%r vs %r' % (sorted(inst2.fields), sorted(inst.fields)), kind='vc'))
            eng = pyvc.Engine(ctx, Contract(path=path, qualname=cls + '.to_dict', label='%s[eq]' % cls))
            for fname in sorted(set(inst.fields) & set(inst2.fields)):
                a, b = inst.fields[fname], inst2.fields[fname]
                if a is b or (isinstance(a, (str, int, bool)) and isinstance(b, (str, int, bool))):
                    ctx.add(core.decided('C13/%s/%s/reload-preserves/%s' % (cloud, cls, fname), a is b or a == b, '%r vs %r' % (a, b), kind='vc'))
                else:
                    ctx.add(core.valid('C13/%s/%s/reload-preserves/%s' % (cloud, cls, fname), facts + list(s.pc), eng.equal(a, b)))
            outs2 = inl.run_method(inst2, 'to_quantified_resource', kw=j1, pc=hyp, label='%s.to_quantified_resource[reloaded]' % cls)
            r2, none2, q2r, nm2r = _quantity(outs2, len(hyp))
            goal = [q2r == q1, none2 == n1, r2 == runs['j1'][0]]
            if nm1 is not None and nm2r is not None:
                goal.append(nm2r == nm1)
            ctx.add(core.valid('C13/%s/%s/reloaded-resource-bills-identical-quantities' % (cloud, cls), hyp, z3.And(*goal)))
    return classes


def azure_disk_models():
    """azure_disk_from_storage_in_gib(disk_type, gib) -> Optional[AzureDisk]: opaque table lookup; its contract (proved against
    the real function in part (D)) is: the returned disk has size_in_gib >= gib"""
    fits = z3.Function('azure_disk_fits', z3.IntSort(), z3.BoolSort())
    size = z3.Function('azure_disk_size', z3.IntSort(), z3.IntSort())
    dname = z3.Function('azure_disk_name', z3.IntSort(), pyvc.U)

    def model(eng, st, args, kw, node):
        gib = pyvc.to_z3(args[1], 'int')
        disk = SRecord('AzureDisk', {'name': dname(gib), 'size_in_gib': size(gib)})
        raise pyvc.Fork(node, [('disk-found', fits(gib), 'value', disk, None), ('no-disk', z3.Not(fits(gib)), 'value', None, None)])

    g = z3.Int('g_ax')
    return {'azure_disk_from_storage_in_gib': model, '__fits': fits, '__name': dname, '__axioms': [z3.ForAll([g], z3.Implies(fits(g), size(g) >= g))]}


QREC = pyvc.rec_type(name='U', quantity='int')
SPEC_ARGS = ['U', 'int', 'int', 'int', 'int']


def _qr_contract(label, setup=None, ensures=(), invariants=(), ghosts=(), ghost_init=None, capture=None, obligations=True):
    """contract of InstanceConfig.quantified_resources; the per-resource call is abstracted by two uninterpreted functions
    qn (result is None) / qr (the quantified resource) of the resource and the four arguments it is given"""

    def model(eng, st, args, kw, node):
        if args or set(kw) != set(QARGS):
            raise pyvc.Undecided('to_quantified_resource is not called with exactly the keyword arguments %r' % (QARGS,))
        r = pyvc.to_z3(st.env['resource'], 'U')
        vals = [pyvc.to_z3(kw[a], 'int') for a in QARGS]
        if obligations:
            eng.oblige(st, 'call/cpu-passed-unchanged', vals[0] == pyvc.to_z3(st.env['cpu_in_mcpu'], 'int'))
            eng.oblige(st, 'call/memory-passed-unchanged', vals[1] == pyvc.to_z3(st.env['memory_in_bytes'], 'int'))
            eng.oblige(st, 'call/external-storage-passed-unchanged', vals[3] == pyvc.to_z3(st.env['extra_storage_in_gib'], 'int'))
        if capture is not None:
            capture.append((list(st.pc), vals[2]))
        st.env['FRACTION_SEEN'] = vals[2]
        qn = eng.uf('qn', SPEC_ARGS, 'bool')(r, *vals)
        qr = pyvc.from_z3(eng.uf('qr', SPEC_ARGS, QREC)(r, *vals), QREC)
        raise pyvc.Fork(node, [('resource-bills-nothing', qn, 'value', None, None), ('resource-billed', z3.Not(qn), 'value', qr, None)])

    return Contract(
        path=IC,
        qualname='InstanceConfig.quantified_resources',
        label=label,
        types={'cpu_in_mcpu': 'int', 'memory_in_bytes': 'int', 'extra_storage_in_gib': 'int', 'IDX': 'List[int]', 'POS': 'List[int]', '_quantified_resources': ('list', QREC)},
        self_fields={'cores': 'int', 'job_private': 'bool', 'resources': 'List[U]'},
        spec_funcs={'qn': (SPEC_ARGS, 'bool'), 'qr': (SPEC_ARGS, QREC), 'pow2': (['int'], 'bool')},
        requires=['cpu_in_mcpu >= 0', 'memory_in_bytes >= 0', 'memory_in_bytes % (1024 * 1024) == 0', 'extra_storage_in_gib >= 0', 'self.cores >= 1', 'self.job_private or (pow2(self.cores) and self.cores <= 256)'],
        calls={
            'isinstance': lambda eng, st, args, kw, node: True,
            'is_power_two': lambda eng, st, args, kw, node: eng.uf('pow2', ['int'], 'bool')(pyvc.to_z3(args[0], 'int')),
            'resource.to_quantified_resource': model,
        },
        setup=setup,
        raises={},
        loops={0: LoopSpec(index='k', invariants=list(invariants), modifies=['FRACTION_SEEN'])},
        ghosts=list(ghosts),
        ghost_init=dict({'FRACTION_SEEN': '0'}, **(ghost_init or {})),
        ensures=list(ensures),
    )


_Q = "(self.resources[%s], cpu_in_mcpu, memory_in_bytes, worker_fraction_in_1024ths, extra_storage_in_gib)"


def quantified_resources(ctx):
    # ---- F1: argument passing and exact list content (ghost index maps IDX: output position -> resource index, POS: inverse)
    inv = [
        ('index-map-parallel-to-output', 'len(IDX) == len(_quantified_resources) and len(POS) == k'),
        ('every-output-is-the-quantity-of-a-resource-seen', "forall(lambda j: implies(0 <= j < len(IDX), 0 <= IDX[j] < k and not qn%s and _quantified_resources[j]['name'] == qr%s['name'] and _quantified_resources[j]['quantity'] == qr%s['quantity']))" % (_Q % 'IDX[j]', _Q % 'IDX[j]', _Q % 'IDX[j]')),
        ('outputs-in-resource-order', 'forall(lambda j: implies(0 <= j and j + 1 < len(IDX), IDX[j] < IDX[j + 1]))'),
        ('every-billed-resource-seen-is-in-the-output', 'forall(lambda i: implies(0 <= i < k, qn%s or (0 <= POS[i] < len(IDX) and IDX[POS[i]] == i)))' % (_Q % 'i')),
    ]
    ens = [(n, e.replace(' k', ' len(self.resources)').replace('(k', '(len(self.resources)')) for n, e in inv]
    ens = [(n, e) for n, e in ens]
    ens += [
        ('a-job-using-the-whole-worker-is-billed-the-whole-worker', 'implies(cpu_in_mcpu == self.cores * 1000, worker_fraction_in_1024ths == 1024)'),
        ('fraction-non-negative', 'worker_fraction_in_1024ths >= 0'),
        ('fraction-at-most-the-whole', 'implies(cpu_in_mcpu <= self.cores * 1000, worker_fraction_in_1024ths <= 1024)'),
        ('every-resource-is-given-the-same-fraction', 'len(self.resources) == 0 or FRACTION_SEEN == worker_fraction_in_1024ths'),
    ]
    ghosts = [
        Ghost(anchor='_quantified_resources.append(quantified_resource)', code='IDX = IDX + [k]'),
        Ghost(anchor='if quantified_resource is not None', code='POS = POS + [len(_quantified_resources) - 1]'),
    ]
    c = _qr_contract('quantified_resources', ensures=ens, invariants=inv + [('fraction-seen', 'k == 0 or FRACTION_SEEN == worker_fraction_in_1024ths')], ghosts=ghosts, ghost_init={'IDX': '[]', 'POS': '[]'})
    c.canaries = [('never-bills-anything', 'len(_quantified_resources) == 0'), ('fraction-always-zero', 'worker_fraction_in_1024ths == 0')]
    pyvc.Engine(ctx, c).run()

    # ---- F2: the fraction as a function of cpu: three runs of the real code on cpu = a, b, a + b with the same instance
    a, b, cores = z3.Int('cpu_a'), z3.Int('cpu_b'), z3.Int('cores')
    priv = z3.Bool('job_private')
    res = pyvc.fresh_value(('list', 'U'), 'resources')

    def fraction(cpu, tag):
        cap = []

        def setup(eng, st):
            st.env['cpu_in_mcpu'] = cpu
            st.env['self'] = SRecord('InstanceConfig', {'cores': cores, 'job_private': priv, 'resources': res})
            st.assume(res.len >= 1)

        cc = _qr_contract('quantified_resources[fraction %s]' % tag, setup=setup, capture=cap, obligations=False)
        eng = pyvc.Engine(ctx, cc)
        eng.run()
        if not cap:
            raise pyvc.Undecided('the per-resource call was not reached')
        base = [x for x in cap[0][0]]
        # the captured value does not depend on the path through the loop body (it is computed before the loop)
        f = cap[0][1]
        for pc_, v in cap[1:]:
            if not z3.eq(v, f):
                raise pyvc.Undecided('fraction differs between paths')
        return f

    fa, fb, fab = fraction(a, 'a'), fraction(b, 'b'), fraction(a + b, 'a+b')
    fw = fraction(cores * 1000, 'whole')
    common = [a >= 0, b >= 0, cores >= 1]
    ctx.add(core.valid('C13/fraction/whole-worker-is-1024-for-any-core-count', common, fw == 1024))
    ctx.add(core.valid('C13/fraction/non-negative', common, fa >= 0))
    # pools: cores is a power of two <= 256 (asserted by the function for non-private instances): linear per core count
    for cval in (1, 2, 4, 8, 16, 32, 64, 128, 256):
        ctx.add(core.valid('C13/fraction/two-jobs-fraction-at-most-fraction-of-their-sum/cores=%d' % cval, common + [cores == cval], fa + fb <= fab))
    ctx.add(core.valid('C13/fraction/two-jobs-fraction-at-most-fraction-of-their-sum/any-core-count', common, fa + fb <= fab))
    ctx.add(core.satisfiable('C13/fraction/canary/fraction-can-be-strictly-between', common + [fa > 0, fa < 1024]))
    return fa


def packing_lemma(ctx):
    """the composition argument, machine-checked over uninterpreted q and F that satisfy exactly the obligations discharged on
    the real code (R2: super-additive/monotone q; F: super-additive, non-negative): one induction step of
    "total billed to the jobs packed so far <= q(total cpu, total memory, F(total cpu))" and the final comparison with the
    whole worker."""
    q = z3.Function('q_abs', z3.IntSort(), z3.IntSort(), z3.IntSort(), z3.IntSort())
    F = z3.Function('F_abs', z3.IntSort(), z3.IntSort())
    c1, m1, f1, c2, m2, f2, cw, mw, fw_ = z3.Ints('c1 m1 f1 c2 m2 f2 cw mw fw')
    R2 = z3.ForAll([c1, m1, f1, c2, m2, f2, cw, mw, fw_], z3.Implies(z3.And(c1 >= 0, m1 >= 0, f1 >= 0, c2 >= 0, m2 >= 0, f2 >= 0, cw >= c1 + c2, mw >= m1 + m2, fw_ >= f1 + f2), q(c1, m1, f1) + q(c2, m2, f2) <= q(cw, mw, fw_)))
    x, y = z3.Ints('x y')
    FS = z3.ForAll([x, y], z3.Implies(z3.And(x >= 0, y >= 0), z3.And(F(x) >= 0, F(x) + F(y) <= F(x + y))))
    QN = z3.ForAll([c1, m1, f1], z3.Implies(z3.And(c1 >= 0, m1 >= 0, f1 >= 0), q(c1, m1, f1) >= 0))
    T, S, M, c, m, C, MM = z3.Ints('T S M c m C MM')
    hyp = [R2, FS, QN, S >= 0, M >= 0, c >= 0, m >= 0, T <= q(S, M, F(S))]
    ctx.add(core.valid('C13/packing/induction-step-adding-a-job-keeps-total-at-most-quantity-of-the-sums', hyp, T + q(c, m, F(c)) <= q(S + c, M + m, F(S + c))))
    ctx.add(core.valid('C13/packing/base-empty-packing', [R2, FS, QN], 0 <= q(0, 0, F(0))))
    # final comparison with the whole worker (cpu S + D, memory M + DM): the unused remainder (D, DM) is a filler job - the goal
    # follows from the induction step instantiated at c = D, m = DM (the step VC above is valid for all c, m >= 0) and q >= 0
    D, DM = z3.Ints('D DM')
    step_at_filler = z3.Implies(z3.And(D >= 0, DM >= 0, T <= q(S, M, F(S))), T + q(D, DM, F(D)) <= q(S + D, M + DM, F(S + D)))
    ctx.add(core.valid('C13/packing/total-at-most-the-whole-worker', [S >= 0, M >= 0, D >= 0, DM >= 0, T <= q(S, M, F(S)), step_at_filler, z3.Implies(z3.And(D >= 0, DM >= 0, F(D) >= 0), q(D, DM, F(D)) >= 0), F(D) >= 0], T <= q(S + D, M + DM, F(S + D))))


CONFIGS = {
    'gcp': ('batch/batch/cloud/gcp/instance_config.py', 'GCPSlimInstanceConfig', 'gcp_machine_type_to_parts', 'gcp_resource_from_dict'),
    'azure': ('batch/batch/cloud/azure/instance_config.py', 'AzureSlimInstanceConfig', 'azure_machine_type_to_parts', 'azure_resource_from_dict'),
}


def config_round_trip(ctx, cloud):
    """{GCP,Azure}SlimInstanceConfig.from_dict(c.to_dict()): real to_dict, from_dict and __init__; a resource's to_dict and the
    cloud's resource_from_dict are the uninterpreted rtd / rfd here (their composition is obligation (S) per class above);
    <cloud>_machine_type_to_parts is an uninterpreted *function* of the machine type string"""
    path, cls, parts_fn, rfd_name = CONFIGS[cloud]
    cx = ClassIndex([IC, path])
    rtd = z3.Function('rtd', pyvc.U, pyvc.U)
    rfd = z3.Function('rfd', pyvc.U, pyvc.U)
    P = {f: z3.Function('parts_' + f, pyvc.U, z3.IntSort() if f in ('cores', 'memory') else pyvc.U) for f in ('machine_family', 'worker_type', 'family', 'cores', 'memory')}

    def parts(eng, st, args, kw, node):
        mt = pyvc.to_z3(args[0], 'U')
        return SRecord('MachineTypeParts', {f: fn(mt) for f, fn in P.items()})

    calls = {
        parts_fn: parts,
        rfd_name: lambda eng, st, args, kw, node: rfd(pyvc.to_z3(args[0], 'U')),
        'resource.to_dict': lambda eng, st, args, kw, node: rtd(pyvc.to_z3(st.env['resource'], 'U')),
    }
    inl = Inliner(ctx, cx, calls=calls, types={'resources': 'List[U]'})
    _, _, init = cx.find(cls, '__init__')
    args, facts = [], []
    for p_ in init.args.args[1:]:
        if p_.arg == 'resources':
            v = pyvc.fresh_value(('list', 'U'), 'cfg_resources')
            f = pyvc.wf_constraints(v)
        else:
            v, f = _sym_for(p_.arg, p_.annotation, 'cfg')
        args.append(v)
        facts += f
    outs = inl.run_ctor(cls, args, pc=facts, label='%s.__init__' % cls)
    ok = [o for o in outs if o[0] == 'value']
    if len(ok) != 1:
        raise pyvc.Undecided('%s.__init__: %d normal outcomes' % (cls, len(ok)))
    cfg = ok[0][1]
    douts = inl.run_method(cfg, 'to_dict', pc=facts, label='%s.to_dict' % cls)
    if len(douts) != 1 or douts[0][0] != 'value':
        raise pyvc.Undecided('%s.to_dict: %d outcomes' % (cls, len(douts)))
    d = douts[0][1]
    routs = inl.run_method(cfg, 'from_dict', args=[d], pc=facts, label='%s.from_dict(to_dict())' % cls)
    bad = [o for o in routs if o[0] == 'raise']
    ctx.add(core.decided('C13/%s/%s/reload-of-own-serialization-never-raises' % (cloud, cls), not bad, repr([(b[1], b[2].trace[-3:]) for b in bad]), kind='vc'))
    good = [o for o in routs if o[0] == 'value']
    ctx.add(core.decided('C13/%s/%s/reload-yields-one-outcome' % (cloud, cls), len(good) == 1, '%d' % len(good), kind='vc'))
    eng = pyvc.Engine(ctx, Contract(path=path, qualname=cls + '.to_dict', label='%s[eq]' % cls))
    for kind, cfg2, st in good[:1]:
        same = isinstance(cfg2, SRecord) and cfg2.cls == cfg.cls
        ctx.add(core.decided('C13/%s/%s/reload-yields-the-same-class' % (cloud, cls), same, repr(getattr(cfg2, 'cls', cfg2)), kind='vc'))
        if not same:
            continue
        ctx.add(core.decided('C13/%s/%s/reload-has-the-same-fields' % (cloud, cls), set(cfg2.fields) == set(cfg.fields), '%r vs %r' % (sorted(cfg2.fields), sorted(cfg.fields)), kind='vc'))
        for fname in sorted(set(cfg.fields) & set(cfg2.fields)):
            a, b = cfg.fields[fname], cfg2.fields[fname]
            name = 'C13/%s/%s/reload-preserves/%s' % (cloud, cls, fname)
            if fname == 'resources':
                i = z3.Int('ri')
                ctx.add(core.valid(name + '/length', facts + list(st.pc), b.len == a.len))
                ctx.add(core.valid(name + '/element-wise-reload-of-the-serialized-resource', facts + list(st.pc) + [i >= 0, i < a.len], z3.Select(b.arr, i) == rfd(rtd(z3.Select(a.arr, i)))))
            elif isinstance(a, SRecord) and isinstance(b, SRecord):
                for k in sorted(set(a.fields) | set(b.fields)):
                    ctx.add(core.valid('%s.%s' % (name, k), facts + list(st.pc), eng.equal(a.fields.get(k), b.fields.get(k))))
            elif a is b or (isinstance(a, (str, int, bool)) and isinstance(b, (str, int, bool))):
                ctx.add(core.decided(name, a is b or a == b, '%r vs %r' % (a, b), kind='vc'))
            else:
                ctx.add(core.valid(name, facts + list(st.pc), eng.equal(a, b)))
        ctx.add(core.decided('C13/%s/%s/billing-relevant-fields-present' % (cloud, cls), {'cores', 'job_private', 'resources'} <= set(cfg.fields), repr(sorted(cfg.fields)), kind='vacuity'))


MEMORY_HELPERS = {
    # cloud: (path, the helper that produces the memory figure of a pool job, the per-core table lookup it uses, parameters of the lookup)
    'gcp': ('batch/batch/cloud/gcp/resource_utils.py', 'gcp_cores_mcpu_to_memory_bytes', 'gcp_worker_memory_per_core_mib', ('machine_family', 'worker_type')),
    'azure': ('batch/batch/cloud/azure/resource_utils.py', 'azure_cores_mcpu_to_memory_bytes', 'azure_worker_memory_per_core_mib', ('worker_type',)),
}
MIB = 1024 * 1024


def memory_share(ctx, cloud):
    """(M) <cloud>_cores_mcpu_to_memory_bytes - the function that produces the memory figure written into the spec of (and
    billed to) every pool job, called by PoolConfig.convert_requests_to_resources and the front end: for ALL mcpu >= 0 and ANY
    per-core table value P > 0 (MiB; the lookup is an uninterpreted function of the worker type here, its real values are
    checked to be positive integers below) the real body returns exactly the per-core share
         memory(mcpu) = floor(mcpu * P * 2**20 / 1000)
    hence memory(a) + memory(b) <= memory(a + b) (the jobs packed on a worker never add up to more memory than the worker's
    cores * P MiB - with R2 of GCPMemoryResource this is the memory half of the packing argument) and
    memory(cores * 1000) = cores * P * 2**20 (a job using the whole worker is given, and billed, the whole worker's memory).
    Floats are reals (the quotient mcpu / 1000 is exact in binary floating point for the quarter-core multiples the front end
    admits; recorded as an assumption)."""
    path, helper, lookup, lparams = MEMORY_HELPERS[cloud]
    cx = ClassIndex([path])
    if helper not in cx.funcs or lookup not in cx.funcs:
        raise pyvc.Undecided('anchor-moved: %s / %s not found in %s' % (helper, lookup, path))
    P = z3.Function('per_core_mib_' + cloud, *([pyvc.U] * len(lparams) + [z3.IntSort()]))
    seen = []

    def per_core(eng, st, args, kw, node):
        vals = [pyvc.to_z3(a, 'U') for a in list(args) + [kw[k] for k in lparams[len(args):]]]
        seen.append(vals)
        return P(*vals)

    inl = Inliner(ctx, cx, calls={lookup: per_core})
    inl.contract_kw = {'float_as_real': True}
    _, hfn = cx.funcs[helper]
    hparams = [a.arg for a in hfn.args.args]
    ctx.add(core.decided('C13/%s/%s/parameters-are-mcpu-and-the-worker-type' % (cloud, helper), hparams == ['mcpu'] + list(lparams), repr(hparams), kind='vacuity'))
    wt = [z3.Const('mem_%s' % p, pyvc.U) for p in lparams]
    p_ = P(*wt)
    a, b, cores = z3.Int('mcpu_a'), z3.Int('mcpu_b'), z3.Int('worker_cores')
    hyp = [a >= 0, b >= 0, cores >= 1, p_ >= 1]
    ctx.under_contract(path, helper)

    def memory(mcpu, tag):
        outs = inl.run_function(helper, [mcpu] + wt, pc=hyp, label='%s[%s]' % (helper, tag))
        raised, val = [], None
        for kind, payload, s in outs:
            cond = z3.And(*s.pc[len(hyp):]) if len(s.pc) > len(hyp) else z3.BoolVal(True)
            if kind == 'raise':
                raised.append(cond)
                continue
            if payload is None:
                raise pyvc.Undecided('%s returns None on some path' % helper)
            v = pyvc.to_z3(payload, 'int')
            if not z3.is_int(v):
                raise pyvc.Undecided('%s does not return an int: %r' % (helper, v))
            val = v if val is None else z3.If(cond, v, val)
        if val is None:
            raise pyvc.Undecided('%s has no normal outcome' % helper)
        return (z3.Or(*raised) if raised else z3.BoolVal(False)), val

    (ra, ma), (rb, mb), (rab, mab), (rw, mw) = memory(a, 'a'), memory(b, 'b'), memory(a + b, 'a+b'), memory(cores * 1000, 'whole')
    ctx.add(core.decided('C13/%s/%s/uses-the-per-core-table-of-its-worker-type' % (cloud, helper), bool(seen) and all(all(z3.eq(x, y) for x, y in zip(v, wt)) for v in seen), repr(seen[:2]), kind='vacuity'))
    name = 'C13/%s/%s/' % (cloud, helper)
    ctx.add(core.valid(name + 'never-raises-for-non-negative-mcpu', hyp, z3.Not(z3.Or(ra, rw))))
    B = p_ * MIB
    ctx.add(core.valid(name + 'memory-is-exactly-the-per-core-share-rounded-down', hyp, z3.And(1000 * ma <= a * B, a * B < 1000 * (ma + 1))))
    ctx.add(core.valid(name + 'two-jobs-memory-at-most-memory-of-their-sum', hyp, ma + mb <= mab))
    ctx.add(core.valid(name + 'whole-worker-memory-is-cores-times-the-per-core-share', hyp, mw == cores * B))
    ctx.add(core.valid(name + 'memory-non-negative', hyp, ma >= 0))
    # the same three clauses for every value the real table holds (linear arithmetic: decided without the nonlinear product)
    for key, mib in per_core_table(ctx, cloud, cx, lookup):
        h2 = hyp + [p_ == mib]
        ctx.add(core.valid(name + 'two-jobs-memory-at-most-memory-of-their-sum/%s' % key, h2, ma + mb <= mab))
        ctx.add(core.valid(name + 'whole-worker-memory-is-cores-times-the-per-core-share/%s' % key, h2, mw == cores * mib * MIB))
        ctx.add(core.valid(name + 'memory-is-exactly-the-per-core-share-rounded-down/%s' % key, h2, z3.And(1000 * ma <= a * mib * MIB, a * mib * MIB < 1000 * (ma + 1))))
    ctx.add(core.satisfiable(name + 'canary/memory-can-be-positive', hyp + [ma > 0]))
    ctx.add(core.satisfiable(name + 'canary/memory-not-always-the-whole-core', hyp + [ma < B]))


def per_core_table(ctx, cloud, cx, lookup):
    """the values the real per-core lookup can return, from the real source: [(key text, MiB)]; obligation: positive ints"""
    path, fn = cx.funcs[lookup]
    vals = []
    if cloud == 'gcp':
        tree = pyast.parse(core.read_repo(path))
        tab = [n.value for n in tree.body if isinstance(n, pyast.Assign) and any(isinstance(t, pyast.Name) and t.id == 'MEMORY_PER_CORE_MIB' for t in n.targets)]
        returns = [pyast.unparse(n.value) for n in pyast.walk(fn) if isinstance(n, pyast.Return) and n.value is not None]
        ctx.add(core.decided('C13/gcp/%s/returns-the-table-entry-of-the-worker-type' % lookup, len(tab) == 1 and isinstance(tab[0], pyast.Dict) and returns == ['MEMORY_PER_CORE_MIB[machine_worker_key]'] and any(pyast.unparse(n) == 'machine_worker_key = (machine_family, worker_type)' for n in fn.body), repr(returns), kind='scan'))
        if len(tab) == 1 and isinstance(tab[0], pyast.Dict):
            for k, v in zip(tab[0].keys, tab[0].values):
                try:
                    vals.append((pyast.unparse(k), pyast.literal_eval(v)))
                except ValueError:
                    vals.append((pyast.unparse(k), None))
    else:
        inl = Inliner(ctx, cx)
        w = z3.Const('wt_any', pyvc.U)
        for kind, payload, s in inl.run_function(lookup, [w], label='%s[values]' % lookup):
            if kind == 'value':
                vals.append(('%sMiB' % (payload,), payload if isinstance(payload, int) and not isinstance(payload, bool) else None))
    ctx.add(core.decided('C13/%s/%s/per-core-memory-values-are-positive-integers' % (cloud, lookup), bool(vals) and all(isinstance(v, int) and v >= 1 for _, v in vals), repr(vals), kind='vc'))
    return [(k.replace(' ', ''), v) for k, v in vals if isinstance(v, int) and v >= 1]


WORKER = 'batch/batch/worker/worker.py'


def worker_job_billing(ctx):
    """(W) the call site that produces what a job is actually billed: worker.py Job.__init__, the statements from reading the
    job spec's resources to `self.resources = instance_config.quantified_resources(...)` (fragment; the rest of the constructor
    - mounts, secrets, tokens - does not touch these fields: scan below).  For ALL job specs and both kinds of instance:
      * cpu and memory billed are the cores_mcpu / memory_bytes of the job spec;
      * the storage billed is the external storage the worker attaches for the job (self.external_storage_in_gib, the size of
        the disk created / the share of the data disk reserved in setup_io): the requested storage on a pool worker, and 0 on a
        job-private instance - there the request is served by the instance's own data disk, which is billed as part of the
        worker; so the job that owns a job-private worker is billed quantified_resources(cpu, memory, 0), the very call the
        driver makes for the whole worker (create_vm: scan below);
      * self.resources is the result of that call."""
    sig = pyvc.find_function(pyast.parse(core.read_repo(IC)), 'InstanceConfig.quantified_resources')
    qparams = [a.arg for a in sig.args.args[1:]]
    ctx.add(core.decided('C13/InstanceConfig.quantified_resources/signature-is-cpu-memory-extra-storage', qparams == ['cpu_in_mcpu', 'memory_in_bytes', 'extra_storage_in_gib'], repr(qparams), kind='vacuity'))
    calls_seen = []

    def billed_call(eng, st, args, kw, node):
        if len(args) > len(qparams) or set(kw) - set(qparams[len(args):]):
            raise pyvc.Undecided('instance_config.quantified_resources is called with unexpected arguments')
        vals = dict(zip(qparams, args))
        vals.update(kw)
        if set(vals) != set(qparams):
            raise pyvc.Undecided('instance_config.quantified_resources is not given all of %r' % (qparams,))
        cpu, mem, sto = [pyvc.to_z3(vals[p], 'int') for p in qparams]
        env = st.env
        me = env['self']
        priv = pyvc.to_z3(env['instance_config'].fields['job_private'], 'bool')
        calls_seen.append(node.lineno)
        eng.oblige(st, 'billed/cpu-is-the-cores-of-the-job-spec', cpu == env['SPEC_CORES'])
        eng.oblige(st, 'billed/memory-is-the-memory-of-the-job-spec', mem == env['SPEC_MEMORY'])
        ext = me.fields.get('external_storage_in_gib')
        eng.oblige(st, 'billed/storage-is-the-external-storage-the-worker-attaches-for-the-job', ext is not None and sto == pyvc.to_z3(ext, 'int'))
        eng.oblige(st, 'billed/no-external-storage-is-billed-on-a-job-private-instance', z3.Implies(priv, sto == 0))
        eng.oblige(st, 'billed/a-pool-job-is-billed-the-storage-of-its-spec', z3.Implies(z3.Not(priv), sto == env['SPEC_STORAGE']))
        return eng.uf('billed', ['int', 'int', 'int'], 'U')(cpu, mem, sto)

    def setup(eng, st):
        cores, mem, sto = z3.Int('spec_cores_mcpu'), z3.Int('spec_memory_bytes'), z3.Int('spec_storage_gib')
        st.env['SPEC_CORES'], st.env['SPEC_MEMORY'], st.env['SPEC_STORAGE'] = cores, mem, sto
        st.assume(z3.And(cores >= 0, mem >= 0, sto >= 0))
        st.env['job_spec'] = SRecord('dict', {'resources': SRecord('dict', {'cores_mcpu': cores, 'memory_bytes': mem, 'storage_gib': sto})})
        st.env['instance_config'] = SRecord('InstanceConfig', {'job_private': z3.Bool('instance_job_private')})
        st.env['self'] = SRecord('Job', {})

    c = Contract(
        path=WORKER,
        qualname='Job.__init__',
        label='worker.Job.__init__[billing]',
        fragment=(r"re:^self\.cpu_in_mcpu = ", r"re:^self\.resources = "),
        extra_inputs={'RESERVED_STORAGE_GB_PER_CORE': 'int'},
        requires=['RESERVED_STORAGE_GB_PER_CORE >= 0'],
        setup=setup,
        float_as_real=True,
        spec_funcs={'billed': (['int', 'int', 'int'], 'U'), 'valid_storage': (['int'], 'bool')},
        calls={
            'instance_config.quantified_resources': billed_call,
            'is_valid_storage_request': lambda eng, st, args, kw, node: eng.uf('valid_storage', ['int'], 'bool')(pyvc.to_z3(args[1], 'int')),
        },
        raises={'AssertionError': 'not (SPEC_STORAGE == 0 or valid_storage(SPEC_STORAGE))'},
        ensures=[
            ('external-storage-is-zero-on-a-job-private-instance-else-the-request', 'self.external_storage_in_gib == ite(instance_config.job_private, 0, SPEC_STORAGE)'),
            ('on-a-job-private-instance-the-request-is-served-by-the-instance-data-disk', 'implies(instance_config.job_private, self.data_disk_storage_in_gib == SPEC_STORAGE)'),
            ('job-resources-are-the-quantities-of-spec-cpu-memory-and-attached-external-storage', 'self.resources == billed(SPEC_CORES, SPEC_MEMORY, self.external_storage_in_gib)'),
            ('the-job-owning-a-job-private-worker-is-billed-like-the-worker-with-no-extra-storage', 'implies(instance_config.job_private, self.resources == billed(self.cpu_in_mcpu, self.memory_in_bytes, 0))'),
        ],
        canaries=[('never-bills-external-storage', 'self.resources == billed(SPEC_CORES, SPEC_MEMORY, 0)')],
    )
    pyvc.Engine(ctx, c).run()
    ctx.add(core.decided('C13/worker.Job.__init__/the-billing-call-is-reached', bool(calls_seen), repr(calls_seen), kind='vacuity'))
    _worker_scans(ctx)


def _worker_scans(ctx):
    """closed-world facts about batch/worker/worker.py and the drivers that the fragment contract rests on"""
    tree = pyast.parse(core.read_repo(WORKER))
    init = pyvc.find_function(tree, 'Job.__init__')

    def attr_stores(root, attr):
        out = []
        for n in pyast.walk(root):
            tg = n.targets if isinstance(n, (pyast.Assign, pyast.Delete)) else ([n.target] if isinstance(n, (pyast.AugAssign, pyast.AnnAssign)) else [])
            for t in tg:
                for x in pyast.walk(t):
                    if isinstance(x, pyast.Attribute) and x.attr == attr and isinstance(x.ctx, (pyast.Store, pyast.Del)):
                        out.append(x)
            if isinstance(n, pyast.Call) and pyvc._dotted(n.func) in ('setattr', 'delattr') and len(n.args) >= 2 and not (isinstance(n.args[1], pyast.Constant) and n.args[1].value != attr):
                out.append(n)
        return out

    inside = {id(x) for x in pyast.walk(init)}
    # `self.<attr> = ...` inside a class that is not a Job (Container has its own cpu_in_mcpu) is another object's field
    job_classes = {'Job'}
    grew = True
    while grew:
        grew = False
        for cdef in tree.body:
            if isinstance(cdef, pyast.ClassDef) and cdef.name not in job_classes and any(pyvc._dotted(b) in job_classes for b in cdef.bases):
                job_classes.add(cdef.name)
                grew = True
    foreign_self = set()
    for cdef in tree.body:
        if isinstance(cdef, pyast.ClassDef) and cdef.name not in job_classes:
            foreign_self |= {id(x) for x in pyast.walk(cdef) if isinstance(x, pyast.Attribute) and isinstance(x.value, pyast.Name) and x.value.id == 'self'}
    for attr in ('external_storage_in_gib', 'resources', 'cpu_in_mcpu', 'memory_in_bytes'):
        allw = [x for x in attr_stores(tree, attr) if id(x) not in foreign_self]
        outside = [x for x in allw if id(x) not in inside]
        ctx.add(core.decided('C13/worker/%s-of-a-job-is-set-only-in-Job.__init__' % attr, bool(allw) and not outside, 'stores outside Job.__init__ at lines %r' % [x.lineno for x in outside], kind='frame'))
    # within Job.__init__ each of them is assigned once, inside the verified fragment (nothing after the billing call changes them)
    frag_lines = [n.lineno for n in init.body if pyast.unparse(n).startswith(('self.cpu_in_mcpu = ', 'self.resources = '))]
    if len(frag_lines) == 2:
        lo, hi = frag_lines
        hi_end = [n.end_lineno for n in init.body if n.lineno == hi][0]
        stray = [(a, x.lineno) for a in ('external_storage_in_gib', 'resources', 'cpu_in_mcpu', 'memory_in_bytes') for x in attr_stores(init, a) if not lo <= x.lineno <= hi_end]
        ctx.add(core.decided('C13/worker.Job.__init__/billing-fields-are-assigned-only-in-the-verified-fragment', not stray, repr(stray), kind='frame'))
    else:
        ctx.add(core.decided('C13/worker.Job.__init__/billing-fields-are-assigned-only-in-the-verified-fragment', False, 'fragment boundaries not found: %r' % frag_lines, kind='frame'))
    # the figure billed is the size of what the worker attaches: every disk the worker creates for a job has that size, and the
    # status the worker reports to the driver carries self.resources
    disks = [n for n in pyast.walk(tree) if isinstance(n, pyast.Call) and isinstance(n.func, pyast.Attribute) and n.func.attr == 'create_disk']
    sizes = [pyast.unparse(k.value) for n in disks for k in n.keywords if k.arg == 'size_in_gb']
    ctx.add(core.decided('C13/worker/every-disk-created-for-a-job-has-the-billed-external-storage-size', bool(disks) and len(sizes) == len(disks) and all(s == 'self.external_storage_in_gib' for s in sizes), repr(sizes), kind='scan'))
    reported = [pyast.unparse(v) for n in pyast.walk(tree) if isinstance(n, pyast.Dict) for k, v in zip(n.keys, n.values) if isinstance(k, pyast.Constant) and k.value == 'resources' and isinstance(v, pyast.Attribute)]
    ctx.add(core.decided('C13/worker/job-status-reports-the-resources-computed-at-construction', 'self.resources' in reported and all(r == 'self.resources' for r in reported), repr(reported), kind='scan'))
    # the driver bills the WHOLE worker as quantified_resources(cores * 1000, machine memory, 0)
    for path, qn in (('batch/batch/cloud/gcp/driver/resource_manager.py', 'GCPResourceManager.create_vm'), ('batch/batch/cloud/azure/driver/resource_manager.py', 'AzureResourceManager.create_vm')):
        try:
            fn = pyvc.find_function(pyast.parse(core.read_repo(path)), qn)
        except (core.Undecided, OSError) as e:
            raise pyvc.Undecided('anchor-moved: %s::%s (%s)' % (path, qn, e))
        qcalls = [n for n in pyast.walk(fn) if isinstance(n, pyast.Call) and isinstance(n.func, pyast.Attribute) and n.func.attr == 'quantified_resources']
        ok = len(qcalls) == 1
        detail = ''
        if ok:
            call = qcalls[0]
            names = ['cpu_in_mcpu', 'memory_in_bytes', 'extra_storage_in_gib']
            vals = dict(zip(names, call.args))
            vals.update({k.arg: k.value for k in call.keywords})
            detail = repr({k: pyast.unparse(v) for k, v in vals.items()})
            sto = vals.get('extra_storage_in_gib')
            cpu = vals.get('cpu_in_mcpu')
            defs = {t.id: pyast.unparse(n.value) for n in pyast.walk(fn) if isinstance(n, pyast.Assign) for t in n.targets if isinstance(t, pyast.Name)}
            cpu_txt = defs.get(cpu.id) if isinstance(cpu, pyast.Name) else (pyast.unparse(cpu) if cpu is not None else None)
            ok = isinstance(sto, pyast.Constant) and sto.value == 0 and type(sto.value) is int and cpu_txt in ('cores * 1000', '1000 * cores')
            detail += ' cpu=%r' % (cpu_txt,)
        ctx.add(core.decided('C13/%s/whole-worker-is-billed-all-cores-and-no-external-storage' % qn, ok, detail, kind='scan'))


def native_witness(ctx):
    """concrete search on the real code, usable when the contracts no longer apply to a changed source (vc/check.py)"""
    return core.run_native(open(os.path.join(os.path.dirname(__file__), 'native', 'c13_replay.py')).read(), {})


def _frames(ctx):
    """(1) InstanceConfig.quantified_resources is a function of its arguments and the configuration: it assigns no attribute and
    mutates no container reached through self or the class (a remembered answer would be served to another configuration or
    after the configuration changed).  (2) the configuration classes keep `resources` as a LIST: create() builds it with
    filter_none / a list display / a comprehension, never a lazy one-shot iterator (a second traversal - to_dict() after
    to_dict(), or billing after serialising - would see no resources)."""
    import ast as pyast

    src = core.read_repo('batch/batch/instance_config.py')
    tree = pyast.parse(src)
    fn = pyvc.find_function(tree, 'InstanceConfig.quantified_resources')
    writes = []
    local = {a.arg for a in fn.args.args} | {n.id for n in pyast.walk(fn) if isinstance(n, pyast.Name) and isinstance(n.ctx, pyast.Store)}
    for n in pyast.walk(fn):
        tg = []
        if isinstance(n, pyast.Assign):
            tg = n.targets
        elif isinstance(n, (pyast.AugAssign, pyast.AnnAssign)):
            tg = [n.target]
        elif isinstance(n, pyast.Delete):
            tg = n.targets
        for t in tg:
            if isinstance(t, (pyast.Attribute, pyast.Subscript)):
                base = t
                while isinstance(base, (pyast.Attribute, pyast.Subscript)):
                    base = base.value
                if not (isinstance(base, pyast.Name) and base.id in local and base.id != 'self'):
                    writes.append(pyast.unparse(t))
        if isinstance(n, pyast.Call) and isinstance(n.func, pyast.Attribute) and n.func.attr in pyvc.MUTATORS:
            base = n.func.value
            while isinstance(base, (pyast.Attribute, pyast.Subscript)):
                base = base.value
            if not (isinstance(base, pyast.Name) and base.id in local and base.id != 'self'):
                writes.append(pyast.unparse(n.func))
    cls = [c for c in tree.body if isinstance(c, pyast.ClassDef) and c.name == 'InstanceConfig'][0]
    class_state = [pyast.unparse(x)[:60] for x in cls.body if isinstance(x, (pyast.Assign, pyast.AnnAssign)) and getattr(x, 'value', None) is not None and isinstance(x.value, (pyast.Dict, pyast.List, pyast.Set, pyast.Call))]
    ctx.add(core.decided('C13/InstanceConfig.quantified_resources/frame/writes-no-state', not writes and not class_state, 'writes=%r class-level containers=%r' % (writes, class_state), kind='frame'))
    for path, cname in (('batch/batch/cloud/gcp/instance_config.py', 'GCPSlimInstanceConfig'), ('batch/batch/cloud/azure/instance_config.py', 'AzureSlimInstanceConfig')):
        t2 = pyast.parse(core.read_repo(path))
        cr = pyvc.find_function(t2, cname + '.create')
        vals = [n.value for n in pyast.walk(cr) if isinstance(n, pyast.Assign) and any(isinstance(t, pyast.Name) and t.id == 'resources' for t in n.targets)]
        vals += [n.value for n in pyast.walk(cr) if isinstance(n, pyast.AnnAssign) and isinstance(n.target, pyast.Name) and n.target.id == 'resources' and n.value is not None]
        kw = [k.value for c in pyast.walk(cr) if isinstance(c, pyast.Call) for k in c.keywords if k.arg == 'resources' and not (isinstance(k.value, pyast.Name) and k.value.id == 'resources')]

        def is_list(v):
            return isinstance(v, (pyast.List, pyast.ListComp)) or (isinstance(v, pyast.Call) and pyvc._dotted(v.func) in ('filter_none', 'list', 'sorted'))

        allv = vals + kw
        ctx.add(core.decided('C13/%s.create/resources-is-a-list-not-a-one-shot-iterator' % cname, bool(allv) and all(is_list(v) for v in allv), repr([pyast.unparse(v)[:50] for v in allv]), kind='scan'))


def build(ctx):
    _frames(ctx)
    for cloud in CLOUDS:
        resources(ctx, cloud)
    for cloud in CONFIGS:
        config_round_trip(ctx, cloud)
    quantified_resources(ctx)
    packing_lemma(ctx)
    for cloud in MEMORY_HELPERS:
        memory_share(ctx, cloud)
    pool_job_memory(ctx)
    worker_job_billing(ctx)
    ctx.witness_search = lambda: core.run_native(open(os.path.join(os.path.dirname(__file__), 'native', 'c13_replay.py')).read(), {})
    ctx.assume('resource quantities are Python ints (unbounded); constructor arguments of int type are non-negative (disk sizes, accelerator counts)')
    ctx.assume('<cloud>_cores_mcpu_to_memory_bytes and the worker data-disk share in Job.__init__: float operations are exact real operations (mcpu / 1000 is a dyadic rational for the quarter-core multiples the front end admits, products stay below 2**53); the per-core MiB lookup is an uninterpreted positive function of the worker type (its real table values are enumerated from the source); PoolConfig.convert_requests_to_resources sees its helpers as uninterpreted functions')


ICC = 'batch/batch/inst_coll_config.py'


def pool_job_memory(ctx):
    """(P) PoolConfig.convert_requests_to_resources - what the front end writes into the spec of a pool job: whenever it
    accepts a request, the memory figure is <cloud>_cores_mcpu_to_memory_bytes of the cores figure it returns (the per-core
    share (M) of the cores the job is scheduled and billed with - not of the cores requested, not the memory requested), the
    cores fit the worker, and the storage is the converted request.  Helpers are uninterpreted functions here."""
    cx = ClassIndex([ICC])
    if 'PoolConfig' not in cx.classes:
        raise pyvc.Undecided('anchor-moved: PoolConfig not found in %s' % ICC)
    I, Us = z3.IntSort(), pyvc.U
    mem = {'gcp': z3.Function('gcp_mem', I, Us, Us, I), 'azure': z3.Function('azure_mem', I, Us, I)}
    adj = {'gcp': z3.Function('gcp_adjust', I, I, Us, Us, I), 'azure': z3.Function('azure_adjust', I, I, Us, I)}
    pack = z3.Function('packable', I, I)
    sto_none = z3.Function('storage_refused', Us, I, z3.BoolSort())
    sto_gib = z3.Function('storage_gib', Us, I, I)
    zi = lambda v: pyvc.to_z3(v, 'int')
    zu = lambda v: pyvc.to_z3(v, 'U')

    def storage(eng, st, args, kw, node):
        cl, b = zu(args[0]), zi(args[1])
        raise pyvc.Fork(node, [('storage-refused', sto_none(cl, b), 'value', None, None), ('storage-ok', z3.Not(sto_none(cl, b)), 'value', sto_gib(cl, b), None)])

    calls = {
        'requested_storage_bytes_to_actual_storage_gib': storage,
        'gcp_adjust_cores_for_memory_request': lambda eng, st, args, kw, node: adj['gcp'](zi(args[0]), zi(args[1]), zu(args[2]), zu(args[3])),
        'azure_adjust_cores_for_memory_request': lambda eng, st, args, kw, node: adj['azure'](zi(args[0]), zi(args[1]), zu(args[2])),
        'adjust_cores_for_packability': lambda eng, st, args, kw, node: pack(zi(args[0])),
        'gcp_cores_mcpu_to_memory_bytes': lambda eng, st, args, kw, node: mem['gcp'](zi(args[0]), zu(args[1]), zu(args[2])),
        'azure_cores_mcpu_to_memory_bytes': lambda eng, st, args, kw, node: mem['azure'](zi(args[0]), zu(args[1])),
    }
    fam = z3.Const('GCP_MACHINE_FAMILY', Us)
    inl = Inliner(ctx, cx, calls=calls, consts={'GCP_MACHINE_FAMILY': fam})
    wt, wc = z3.Const('pool_worker_type', Us), z3.Int('pool_worker_cores')
    rc, rm, rs = z3.Int('req_cores_mcpu'), z3.Int('req_memory_bytes'), z3.Int('req_storage_bytes')
    for cloud in ('gcp', 'azure'):
        me = cx.new_instance('PoolConfig', {'cloud': cloud, 'worker_type': wt, 'worker_cores': wc})
        hyp = [rc >= 0, rm >= 0, rs >= 0, wc >= 1]
        outs = inl.run_method(me, 'convert_requests_to_resources', args=[rc, rm, rs], pc=hyp, label='PoolConfig.convert_requests_to_resources[%s]' % cloud)
        name = 'C13/PoolConfig.convert_requests_to_resources[%s]/' % cloud
        bad = [o for o in outs if o[0] == 'raise']
        ctx.add(core.decided(name + 'never-raises', not bad, repr([(b[1], b[2].trace[-3:]) for b in bad]), kind='vc'))
        accepted = [(p, s) for k, p, s in outs if k == 'value' and p is not None]
        shape = all(isinstance(p, tuple) and len(p) == 3 for p, s in accepted)
        ctx.add(core.decided(name + 'accepts-with-a-(cores,memory,storage)-triple', bool(accepted) and shape, repr([p for p, s in accepted])[:300], kind='vacuity'))
        if not (accepted and shape):
            continue
        for i, (p, s) in enumerate(accepted):
            sfx = '' if len(accepted) == 1 else '#%d' % (i + 1)
            c_, m_, g_ = zi(p[0]), zi(p[1]), zi(p[2])
            share = mem['gcp'](c_, fam, wt) if cloud == 'gcp' else mem['azure'](c_, wt)
            ctx.add(core.valid(name + 'memory-is-the-per-core-share-of-the-cores-returned' + sfx, list(s.pc), m_ == share))
            ctx.add(core.valid(name + 'cores-returned-fit-the-worker' + sfx, list(s.pc), c_ <= wc * 1000))
            ctx.add(core.valid(name + 'storage-is-the-converted-request' + sfx, list(s.pc), g_ == sto_gib(zu(cloud), rs)))
            ctx.add(core.satisfiable(name + 'vacuity/acceptance-reachable' + sfx, list(s.pc)))
            ctx.add(core.satisfiable(name + 'canary/memory-is-not-simply-the-memory-requested' + sfx, list(s.pc) + [m_ != rm]))
