"""C28 - usernames and credential secret names are validated exactly.

Contract (from the property text, NOT from the code):
  is_valid_username(u) is truthy  <=>  u in  [a-z0-9]+ ( - [a-z0-9]+ )*
  validate_credentials_secret_name_input(n) does not raise (n a str)  <=>  n in  [a-z0-9]+ ( [.-] [a-z0-9]+ )*
  check_valid_new_user / create_user: the insert is reached only after the validator accepted.
The real functions are translated by relang (regex literals through CPython's re._parser; per-character predicates
evaluated by CPython on all code points) and language equality is decided by z3's regex solver.
"""
from __future__ import annotations

import ast
import json
import random
import re

import z3

from vc import core, relang
from vc.core import Obl, satisfiable

PATH = 'auth/auth/auth_utils.py'
AUTH = 'auth/auth/auth.py'


def _alnum():
    return z3.Union(z3.Range('a', 'z'), z3.Range('0', '9'))


def spec_username():
    a = z3.Plus(_alnum())
    return z3.Concat(a, z3.Star(z3.Concat(z3.Re('-'), a)))


def spec_secret():
    a = z3.Plus(_alnum())
    return z3.Concat(a, z3.Star(z3.Concat(z3.Union(z3.Re('-'), z3.Re('.')), a)))


REPLAY = r'''
import sys, json, importlib.util, os
repo = os.environ['VERIF_REPO']
p = json.load(sys.stdin)
sys.path.insert(0, os.path.join(repo, 'auth'))
import types
pkg = types.ModuleType('auth'); pkg.__path__ = [os.path.join(repo, 'auth', 'auth')]; sys.modules['auth'] = pkg
exc = types.ModuleType('auth.exceptions')
class AuthUserError(Exception): pass
exc.AuthUserError = AuthUserError
sys.modules['auth.exceptions'] = exc
spec = importlib.util.spec_from_file_location('auth.auth_utils', os.path.join(repo, 'auth', 'auth', 'auth_utils.py'))
m = importlib.util.module_from_spec(spec); spec.loader.exec_module(m)
s = p['input']
if p['fn'] == 'is_valid_username':
    r = bool(m.is_valid_username(s))
else:
    try:
        m.validate_credentials_secret_name_input(s); r = True
    except AuthUserError:
        r = False
print(json.dumps({'accepted': r}))
'''


def _spec_native(fn):
    pat = r'[a-z0-9]+(-[a-z0-9]+)*' if fn == 'is_valid_username' else r'[a-z0-9]+([.-][a-z0-9]+)*'
    return lambda s: re.compile(pat).fullmatch(s) is not None and s.isascii()


def _replayer(fn, var, direction):
    def replay(model, obl):
        s = relang.model_string(model, var)
        if s is None:
            return None
        s = relang.z3_unescape(s)
        out = core.run_native(REPLAY, {'fn': fn, 'input': s})
        want = _spec_native(fn)(s)
        got = out.get('accepted')
        return {
            'input': s,
            'function': fn,
            'real_code_accepts': got,
            'specification_accepts': want,
            'confirmed': got is not None and got != want,
            'direction': direction,
            'host': out if 'error' in out else None,
        }

    return replay


def _validate_translation(ctx, fn, lang, rng):
    """encoder validation: membership in the translated language == behaviour of the real function, on samples."""
    alphabet = ['a', 'z', '0', '9', '-', '.', '\n', 'A', '_', ' ', 'é', '٣', '３', '\r', '--', '-.', '']
    samples = ['', 'a', '-', 'a-', '-a', 'a--b', 'a-b', 'a.b', 'a..b', 'a\n', 'a\n\n', '\na', 'a.-b', 'abc-def.ghi', '0', '٣']
    for _ in range(40):
        samples.append(''.join(rng.choice(alphabet) for _ in range(rng.randint(0, 6))))
    bad = []
    n = 0
    for s in samples:
        got = core.run_native(REPLAY, {'fn': fn, 'input': s}).get('accepted')
        enc = relang.member_concrete(s, lang)
        if got is None or enc is None:
            continue
        n += 1
        if got != enc:
            bad.append(s)
    ctx.add(core.decided('%s/encoder-validation' % fn, not bad and n >= 20, 'samples=%d disagreements=%r' % (n, bad[:5]), kind='validation'))
    if bad:
        raise core.CheckerBug('relang translation of %s disagrees with the real function on %r' % (fn, bad[:5]))


WITNESS = r"""
import sys, json, os, re, itertools, importlib.util
repo = os.environ['VERIF_REPO']
import types
pkg = types.ModuleType('auth'); pkg.__path__ = [os.path.join(repo, 'auth/auth')]; sys.modules['auth'] = pkg
class _E(Exception):
    def __init__(self, *a, **k): Exception.__init__(self, *a)
exc = types.ModuleType('auth.exceptions')
exc.__getattr__ = lambda n: _E
sys.modules['auth.exceptions'] = exc
spec = importlib.util.spec_from_file_location('auth.auth_utils', os.path.join(repo, 'auth/auth/auth_utils.py'))
m = importlib.util.module_from_spec(spec); sys.modules['auth.auth_utils'] = m; spec.loader.exec_module(m)
U = re.compile(r'[a-z0-9]+(-[a-z0-9]+)*')
S = re.compile(r'[a-z0-9]+([.-][a-z0-9]+)*')
alpha = ['a', 'z', '0', '9', '-', '.', 'A', '_', ' ', '\n', '\r', '\t', '\x00', '\x85', ' ', 'é', 'ß', '²', '٣', 'ａ', '\U0001d7d8']
cands = ['']
for n in (1, 2, 3):
    cands += [''.join(t) for t in itertools.product(alpha, repeat=n)]
cands += [p + c + q for c in alpha for p in ('ab', 'a-b', 'a.b') for q in ('', 'c', '-c')]
res = {'confirmed': False, 'cases': len(cands)}
for s_ in cands:
    want_u, want_s = bool(U.fullmatch(s_)), bool(S.fullmatch(s_))
    try:
        got_u = bool(m.is_valid_username(s_))
    except Exception as e:
        got_u = 'raises %r' % e
    try:
        m.validate_credentials_secret_name_input(s_); got_s = True
    except Exception:
        got_s = False
    if got_u != want_u or got_s != want_s:
        res = {'confirmed': True, 'input': s_, 'is_valid_username': got_u, 'username_grammar': want_u, 'secret_name_accepted': got_s, 'secret_name_grammar': want_s}
        break
print(json.dumps(res))
"""


def native_witness(ctx):
    return core.run_native(WITNESS, {})


def build(ctx):
    src = core.read_repo(PATH)
    rng = random.Random(ctx.seed)
    ctx.assume('inputs are Python str (the None short-cut of validate_credentials_secret_name_input is outside the property)')
    ctx.assume(
        'z3 alphabet ends at U+2FFFF: every character class involved was checked to be uniform above it '
        '(per-character predicates and regex categories are evaluated by CPython %d.%d on all 0x110000 code points)'
        % (__import__('sys').version_info[0], __import__('sys').version_info[1])
    )
    ctx.assume('truthiness of re match/fullmatch equals membership in the regular language (no back-references or look-around in the subset)')
    for fn, spec, outcome in (
        ('is_valid_username', spec_username(), 'truthy'),
        ('validate_credentials_secret_name_input', spec_secret(), 'noraise'),
    ):
        ctx.under_contract(PATH, fn)
        fl = relang.function_language(src, fn)
        code = fl.truthy if outcome == 'truthy' else z3.Complement(fl.raises)
        w1, q1 = relang.lang_subset_query(code, spec, 'w_' + fn)
        ctx.add(
            Obl('%s/accepted-subset-of-spec' % fn, q1, 'unsat', 'vc', {'clause': 'nothing else is accepted', 'regexes': fl.regexes, 'charsets': fl.charsets}),
            replay=_replayer(fn, w1, 'code accepts, spec rejects'),
        )
        w2, q2 = relang.lang_subset_query(spec, code, 'v_' + fn)
        ctx.add(
            Obl('%s/spec-subset-of-accepted' % fn, q2, 'unsat', 'vc', {'clause': 'every specified name is accepted'}),
            replay=_replayer(fn, w2, 'spec accepts, code rejects'),
        )
        # trailing newline / control characters clause, stated on its own so the failing clause is named
        ctrl = z3.Concat(relang.re_all(), z3.Union(z3.Range(chr(0), chr(0x1F)), z3.Re(chr(0x7F))), relang.re_all())
        w3 = z3.String('c_' + fn)
        ctx.add(
            Obl('%s/no-control-characters' % fn, z3.InRe(w3, z3.Intersect(code, ctrl)), 'unsat', 'vc', {'clause': 'strings with trailing newlines or other control characters are rejected'}),
            replay=_replayer(fn, w3, 'code accepts a string with a control character'),
        )
        # vacuity / canaries
        ctx.add(satisfiable('%s/vacuity/accepts-something' % fn, z3.InRe(z3.String('x'), code)))
        ctx.add(satisfiable('%s/vacuity/rejects-something' % fn, z3.InRe(z3.String('x'), z3.Complement(code))))
        wrong = z3.Concat(spec, z3.Option(z3.Re('-')))  # deliberately wrong spec: must NOT be equal to the code
        ctx.add(satisfiable('%s/canary/wrong-spec-is-refuted' % fn, z3.InRe(z3.String('x'), z3.Intersect(wrong, z3.Complement(code))), kind='canary'))
        _validate_translation(ctx, fn, code, rng)

    # call sites: the user row is inserted only after the validator accepted
    asrc = core.read_repo(AUTH)
    tree = ast.parse(asrc)
    fns = {n.name: n for n in ast.walk(tree) if isinstance(n, (ast.AsyncFunctionDef, ast.FunctionDef))}
    cv = fns.get('check_valid_new_user')
    if cv is None:
        raise core.Undecided('anchor-moved: check_valid_new_user')
    ctx.under_contract(AUTH, 'check_valid_new_user')
    # obligation: top-level statement `if not is_valid_username(username): raise ...` precedes any return/await of DB work
    ok = False
    seen_db = False
    for st in cv.body:
        if isinstance(st, ast.If) and ast.unparse(st.test) == 'not is_valid_username(username)' and any(isinstance(b, ast.Raise) for b in st.body) and not st.orelse:
            ok = not seen_db
            break
        if any(isinstance(n, ast.Await) for n in ast.walk(st)) or isinstance(st, ast.Return):
            seen_db = True
    ctx.add(core.decided('check_valid_new_user/guard-dominates-db-access', ok, 'the raise guarded by `not is_valid_username(username)` must precede every await/return', kind='scan'))
    # the string validated is the string stored: neither function rebinds `username` / the secret name (a local clean-up such
    # as username = username.strip() would validate one string and let insert_new_user store another)
    for fname in ('check_valid_new_user', 'insert_new_user'):
        f_ = fns.get(fname)
        rebound = []
        if f_ is not None:
            for n in ast.walk(f_):
                tg = []
                if isinstance(n, ast.Assign):
                    tg = n.targets
                elif isinstance(n, (ast.AugAssign, ast.AnnAssign, ast.NamedExpr)):
                    tg = [n.target]
                for t_ in tg:
                    for x in ast.walk(t_):
                        if isinstance(x, ast.Name) and x.id in ('username', 'hail_credentials_secret_name'):
                            rebound.append('%s (line %d)' % (ast.unparse(n)[:60], n.lineno))
        ctx.add(core.decided('%s/validated-names-are-not-rebound' % fname, f_ is not None and not rebound, repr(rebound), kind='scan'))
    # insert_new_user: the secret-name validator runs before the transaction, check_valid_new_user before the INSERT,
    # both on the very parameters that are inserted; and no other statement in auth/auth/*.py inserts into users.
    inu = fns.get('insert_new_user')
    if inu is None:
        raise core.Undecided('anchor-moved: insert_new_user')
    ctx.under_contract(AUTH, 'insert_new_user')
    inner = [n for n in ast.walk(inu) if isinstance(n, (ast.AsyncFunctionDef, ast.FunctionDef)) and n is not inu]
    ok_inner = False
    detail = ''
    for f in inner:
        order = []
        for st in f.body:
            for n in ast.walk(st):
                if isinstance(n, ast.Call):
                    nm = getattr(n.func, 'id', getattr(n.func, 'attr', None))
                    if nm == 'check_valid_new_user':
                        order.append(('check', [ast.unparse(a) for a in n.args]))
                    if nm and nm.startswith('execute') and n.args and 'INSERT INTO users' in ast.unparse(n.args[0]):
                        order.append(('insert', [ast.unparse(e) for e in getattr(n.args[1], 'elts', [])]))
        detail = repr(order)
        if [k for k, _ in order] == ['check', 'insert'] and order[0][1][1:2] == ['username'] and 'username' in order[1][1]:
            # the check must dominate the insert: it is a top-level statement of the transaction body
            ok_inner = isinstance(f.body[0], ast.Assign) and 'check_valid_new_user' in ast.unparse(f.body[0])
    ctx.add(core.decided('insert_new_user/check_valid_new_user-dominates-insert', ok_inner, detail, kind='scan'))
    top = [ast.unparse(st) for st in inu.body if not isinstance(st, (ast.AsyncFunctionDef, ast.FunctionDef))]
    v = [i for i, t in enumerate(top) if t.startswith('validate_credentials_secret_name_input(hail_credentials_secret_name)')]
    a = [i for i, t in enumerate(top) if '_insert()' in t]
    ctx.add(core.decided('insert_new_user/secret-name-validated-before-transaction', bool(v) and bool(a) and v[0] < a[0], repr(top), kind='scan'))
    import glob, os
    writers = []
    for fp in sorted(glob.glob(os.path.join(core.REPO, 'auth', 'auth', '*.py'))):
        t = open(fp).read()
        for m in re.finditer(r'INSERT\s+INTO\s+users\b', t, re.I):
            line = t.count('\n', 0, m.start()) + 1
            writers.append('%s:%d' % (os.path.relpath(fp, core.REPO), line))
    inside = [w for w in writers if w.startswith(AUTH + ':') and inu.lineno <= int(w.split(':')[1]) <= inu.end_lineno]
    ctx.add(core.decided('closed-world/only-insert_new_user-inserts-users', len(writers) == 1 and len(inside) == 1, repr(writers), kind='scan'))
    ctx.undecided('UPDATEs of users.username / hail_credentials_secret_name outside auth/auth/*.py (none exist in auth/auth today; only INSERTs are scanned)')
