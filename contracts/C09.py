"""C09 - submission is idempotent under client retries.

Claimed clauses:
 * front_end._create_batch_update.update (real nested coroutine, pyvc with an effect log for the embedded SQL):
   - when a row with the same (batch, token) exists the function returns exactly (update_id, start_job_group_id, start_job_id)
     of that row and executes NO write statement;
   - otherwise it executes exactly one INSERT into batch_updates whose values are update_id = last.update_id + 1,
     start_job_id = last.start_job_id + last.n_jobs, start_job_group_id = last.start_job_group_id + last.n_job_groups (1,1,1 when
     the batch has no update yet), the declared n_jobs / n_job_groups / token, committed = False, and it returns exactly the
     inserted (update_id, start_job_group_id, start_job_id); hence by induction over the updates of a batch the id ranges are
     contiguous, disjoint and in update order;  a missing / cancelled batch is rejected before any write.
 * commit_batch_update (sqlvc): a second commit of an already committed update writes nothing and answers rc = 0; the first
   read of batch_updates takes a row lock (lock discipline), so two overlapping commits are serialised.
 * _create_jobs: after ER_DUP_ENTRY (1062) on the jobs INSERT the function returns without any further statement (AST).
 * front_end._create_batch.insert (pyvc): a repeated (token, user) returns the first request's batch id and writes nothing; a fresh
   token inserts exactly one batches row (token, user, n_jobs = 0, complete) plus the root job group of that row and returns its
   id; the lookup is keyed by exactly token and user, takes a lock and precedes every write; rejections write nothing.
 * front_end._create_job_groups.insert (pyvc, loop contract): groups are created only when the update exists, is not committed and
   the bunch's first absolute id is the successor of the batch's last group id read under a lock - a re-sent bunch writes nothing;
   every group gets start + relative - 1 in this batch / update / transaction, one call per spec.
 * client/server id agreement: aioclient Job._submit / JobGroup._submit compute start + id - 1, the same expression the server
   uses for spec['job_id'] and the in-update job group id (pyvc + AST).
"""
from __future__ import annotations

import ast as pyast

import z3

from contracts import sqlspec as SP
from vc import core, pyvc, sqlast as A, sqlparse
from vc.pyvc import Contract, Fork, LoopSpec, SRecord

FE = 'batch/batch/front_end/front_end.py'
CL = 'hail/python/hailtop/batch_client/aioclient.py'


def _sql_of(node):
    a0 = node.args[0]
    if isinstance(a0, pyast.Constant) and isinstance(a0.value, str):
        return ' '.join(a0.value.split())
    raise core.Undecided('embedded SQL is not a string literal')


def _fetchone(eng, st, args, kw, node):
    sql = _sql_of(node)
    if 'FROM batch_updates' in sql and 'token = %s' in sql:
        rec = SRecord('row', {k: z3.Int('tok_' + k) for k in ('update_id', 'start_job_id', 'start_job_group_id')})
        cols = _select_cols(sql)
        ok = sorted(cols) == sorted(rec.fields)
        eng.ctx.add(core.decided('%s/token-lookup-selects-the-three-ids' % eng.label, ok, sql, kind='scan'))
        _check_where(eng, sql, node, ['batch_id', 'token'], ['batch_id', 'update_token'], 'token-lookup')
        raise Fork(node, [('token-row-exists', None, 'value', rec, lambda s: s.env.__setitem__('token_hit', True)), ('no-token-row', None, 'value', None, None)])
    if 'FROM batches' in sql:
        rec = SRecord('row', {'cancelled': z3.Bool('batch_cancelled')})
        _check_where(eng, sql, node, None, None, 'batch-lookup')
        raise Fork(node, [('batch-found', None, 'value', rec, None), ('batch-missing', None, 'value', None, None)])
    if 'FROM batch_updates' in sql and 'ORDER BY update_id DESC' in sql:
        rec = SRecord('row', {k: z3.Int('last_' + k) for k in ('update_id', 'start_job_id', 'n_jobs', 'start_job_group_id', 'n_job_groups')})
        ok = 'LIMIT 1' in sql and 'WHERE batch_id = %s' in sql
        eng.ctx.add(core.decided('%s/last-update-lookup-is-the-highest-update-of-this-batch' % eng.label, ok, sql, kind='scan'))
        raise Fork(node, [('has-earlier-update', None, 'value', rec, lambda s: s.env.__setitem__('has_last', True)), ('first-update', None, 'value', None, None)])
    raise core.Undecided('unrecognised query in _create_batch_update: %s' % sql[:80])


def _select_cols(sql):
    stn = sqlparse.parse_statements(sql)[0]
    return [c.alias or c.expr.parts[-1] for c in stn.select.columns]


def _check_where(eng, sql, node, cols, argnames, tag):
    if cols is None:
        return
    stn = sqlparse.parse_statements(sql)[0]
    conj = []

    def walk(e):
        if isinstance(e, A.BinOp) and e.op == 'AND':
            walk(e.left)
            walk(e.right)
        else:
            conj.append(e)

    walk(stn.select.where)
    got = [c.left.parts[-1] for c in conj if isinstance(c, A.BinOp) and c.op == '=' and isinstance(c.right, A.Param)]
    passed = [pyast.unparse(x) for x in node.args[1].elts] if len(node.args) > 1 and isinstance(node.args[1], pyast.Tuple) else []
    # the i-th `col = %s` conjunct is bound to the i-th argument (the statement has no other placeholders); the lookup must be
    # keyed by the listed columns bound to the listed arguments - further conjuncts (e.g. an owner filter) only narrow it
    n_params = sql.count('%s')
    pairs = list(zip(got, passed)) if len(got) == len(passed) == n_params else []
    ok = all((c, a) in pairs for c, a in zip(cols, argnames))
    eng.ctx.add(core.decided('%s/%s-is-keyed-by-%s' % (eng.label, tag, '+'.join(cols)), ok, 'where=%r args=%r' % (got, passed), kind='scan'))


def _insertone(eng, st, args, kw, node):
    sql = _sql_of(node)
    stn = sqlparse.parse_statements(sql)[0]
    if not isinstance(stn, A.Insert) or stn.table != 'batch_updates' or stn.on_duplicate:
        raise core.Undecided('unexpected write in _create_batch_update: %s' % sql[:80])
    vals = args[2] if len(args) > 2 else None
    if not isinstance(vals, tuple) or len(vals) != len(stn.columns):
        raise core.Undecided('INSERT arguments do not match the column list')
    row = dict(zip(stn.columns, vals))
    st.env['n_writes'] = st.env['n_writes'] + 1
    for k, v in row.items():
        st.env['ins_' + k] = v
    return None


def update_contract():
    return Contract(
        path=FE,
        qualname='_create_batch_update.update',
        types={'tx': 'U'},
        extra_inputs={'batch_id': 'int', 'update_token': 'U', 'n_jobs': 'int', 'n_job_groups': 'int', 'user': 'U'},
        ghost_init={'n_writes': '0', 'token_hit': 'False', 'has_last': 'False'},
        consts={'ROOT_JOB_GROUP_ID': 0},
        calls={'.execute_and_fetchone': _fetchone, '.execute_insertone': _insertone, 'time_msecs': lambda eng, st, args, kw, node: z3.Int(pyvc.fresh_name('now'))},
        raises={'HTTPNotFound': 'n_writes == 0', 'HTTPBadRequest': 'n_writes == 0', 'AssertionError': 'n_writes == 0 and not (n_jobs > 0 or n_job_groups > 0)'},
        ensures=[
            ('retry-returns-the-stored-ids-in-the-right-order', "implies(token_hit, result[0] == tok_update_id and result[1] == tok_start_job_group_id and result[2] == tok_start_job_id)"),
            ('retry-writes-nothing', "implies(token_hit, n_writes == 0)"),
            ('fresh-request-inserts-exactly-one-update', "implies(not token_hit, n_writes == 1)"),
            ('ranges-continue-the-last-update', "implies(not token_hit and has_last, ins_update_id == last_update_id + 1 and ins_start_job_id == last_start_job_id + last_n_jobs and ins_start_job_group_id == last_start_job_group_id + last_n_job_groups)"),
            ('first-update-starts-at-one', "implies(not token_hit and not has_last, ins_update_id == 1 and ins_start_job_id == 1 and ins_start_job_group_id == 1)"),
            ('inserted-row-carries-the-request', "implies(not token_hit, ins_batch_id == batch_id and ins_token == update_token and ins_n_jobs == n_jobs and ins_n_job_groups == n_job_groups and ins_committed == False)"),
            ('returns-the-inserted-ids-in-the-right-order', "implies(not token_hit, result[0] == ins_update_id and result[1] == ins_start_job_group_id and result[2] == ins_start_job_id)"),
        ],
        setup=lambda eng, st: st.env.update({k: z3.Int(k) for k in ('tok_update_id', 'tok_start_job_id', 'tok_start_job_group_id', 'last_update_id', 'last_start_job_id', 'last_n_jobs', 'last_start_job_group_id', 'last_n_job_groups')}, **{'ins_' + k: z3.Int('noins_' + k) for k in ('update_id', 'start_job_id', 'start_job_group_id', 'batch_id', 'n_jobs', 'n_job_groups')}, ins_token=z3.Const('noins_token', pyvc.U), ins_committed=True),
        canaries=[('always-a-retry', 'token_hit')],
    )


# ---- _create_batch.insert: the batch-creation token ----------------------------------------------------------------------------

def _conjuncts(e, out):
    if isinstance(e, A.BinOp) and e.op == 'AND':
        _conjuncts(e.left, out)
        _conjuncts(e.right, out)
    else:
        out.append(e)
    return out


def create_batch_contract():
    """front_end._create_batch.insert (the real nested coroutine, run inside one transaction): a request that repeats a token of
    the same user is answered with the id of the batch created by the first request and writes NOTHING; a fresh token inserts
    exactly one batches row carrying that token and user (born empty and complete: n_jobs = 0), creates exactly the root job
    group of that new batch, and returns the id of the inserted row; every rejection happens before any write."""

    def fetchone(eng, st, args, kw, node):
        sql = _sql_of(node)
        if 'FROM billing_project_users' in sql:
            lim = z3.Int(pyvc.fresh_name('bp_limit'))
            mk = lambda limit: SRecord('row', {'status': z3.Const('bp_status', pyvc.U), 'limit': limit})  # noqa: E731
            raise Fork(node, [('no-such-billing-project-for-this-user', None, 'value', None, None), ('billing-project-without-limit', None, 'value', mk(None), None), ('billing-project-with-limit', None, 'value', mk(lim), None)])
        if 'aggregated_billing_project_user_resources_v3' in sql:
            return SRecord('row', {'cost': z3.Int(pyvc.fresh_name('accrued_cost'))})
        if 'FROM batches' in sql:
            stn = sqlparse.parse_statements(sql)[0]
            conj = _conjuncts(stn.select.where, [])
            got = [c.left.parts[-1] for c in conj if isinstance(c, A.BinOp) and c.op == '=' and isinstance(c.right, A.Param)]
            passed = [pyast.unparse(x) for x in node.args[1].elts] if len(node.args) > 1 and isinstance(node.args[1], pyast.Tuple) else []
            pairs = list(zip(got, passed)) if len(got) == len(passed) == sql.count('%s') == len(conj) else []
            # exactly the key (token, user): a narrower key would miss the first request's row (a second batch is created), a
            # wider one (token only) would hand one user's batch id to another user
            eng.ctx.add(core.decided('%s/token-lookup-is-keyed-by-exactly-token-and-user' % eng.label, sorted(pairs) == [('token', 'token'), ('user', 'user')], 'where=%r args=%r' % (got, passed), kind='scan'))
            eng.ctx.add(core.decided('%s/token-lookup-locks-the-row-or-gap' % eng.label, sql.rstrip(' ;').upper().endswith('FOR UPDATE'), sql, kind='scan'))
            eng.oblige(st, 'token-lookup-precedes-every-write', st.env['n_writes'] == 0)
            rec = SRecord('row', {'id': z3.Int('existing_batch_id')})
            raise Fork(node, [('token-row-exists', None, 'value', rec, lambda s: s.env.__setitem__('token_hit', True)), ('no-token-row', None, 'value', None, lambda s: s.env.__setitem__('looked_up', True))])
        raise core.Undecided('unrecognised query in _create_batch.insert: %s' % sql[:80])

    def insertone(eng, st, args, kw, node):
        sql = _sql_of(node)
        stn = sqlparse.parse_statements(sql)[0]
        if not isinstance(stn, A.Insert) or stn.table != 'batches' or stn.on_duplicate:
            raise core.Undecided('unexpected write in _create_batch.insert: %s' % sql[:80])
        vals = args[2] if len(args) > 2 else None
        if not isinstance(vals, tuple) or len(vals) != len(stn.columns):
            raise core.Undecided('INSERT arguments do not match the column list')
        eng.oblige(st, 'a-batch-row-is-written-only-after-the-token-was-looked-up-and-not-found', st.env['looked_up'])
        st.env['n_writes'] = st.env['n_writes'] + 1
        st.env['n_batch_rows'] = st.env['n_batch_rows'] + 1
        for k, v in zip(stn.columns, vals):
            st.env['ins_' + k] = v
        return z3.Int('new_batch_id')

    def create_job_group(eng, st, args, kw, node):
        eng.oblige(st, 'root-group-is-created-in-the-same-transaction', eng.equal(args[0], st.env['tx']) if args else z3.BoolVal(False))
        eng.oblige(st, 'root-group-is-created-after-the-batch-row', st.env['n_batch_rows'] == 1)
        st.env['n_writes'] = st.env['n_writes'] + 1
        st.env['n_groups'] = st.env['n_groups'] + 1
        for k in ('batch_id', 'job_group_id', 'update_id', 'user', 'parent_job_group_id', 'timestamp'):
            if k not in kw:
                raise core.Undecided('_create_job_group called without %s=' % k)
            st.env['jg_' + k] = kw[k]
        e = z3.Const(pyvc.fresh_name('jg_exc'), pyvc.U)
        raise Fork(node, [('group-created', None, 'value', None, None), ('group-creation-fails', None, 'raise', pyvc.SExc(term=e), None)])

    opaque = lambda name: (lambda eng, st, args, kw, node: z3.Const(pyvc.fresh_name(name), pyvc.U))  # noqa: E731
    return Contract(
        path=FE,
        qualname='_create_batch.insert',
        types={'tx': 'U'},
        extra_inputs={'billing_project': 'U', 'user': 'U', 'token': 'U', 'attributes': 'U', 'batch_spec': 'U', 'userdata': 'U'},
        ghost_init={'n_writes': '0', 'n_batch_rows': '0', 'n_groups': '0', 'token_hit': 'False', 'looked_up': 'False'},
        consts={'ROOT_JOB_GROUP_ID': 0, 'BATCH_FORMAT_VERSION': z3.Int('BATCH_FORMAT_VERSION')},
        calls={'.execute_and_fetchone': fetchone, '.execute_insertone': insertone, '_create_job_group': create_job_group, 'time_msecs': lambda eng, st, args, kw, node: z3.Int(pyvc.fresh_name('now')),
               'json.dumps': lambda eng, st, args, kw, node: eng.uf('json_dumps', ['U'], 'U')(pyvc.to_z3(args[0], 'U')), 'batch_spec.get': lambda eng, st, args, kw, node: eng.uf('spec_get', ['U'], 'U')(pyvc.to_z3(args[0], 'U')), 'cost_str': opaque('cost_str')},
        setup=lambda eng, st: st.env.update({'ins_' + k: z3.Const('noins_' + k, pyvc.U) for k in ('user', 'token', 'state', 'billing_project')}, ins_n_jobs=z3.Int('noins_n_jobs'), ins_time_created=z3.Int('noins_tc'), ins_time_completed=z3.Int('noins_tcc'),
                                                  new_batch_id=z3.Int('new_batch_id'), existing_batch_id=z3.Int('existing_batch_id'), jg_batch_id=z3.Int('nojg_b'), jg_job_group_id=z3.Int('nojg_g'), jg_parent_job_group_id=z3.Int('nojg_p'), jg_user=z3.Const('nojg_u', pyvc.U), jg_update_id=z3.Const('nojg_upd', pyvc.U)),
        raises={'HTTPForbidden': 'n_writes == 0', '*': 'n_groups == 1'},
        ensures=[
            ('retry-returns-the-batch-of-the-first-request', 'implies(token_hit, result == existing_batch_id)'),
            ('retry-writes-nothing', 'implies(token_hit, n_writes == 0)'),
            ('fresh-token-inserts-exactly-one-batch-and-its-root-group', 'implies(not token_hit, n_batch_rows == 1 and n_groups == 1 and n_writes == 2)'),
            ('inserted-batch-carries-token-and-user', 'implies(not token_hit, ins_token == token and ins_user == user and ins_billing_project == billing_project)'),
            ('a-batch-is-born-empty-and-complete', "implies(not token_hit, ins_n_jobs == 0 and ins_state == 'complete' and ins_time_completed == ins_time_created)"),
            ('root-group-belongs-to-the-new-batch', 'implies(not token_hit, jg_batch_id == new_batch_id and jg_job_group_id == ROOT_JOB_GROUP_ID and jg_parent_job_group_id == ROOT_JOB_GROUP_ID and jg_user == user and jg_update_id is None)'),
            ('returns-the-inserted-id', 'implies(not token_hit, result == new_batch_id)'),
        ],
        canaries=[('always-a-retry', 'token_hit'), ('never-a-retry', 'not token_hit')],
    )


# ---- _create_job_groups.insert: the ordering check ------------------------------------------------------------------------------

JG_SPEC_T = pyvc.rec_type(job_group_id='int', has_absolute_parent_id='bool', absolute_parent_id='int', has_in_update_parent_id='bool', in_update_parent_id='int')


def create_job_groups_contract():
    """front_end._create_job_groups.insert (real nested coroutine, one transaction): nothing is written unless the update exists,
    is not committed, and the first group of the bunch is exactly the successor of the last group the batch already has (read
    under a lock).  A re-sent bunch therefore writes nothing: after the first delivery the batch's last group id is at least
    the bunch's first id.  Every group of an accepted bunch is created once, in order, under the absolute id
    start_job_group_id + relative id - 1 of this batch and update, in this transaction."""

    def fetchone(eng, st, args, kw, node):
        sql = _sql_of(node)
        if 'FROM batch_updates' in sql:
            stn = sqlparse.parse_statements(sql)[0]
            conj = _conjuncts(stn.select.where, [])
            got = [c.left.parts[-1] for c in conj if isinstance(c, A.BinOp) and c.op == '=' and isinstance(c.right, A.Param)]
            passed = [pyast.unparse(x) for x in node.args[1].elts] if len(node.args) > 1 and isinstance(node.args[1], pyast.Tuple) else []
            pairs = list(zip(got, passed)) if len(got) == len(passed) == sql.count('%s') else []
            eng.ctx.add(core.decided('%s/update-lookup-is-keyed-by-this-batch-and-update' % eng.label, ('batch_id', 'batch_id') in pairs and ('update_id', 'update_id') in pairs, 'where=%r args=%r' % (got, passed), kind='scan'))
            cols = _select_cols(sql)
            eng.ctx.add(core.decided('%s/update-lookup-reads-committed-and-the-start-of-the-reserved-range' % eng.label, 'committed' in cols and 'start_job_group_id' in cols, repr(cols), kind='scan'))
            rec = SRecord('row', {'state': z3.Const('upd_state', pyvc.U), 'format_version': z3.Int('upd_fv'), 'committed': z3.Bool('upd_committed'), 'start_job_group_id': z3.Int('start_jg')})
            raise Fork(node, [('update-found', None, 'value', rec, None), ('update-missing', None, 'value', None, None)])
        if 'FROM job_groups' in sql:
            flat = ' '.join(sql.upper().split())
            ok = 'WHERE BATCH_ID = %S' in flat and 'ORDER BY JOB_GROUP_ID DESC' in flat and 'LIMIT 1' in flat and flat.rstrip(' ;').endswith('FOR UPDATE') and pyast.unparse(node.args[1]) == '(batch_id,)'
            eng.ctx.add(core.decided('%s/last-group-lookup-is-the-highest-group-of-this-batch-read-under-a-lock' % eng.label, ok, sql, kind='scan'))
            eng.oblige(st, 'last-group-lookup-precedes-every-write', st.env['n_groups'] == 0)
            st.env['looked_up_last'] = True
            return SRecord('row', {'job_group_id': z3.Int('last_jg')})  # every batch has its root group (created with the batch)
        raise core.Undecided('unrecognised query in _create_job_groups.insert: %s' % sql[:80])

    def create_job_group(eng, st, args, kw, node):
        for k in ('batch_id', 'job_group_id', 'update_id', 'user', 'parent_job_group_id'):
            if k not in kw:
                raise core.Undecided('_create_job_group called without %s=' % k)
        spec = st.env['spec']
        first = pyvc.from_z3(z3.Select(st.env['job_group_specs'].arr, 0), JG_SPEC_T)
        eng.oblige(st, 'groups-are-created-only-after-the-ordering-check-passed', z3.And(st.env['looked_up_last'], z3.Int('start_jg') + first.fields['job_group_id'] - 1 == z3.Int('last_jg') + 1, z3.Not(z3.Bool('upd_committed'))))
        eng.oblige(st, 'group-gets-the-absolute-id-start-plus-relative-minus-one', pyvc.to_z3(kw['job_group_id'], 'int') == z3.Int('start_jg') + spec.fields['job_group_id'] - 1)
        eng.oblige(st, 'group-is-created-in-this-batch-update-and-transaction', z3.And(eng.equal(kw['batch_id'], st.env['batch_id']), eng.equal(kw['update_id'], st.env['update_id']), eng.equal(kw['user'], st.env['user']), eng.equal(args[0], st.env['tx']) if args else z3.BoolVal(False)))
        eng.oblige(st, 'parent-is-the-absolute-id-given-or-computed-from-the-relative-one', pyvc.to_z3(kw['parent_job_group_id'], 'int') == z3.If(spec.fields['has_absolute_parent_id'], spec.fields['absolute_parent_id'], z3.Int('start_jg') + spec.fields['in_update_parent_id'] - 1))
        st.env['n_groups'] = st.env['n_groups'] + 1
        e = z3.Const(pyvc.fresh_name('jg_exc'), pyvc.U)
        raise Fork(node, [('group-created', None, 'value', None, None), ('group-creation-fails', None, 'raise', pyvc.SExc(term=e), None)])

    opaque = lambda name: (lambda eng, st, args, kw, node: z3.Const(pyvc.fresh_name(name), pyvc.U))  # noqa: E731
    return Contract(
        path=FE,
        qualname='_create_job_groups.insert',
        types={'tx': 'U', 'job_group_specs': ('list', JG_SPEC_T), 'spec': JG_SPEC_T},
        extra_inputs={'batch_id': 'int', 'update_id': 'int', 'user': 'U', 'job_group_specs': ('list', JG_SPEC_T)},
        requires=['len(job_group_specs) > 0'],
        ghost_init={'n_groups': '0', 'looked_up_last': 'False'},
        calls={'.execute_and_fetchone': fetchone, '_create_job_group': create_job_group, 'time_msecs': lambda eng, st, args, kw, node: z3.Int(pyvc.fresh_name('now')), 'spec.get': opaque('spec_get'),
               'log.info': lambda eng, st, args, kw, node: None},
        loops={0: LoopSpec(index='gi', invariants=[('one-group-per-spec-so-far', 'n_groups == gi')], modifies=['n_groups', 'job_group_id', 'parent_job_group_id'])},
        raises={'HTTPNotFound': 'n_groups == 0', 'HTTPBadRequest': True, 'AssertionError': True, 'CancelledError': True, '*': True},
        on_raise=[('a-bunch-that-does-not-continue-the-last-group-writes-nothing', 'implies(not looked_up_last or start_jg + job_group_specs[0][\'job_group_id\'] - 1 != last_jg + 1 or upd_committed, n_groups == 0)')],
        setup=lambda eng, st: st.env.update(start_jg=z3.Int('start_jg'), last_jg=z3.Int('last_jg'), upd_committed=z3.Bool('upd_committed')),
        ensures=[
            ('every-group-of-the-bunch-is-created-once', 'n_groups == len(job_group_specs)'),
            ('accepted-only-as-the-successor-of-the-last-group', "looked_up_last and start_jg + job_group_specs[0]['job_group_id'] - 1 == last_jg + 1 and not upd_committed"),
        ],
        canaries=[('never-accepts', 'False')],
    )


def client_token_contracts():
    """aioclient: the batch-create token is state of the Batch object - drawn at most once, in the constructor, and sent unchanged
    by every create request built from that object (a request re-sent after a lost response must carry the token the server has
    already seen)"""

    def token_urlsafe(eng, st, args, kw, node):
        st.env['n_drawn'] = st.env['n_drawn'] + 1
        return z3.Const(pyvc.fresh_name('drawn_token'), pyvc.U)

    spec = Contract(
        path=CL,
        qualname='Batch._batch_spec',
        self_fields={'token': 'U', 'attributes': 'U', '_callback': 'U', '_cancel_after_n_failures': 'U', '_job_group_specs': ('list', 'U'), '_job_specs': ('list', 'U'), '_client': 'U'},
        ghost_init={'n_drawn': '0'},
        calls={'secrets.token_urlsafe': token_urlsafe},
        ensures=[("the-create-request-carries-the-token-of-the-batch-object", "result['token'] == self.token and n_drawn == 0"),
                 ('the-token-of-the-batch-object-is-not-changed', 'self.token == old(self.token)'),
                 ('declares-the-jobs-and-groups-held', "result['n_jobs'] == len(self._job_specs) and result['n_job_groups'] == len(self._job_group_specs)")],
        canaries=[('never-returns', 'False')],
    )
    return [spec]


def client_contracts():
    job = Contract(
        path=CL,
        qualname='Job._submit',
        types={'in_update_start_job_id': 'int'},
        self_fields={'_job_id': 'int', '_submitted': 'bool'},
        calls={'Job._raise_if_submitted': lambda eng, st, args, kw, node: None},
        setup=lambda eng, st: st.env.__setitem__('old_id', st.env['self'].fields['_job_id']),
        ensures=[('absolute-id-is-start-plus-relative-minus-one', 'self._job_id == in_update_start_job_id + old_id - 1 and self._submitted == True')],
    )
    jg = Contract(
        path=CL,
        qualname='JobGroup._submit',
        types={'in_update_start_job_group_id': 'int'},
        self_fields={'_job_group_id': 'int', '_submitted': 'bool'},
        calls={'JobGroup._raise_if_submitted': lambda eng, st, args, kw, node: None},
        consts={'ROOT_JOB_GROUP_ID': 0},
        setup=lambda eng, st: st.env.__setitem__('old_id', st.env['self'].fields['_job_group_id']),
        ensures=[('absolute-id-is-start-plus-relative-minus-one', 'self._job_group_id == in_update_start_job_group_id + old_id - 1 and self._submitted == True')],
    )
    return [job, jg]


def build(ctx):
    eng = pyvc.Engine(ctx, update_contract())
    eng.run()
    eb = pyvc.Engine(ctx, create_batch_contract())
    eb.run()
    eg = pyvc.Engine(ctx, create_job_groups_contract())
    eg.run()
    ctx.add(core.decided('_create_job_groups.insert/no-call-outside-the-contract', not [u for u in eg.unmodelled if not u.startswith('log.')], repr(eg.unmodelled), kind='frame'))
    ctx.add(core.decided('_create_batch.insert/no-call-outside-the-contract', not [u for u in eb.unmodelled if not u.startswith('log.')], repr(eb.unmodelled), kind='frame'))
    for c in client_contracts():
        pyvc.Engine(ctx, c).run()
    for c in client_token_contracts():
        ec = pyvc.Engine(ctx, c).run()
        ctx.add(core.decided('%s/no-call-outside-the-contract' % c.qualname, not ec.unmodelled, repr(ec.unmodelled), kind='frame'))
    ctree = pyast.parse(core.read_repo(CL))
    init = pyvc.find_function(ctree, 'Batch.__init__')
    draws = [pyast.unparse(n) for n in pyast.walk(init) if isinstance(n, pyast.Call) and pyast.unparse(n.func) == 'secrets.token_urlsafe']
    assigns = [pyast.unparse(n) for n in pyast.walk(init) if isinstance(n, pyast.Assign) and any(pyast.unparse(t) == 'self.token' for t in n.targets)]
    guarded = any(isinstance(n, pyast.If) and pyast.unparse(n.test) in ('token is None', 'not token') and any(isinstance(m, pyast.Assign) and pyast.unparse(m.targets[0]) == 'token' and 'secrets.token_urlsafe' in pyast.unparse(m.value) for m in n.body) for n in pyast.walk(init))
    ctx.add(core.decided('Batch.__init__/the-create-token-is-the-one-given-or-drawn-once-at-construction', len(draws) == 1 and assigns == ['self.token = token'] and guarded, 'draws=%r assigns=%r' % (draws, assigns), kind='scan'))
    writers = sorted({fn.name for cls in ctree.body if isinstance(cls, pyast.ClassDef) and cls.name == 'Batch' for fn in cls.body if isinstance(fn, (pyast.FunctionDef, pyast.AsyncFunctionDef)) for n in pyast.walk(fn) if isinstance(n, (pyast.Assign, pyast.AugAssign, pyast.AnnAssign)) for t in (n.targets if isinstance(n, pyast.Assign) else [n.target]) if pyast.unparse(t) == 'self.token'})
    ctx.add(core.decided('Batch/the-create-token-is-written-only-by-the-constructor', writers == ['__init__'], repr(writers), kind='scan'))
    ctx.under_contract(CL, 'Batch.__init__ (create token)')
    # server side id computation uses the same formula (AST obligations on _create_jobs / _create_job_groups)
    src = core.read_repo(FE)
    tree = pyast.parse(src)
    cj = pyast.unparse([n for n in pyast.walk(tree) if isinstance(n, pyast.AsyncFunctionDef) and n.name == '_create_jobs'][0])
    ok = "job_id = spec['job_id'] + update_start_job_id - 1" in cj and 'job_group_id = update_start_job_group_id + in_update_job_group_id - 1' in cj and 'update_start_job_id + parent_id - 1 for parent_id in in_update_parent_ids' in cj
    ctx.add(core.decided('server/_create_jobs-computes-absolute-ids-as-start-plus-relative-minus-one', ok, '', kind='scan'))
    ctx.under_contract(FE, '_create_jobs (absolute ids)')
    # ER_DUP_ENTRY on the jobs insert returns without further statements
    fn = [n for n in pyast.walk(tree) if isinstance(n, pyast.AsyncFunctionDef) and n.name == 'insert_jobs_into_db']
    ok2 = False
    if fn:
        tries = [n for n in fn[0].body if isinstance(n, pyast.Try)]
        if tries:
            h = [h for h in tries[0].handlers if 'IntegrityError' in pyast.unparse(h.type)]
            if h:
                body = h[0].body
                ok2 = (
                    isinstance(body[0], pyast.If)
                    and pyast.unparse(body[0].test) == 'err.args[0] == 1062'
                    and any(isinstance(x, pyast.Return) and x.value is None for x in body[0].body)
                    and isinstance(body[-1], pyast.Raise)
                    and 'INSERT INTO jobs' in pyast.unparse(tries[0].body[0])
                    # the jobs INSERT is the FIRST database statement of the transaction: nothing is written before the
                    # duplicate-bunch test can fire (a write placed before it would be committed again by the early return)
                    and not any('tx.' in pyast.unparse(x) for x in fn[0].body[: fn[0].body.index(tries[0])])
                )
    ctx.add(core.decided('_create_jobs/duplicate-bunch-returns-before-any-further-insert', ok2, '', kind='scan'))
    ctx.under_contract(FE, '_create_jobs.insert_jobs_into_db')
    # commit_batch_update
    ex = SP.proc_exec(inline_after=False)
    name = 'commit_batch_update'
    ctx.under_contract(SP.rel(ex.routines[name].source_file), 'PROCEDURE ' + name)
    st0 = ex.new_state()
    st0.db.tab('batch_updates')
    base = st0.db.fork()
    seen = 0
    for pi, s in enumerate(ex.run_procedure(name, st0)):
        live = [e for e in s.effects if e.kind in ('insert', 'upsert', 'update', 'update-set', 'insert-select', 'upsert-select', 'delete', 'delete-set', 'loop-set') and not e.data.get('rolled_back')]
        cc = s.vars['cur_update_committed']
        if not live:
            continue
        seen += 1
        SP.add_valid(ctx, '%s/path%d/writes-only-when-the-update-was-not-yet-committed' % (name, pi), s.pc, [], z3.Not(z3.And(z3.Not(cc.n), cc.v != 0)))
    ctx.add(core.decided('%s/some-committing-path' % name, seen >= 1, '', kind='vacuity'))
    for pi, s in enumerate(ex.run_procedure(name)):
        cc = s.vars['cur_update_committed']
        live = [e for e in s.effects if e.kind in ('insert', 'upsert', 'update', 'update-set', 'insert-select', 'upsert-select', 'delete', 'delete-set', 'loop-set') and not e.data.get('rolled_back')]
        if not live and s.results:
            rc = s.results[-1][0][1]
            SP.add_valid(ctx, '%s/path%d/second-commit-answers-rc-0' % (name, pi), s.pc, [z3.Not(cc.n), cc.v != 0], z3.And(z3.Not(rc.n), rc.v == 0))
    SP.lock_discipline(ctx, ex, ['commit_batch_update'])
    SP.engine_obligations(ctx, ex)
    ctx.assume('tx.execute_and_fetchone returns None or one row of the query (the three queries of _create_batch_update are recognised by their text; any other query makes the check undecided); SELECT ... FOR UPDATE serialises concurrent update creation (assumed)')
    ctx.assume('the induction from "each new update continues the last one" to "ranges are contiguous, disjoint and in update order" is a paper argument over the batch_updates rows')
    ctx.assume('every batch has its root job group (created by _create_batch.insert in the transaction that inserts the batch row: contract above), so the last-group lookup of _create_job_groups.insert finds a row')
    ctx.undecided('HTTP-level retries; two clients racing on the same batch beyond the row / gap locks taken by the lookups (FOR UPDATE is checked, its MySQL semantics assumed); that the relative ids inside one job-group bunch are consecutive (only the first is compared with the last existing group; a repeated id ends in a duplicate-key error that rolls the transaction back)')
