"""C09 - submission is idempotent under client retries.

Claimed clauses:
 * front_end._create_batch_update.update (real nested coroutine, pyvc with an effect log for the embedded SQL):
   - when a row with the same (batch, token) exists the function returns exactly (update_id, start_job_group_id, start_job_id)
     of that row and executes NO write statement;
   - otherwise it executes exactly one INSERT into batch_updates whose values are update_id = last.update_id + 1,
     start_job_id = last.start_job_id + last.n_jobs, start_job_group_id = last.start_job_group_id + last.n_job_groups (1,1,1 when
     the batch has no update yet), the declared n_jobs / n_job_groups / token, committed = False, and it returns exactly the
     inserted (update_id, start_job_group_id, start_job_id); hence by induction over the updates of a batch the id ranges are
     contiguous, disjoint and in update order;  a missing / cancelled batch is rejected before any write.
 * commit_batch_update (sqlvc): a second commit of an already committed update writes nothing and answers rc = 0; the first
   read of batch_updates takes a row lock (lock discipline), so two overlapping commits are serialised.
 * _create_jobs: after ER_DUP_ENTRY (1062) on the jobs INSERT the function returns without any further statement (AST).
 * client/server id agreement: aioclient Job._submit / JobGroup._submit compute start + id - 1, the same expression the server
   uses for spec['job_id'] and the in-update job group id (pyvc + AST).
"""
from __future__ import annotations

import ast as pyast

import z3

from contracts import sqlspec as SP
from vc import core, pyvc, sqlast as A, sqlparse
from vc.pyvc import Contract, Fork, SRecord

FE = 'batch/batch/front_end/front_end.py'
CL = 'hail/python/hailtop/batch_client/aioclient.py'


def _sql_of(node):
    a0 = node.args[0]
    if isinstance(a0, pyast.Constant) and isinstance(a0.value, str):
        return ' '.join(a0.value.split())
    raise core.Undecided('embedded SQL is not a string literal')


def _fetchone(eng, st, args, kw, node):
    sql = _sql_of(node)
    if 'FROM batch_updates' in sql and 'token = %s' in sql:
        rec = SRecord('row', {k: z3.Int('tok_' + k) for k in ('update_id', 'start_job_id', 'start_job_group_id')})
        cols = _select_cols(sql)
        ok = sorted(cols) == sorted(rec.fields)
        eng.ctx.add(core.decided('%s/token-lookup-selects-the-three-ids' % eng.label, ok, sql, kind='scan'))
        _check_where(eng, sql, node, ['batch_id', 'token'], ['batch_id', 'update_token'], 'token-lookup')
        raise Fork(node, [('token-row-exists', None, 'value', rec, lambda s: s.env.__setitem__('token_hit', True)), ('no-token-row', None, 'value', None, None)])
    if 'FROM batches' in sql:
        rec = SRecord('row', {'cancelled': z3.Bool('batch_cancelled')})
        _check_where(eng, sql, node, None, None, 'batch-lookup')
        raise Fork(node, [('batch-found', None, 'value', rec, None), ('batch-missing', None, 'value', None, None)])
    if 'FROM batch_updates' in sql and 'ORDER BY update_id DESC' in sql:
        rec = SRecord('row', {k: z3.Int('last_' + k) for k in ('update_id', 'start_job_id', 'n_jobs', 'start_job_group_id', 'n_job_groups')})
        ok = 'LIMIT 1' in sql and 'WHERE batch_id = %s' in sql
        eng.ctx.add(core.decided('%s/last-update-lookup-is-the-highest-update-of-this-batch' % eng.label, ok, sql, kind='scan'))
        raise Fork(node, [('has-earlier-update', None, 'value', rec, lambda s: s.env.__setitem__('has_last', True)), ('first-update', None, 'value', None, None)])
    raise core.Undecided('unrecognised query in _create_batch_update: %s' % sql[:80])


def _select_cols(sql):
    stn = sqlparse.parse_statements(sql)[0]
    return [c.alias or c.expr.parts[-1] for c in stn.select.columns]


def _check_where(eng, sql, node, cols, argnames, tag):
    if cols is None:
        return
    stn = sqlparse.parse_statements(sql)[0]
    conj = []

    def walk(e):
        if isinstance(e, A.BinOp) and e.op == 'AND':
            walk(e.left)
            walk(e.right)
        else:
            conj.append(e)

    walk(stn.select.where)
    got = [c.left.parts[-1] for c in conj if isinstance(c, A.BinOp) and c.op == '=' and isinstance(c.right, A.Param)]
    passed = [pyast.unparse(x) for x in node.args[1].elts] if len(node.args) > 1 and isinstance(node.args[1], pyast.Tuple) else []
    # the i-th `col = %s` conjunct is bound to the i-th argument (the statement has no other placeholders); the lookup must be
    # keyed by the listed columns bound to the listed arguments - further conjuncts (e.g. an owner filter) only narrow it
    n_params = sql.count('%s')
    pairs = list(zip(got, passed)) if len(got) == len(passed) == n_params else []
    ok = all((c, a) in pairs for c, a in zip(cols, argnames))
    eng.ctx.add(core.decided('%s/%s-is-keyed-by-%s' % (eng.label, tag, '+'.join(cols)), ok, 'where=%r args=%r' % (got, passed), kind='scan'))


def _insertone(eng, st, args, kw, node):
    sql = _sql_of(node)
    stn = sqlparse.parse_statements(sql)[0]
    if not isinstance(stn, A.Insert) or stn.table != 'batch_updates' or stn.on_duplicate:
        raise core.Undecided('unexpected write in _create_batch_update: %s' % sql[:80])
    vals = args[2] if len(args) > 2 else None
    if not isinstance(vals, tuple) or len(vals) != len(stn.columns):
        raise core.Undecided('INSERT arguments do not match the column list')
    row = dict(zip(stn.columns, vals))
    st.env['n_writes'] = st.env['n_writes'] + 1
    for k, v in row.items():
        st.env['ins_' + k] = v
    return None


def update_contract():
    return Contract(
        path=FE,
        qualname='_create_batch_update.update',
        types={'tx': 'U'},
        extra_inputs={'batch_id': 'int', 'update_token': 'U', 'n_jobs': 'int', 'n_job_groups': 'int', 'user': 'U'},
        ghost_init={'n_writes': '0', 'token_hit': 'False', 'has_last': 'False'},
        consts={'ROOT_JOB_GROUP_ID': 0},
        calls={'.execute_and_fetchone': _fetchone, '.execute_insertone': _insertone, 'time_msecs': lambda eng, st, args, kw, node: z3.Int(pyvc.fresh_name('now'))},
        raises={'HTTPNotFound': 'n_writes == 0', 'HTTPBadRequest': 'n_writes == 0', 'AssertionError': 'n_writes == 0 and not (n_jobs > 0 or n_job_groups > 0)'},
        ensures=[
            ('retry-returns-the-stored-ids-in-the-right-order', "implies(token_hit, result[0] == tok_update_id and result[1] == tok_start_job_group_id and result[2] == tok_start_job_id)"),
            ('retry-writes-nothing', "implies(token_hit, n_writes == 0)"),
            ('fresh-request-inserts-exactly-one-update', "implies(not token_hit, n_writes == 1)"),
            ('ranges-continue-the-last-update', "implies(not token_hit and has_last, ins_update_id == last_update_id + 1 and ins_start_job_id == last_start_job_id + last_n_jobs and ins_start_job_group_id == last_start_job_group_id + last_n_job_groups)"),
            ('first-update-starts-at-one', "implies(not token_hit and not has_last, ins_update_id == 1 and ins_start_job_id == 1 and ins_start_job_group_id == 1)"),
            ('inserted-row-carries-the-request', "implies(not token_hit, ins_batch_id == batch_id and ins_token == update_token and ins_n_jobs == n_jobs and ins_n_job_groups == n_job_groups and ins_committed == False)"),
            ('returns-the-inserted-ids-in-the-right-order', "implies(not token_hit, result[0] == ins_update_id and result[1] == ins_start_job_group_id and result[2] == ins_start_job_id)"),
        ],
        setup=lambda eng, st: st.env.update({k: z3.Int(k) for k in ('tok_update_id', 'tok_start_job_id', 'tok_start_job_group_id', 'last_update_id', 'last_start_job_id', 'last_n_jobs', 'last_start_job_group_id', 'last_n_job_groups')}, **{'ins_' + k: z3.Int('noins_' + k) for k in ('update_id', 'start_job_id', 'start_job_group_id', 'batch_id', 'n_jobs', 'n_job_groups')}, ins_token=z3.Const('noins_token', pyvc.U), ins_committed=True),
        canaries=[('always-a-retry', 'token_hit')],
    )


def client_contracts():
    job = Contract(
        path=CL,
        qualname='Job._submit',
        types={'in_update_start_job_id': 'int'},
        self_fields={'_job_id': 'int', '_submitted': 'bool'},
        calls={'Job._raise_if_submitted': lambda eng, st, args, kw, node: None},
        setup=lambda eng, st: st.env.__setitem__('old_id', st.env['self'].fields['_job_id']),
        ensures=[('absolute-id-is-start-plus-relative-minus-one', 'self._job_id == in_update_start_job_id + old_id - 1 and self._submitted == True')],
    )
    jg = Contract(
        path=CL,
        qualname='JobGroup._submit',
        types={'in_update_start_job_group_id': 'int'},
        self_fields={'_job_group_id': 'int', '_submitted': 'bool'},
        calls={'JobGroup._raise_if_submitted': lambda eng, st, args, kw, node: None},
        consts={'ROOT_JOB_GROUP_ID': 0},
        setup=lambda eng, st: st.env.__setitem__('old_id', st.env['self'].fields['_job_group_id']),
        ensures=[('absolute-id-is-start-plus-relative-minus-one', 'self._job_group_id == in_update_start_job_group_id + old_id - 1 and self._submitted == True')],
    )
    return [job, jg]


def build(ctx):
    eng = pyvc.Engine(ctx, update_contract())
    eng.run()
    for c in client_contracts():
        pyvc.Engine(ctx, c).run()
    # server side id computation uses the same formula (AST obligations on _create_jobs / _create_job_groups)
    src = core.read_repo(FE)
    tree = pyast.parse(src)
    cj = pyast.unparse([n for n in pyast.walk(tree) if isinstance(n, pyast.AsyncFunctionDef) and n.name == '_create_jobs'][0])
    ok = "job_id = spec['job_id'] + update_start_job_id - 1" in cj and 'job_group_id = update_start_job_group_id + in_update_job_group_id - 1' in cj and 'update_start_job_id + parent_id - 1 for parent_id in in_update_parent_ids' in cj
    ctx.add(core.decided('server/_create_jobs-computes-absolute-ids-as-start-plus-relative-minus-one', ok, '', kind='scan'))
    ctx.under_contract(FE, '_create_jobs (absolute ids)')
    # ER_DUP_ENTRY on the jobs insert returns without further statements
    fn = [n for n in pyast.walk(tree) if isinstance(n, pyast.AsyncFunctionDef) and n.name == 'insert_jobs_into_db']
    ok2 = False
    if fn:
        tries = [n for n in fn[0].body if isinstance(n, pyast.Try)]
        if tries:
            h = [h for h in tries[0].handlers if 'IntegrityError' in pyast.unparse(h.type)]
            if h:
                body = h[0].body
                ok2 = (
                    isinstance(body[0], pyast.If)
                    and pyast.unparse(body[0].test) == 'err.args[0] == 1062'
                    and any(isinstance(x, pyast.Return) and x.value is None for x in body[0].body)
                    and isinstance(body[-1], pyast.Raise)
                    and 'INSERT INTO jobs' in pyast.unparse(tries[0].body[0])
                    # the jobs INSERT is the FIRST database statement of the transaction: nothing is written before the
                    # duplicate-bunch test can fire (a write placed before it would be committed again by the early return)
                    and not any('tx.' in pyast.unparse(x) for x in fn[0].body[: fn[0].body.index(tries[0])])
                )
    ctx.add(core.decided('_create_jobs/duplicate-bunch-returns-before-any-further-insert', ok2, '', kind='scan'))
    ctx.under_contract(FE, '_create_jobs.insert_jobs_into_db')
    # commit_batch_update
    ex = SP.proc_exec(inline_after=False)
    name = 'commit_batch_update'
    ctx.under_contract(SP.rel(ex.routines[name].source_file), 'PROCEDURE ' + name)
    st0 = ex.new_state()
    st0.db.tab('batch_updates')
    base = st0.db.fork()
    seen = 0
    for pi, s in enumerate(ex.run_procedure(name, st0)):
        live = [e for e in s.effects if e.kind in ('insert', 'upsert', 'update', 'update-set', 'insert-select', 'upsert-select', 'delete', 'delete-set', 'loop-set') and not e.data.get('rolled_back')]
        cc = s.vars['cur_update_committed']
        if not live:
            continue
        seen += 1
        SP.add_valid(ctx, '%s/path%d/writes-only-when-the-update-was-not-yet-committed' % (name, pi), s.pc, [], z3.Not(z3.And(z3.Not(cc.n), cc.v != 0)))
    ctx.add(core.decided('%s/some-committing-path' % name, seen >= 1, '', kind='vacuity'))
    for pi, s in enumerate(ex.run_procedure(name)):
        cc = s.vars['cur_update_committed']
        live = [e for e in s.effects if e.kind in ('insert', 'upsert', 'update', 'update-set', 'insert-select', 'upsert-select', 'delete', 'delete-set', 'loop-set') and not e.data.get('rolled_back')]
        if not live and s.results:
            rc = s.results[-1][0][1]
            SP.add_valid(ctx, '%s/path%d/second-commit-answers-rc-0' % (name, pi), s.pc, [z3.Not(cc.n), cc.v != 0], z3.And(z3.Not(rc.n), rc.v == 0))
    SP.lock_discipline(ctx, ex, ['commit_batch_update'])
    SP.engine_obligations(ctx, ex)
    ctx.assume('tx.execute_and_fetchone returns None or one row of the query (the three queries of _create_batch_update are recognised by their text; any other query makes the check undecided); SELECT ... FOR UPDATE serialises concurrent update creation (assumed)')
    ctx.assume('the induction from "each new update continues the last one" to "ranges are contiguous, disjoint and in update order" is a paper argument over the batch_updates rows')
    ctx.undecided('_create_batch token short-circuit and _create_job_groups ordering check (not yet under contract); HTTP-level retries; two clients racing on the same batch')
