"""C01 - scheduler job/core counters always match job states.

Claimed layers (DESIGN.md 7/C01):
 L1  trigger contract, for ALL OLD/NEW rows of jobs, all databases and the real effective text of jobs_after_update:
     the trigger adds to the token-sharded counters exactly  g_X(NEW) - g_X(OLD)  for each of the 13 counters X, where g_X is
     the summand of the invariant (spec, written here from the property text):
        runnable(j)    = always_run or not (cancelled flag or group/ancestor cancelled)
        cancellable(j) = not always_run and not (flag or group cancelled)
        U_ready      += [Ready][runnable],   U_cancelled_ready += [Ready][not runnable], same for Running / Creating,
        core totals   = count delta * cores_mcpu;      G_* (per ancestor group a of the job's group) += [state][cancellable].
     Keys: user counters at (user of the batch, NEW.inst_coll, any token); group counters at (batch, update, a, inst_coll, any
     token) for exactly the a in anc*(batch, group).  Inserted value == increment of the duplicate branch (additivity), so by
     the token abstraction total(key) changes by exactly the delta (meta-lemma L1).
 L2  call sites: every statement in the effective routines that updates `jobs` assigns only state / attempt_id / status /
     n_pending_parents / cancelled (A2: user, inst_coll, job_group_id, update_id, always_run, cores_mcpu are never
     assigned) - closed-world scan of routines and of the SQL embedded in batch/batch/**/*.py.

 L3  bulk operations (pointwise, meta-lemma L2): cancel_job_group moves exactly the cancelled group's totals of COMMITTED
     updates from the user's live counters to its cancelled counters and subtracts the group's totals from every ancestor
     group (contracts/cancel_counters.py); _create_jobs stages per (group, inst_coll) exactly [Ready] / [Ready and not
     always_run] counts and cores for each job (contracts/create_jobs_frag.py).
     Wave 4 (contracts/counter_bulk.py): the transaction of one bunch, front_end._create_jobs.insert_jobs_into_db (real
     coroutine, pyvc; its SQL executed by sqlvc with the placeholders bound to the Python values): no counter table is written
     before the jobs INSERT has passed the duplicate-bunch test (the duplicate branch returns normally = commits), an accepted
     bunch writes each of the two tables exactly once, and each (group, inst_coll) entry is fanned out to exactly the ancestors
     of its group under (batch, update, ancestor, inst_coll, token) with the entry's own totals; commit_batch_update adds
     exactly the root group's staged ready totals of this update to the batch user's live counters, once (in the transaction
     that flips `committed` from 0 to 1); the driver's two cleanup loops delete only cancellable rows of groups with
     grp_cancelled resp. staging rows of committed updates; closed world of all writers of the three counter tables; the
     stored procedure cancel_batch (which sums every group's rows) is never called.
Not claimed (listed undecided): layer-2 clause (iii); the job-row rewrite of commit_batch_update for updates other than the first.
"""
from __future__ import annotations

import ast as pyast
import glob
import os

import z3

from contracts import sqlspec as SP
from vc import core, sqlast as A, sqlparse, sqlvc
from vc.sqlvc import SV, intern, truthy

IMMUTABLE = ['batch_id', 'job_id', 'update_id', 'job_group_id', 'inst_coll', 'always_run', 'cores_mcpu', 'n_regions', 'regions_bits_rep']


def _flag(sv):
    return z3.And(z3.Not(sv.n), sv.v != 0)


def spec_terms(db, row):
    """summands of the invariants for one jobs row"""
    b, g = row['batch_id'].v, row['job_group_id'].v
    marked = z3.Or(_flag(row['cancelled']), SP.grp_cancelled(db, b, g))
    ar = _flag(row['always_run'])
    cancelled = z3.And(z3.Not(ar), marked)
    cancellable = z3.And(z3.Not(ar), z3.Not(marked))
    one = lambda c: z3.If(c, z3.IntVal(1), z3.IntVal(0))
    out = {}
    for st_name, key in (('Ready', 'ready'), ('Running', 'running'), ('Creating', 'creating')):
        is_s = SP.is_state(row['state'], st_name)
        out['n_%s_jobs' % key] = one(z3.And(is_s, z3.Not(cancelled)))
        out['n_cancelled_%s_jobs' % key] = one(z3.And(is_s, cancelled))
        out['n_%s_cancellable_jobs' % key] = one(z3.And(is_s, cancellable))
    c = row['cores_mcpu'].v
    out['ready_cores_mcpu'] = out['n_ready_jobs'] * c
    out['running_cores_mcpu'] = out['n_running_jobs'] * c
    out['ready_cancellable_cores_mcpu'] = out['n_ready_cancellable_jobs'] * c
    out['running_cancellable_cores_mcpu'] = out['n_running_cancellable_jobs'] * c
    return out


USER_COLS = ['n_ready_jobs', 'n_running_jobs', 'n_creating_jobs', 'ready_cores_mcpu', 'running_cores_mcpu', 'n_cancelled_ready_jobs', 'n_cancelled_running_jobs', 'n_cancelled_creating_jobs']
GROUP_COLS = ['n_ready_cancellable_jobs', 'ready_cancellable_cores_mcpu', 'n_creating_cancellable_jobs', 'n_running_cancellable_jobs', 'running_cancellable_cores_mcpu']


def build(ctx):
    ex = sqlvc.Exec(inline_after=False)
    trg = ex.triggers.get(('jobs', 'AFTER', 'UPDATE'))
    if trg is None:
        raise core.Undecided('anchor-moved: no AFTER UPDATE trigger on jobs')
    ctx.under_contract(SP.rel(trg.source_file), 'TRIGGER ' + trg.name)
    ctx.extra['effective_trigger'] = {'name': trg.name, 'file': SP.rel(trg.source_file), 'lines': [trg.first_line, trg.last_line]}
    st = ex.new_state()
    for t in ('batches', 'job_group_self_and_ancestors', 'job_groups_cancelled', 'globals'):
        st.db.tab(t)
    base = st.db.fork()
    old = ex.symbolic_row('jobs', 'OLD')
    new = ex.symbolic_row('jobs', 'NEW')
    for c in IMMUTABLE:
        if c in new:
            new[c] = old[c]
    batches = base.tab('batches')
    pre = [batches.has([new['batch_id'].v]), z3.Not(batches.get([new['batch_id'].v], 'user').n)]
    outs = ex.run_trigger(trg.name, st, old, new)
    g_old, g_new = spec_terms(base, old), spec_terms(base, new)
    n_paths = 0
    changed = []
    for pi, s in enumerate(outs):
        hyps = list(s.pc) + pre
        if not sqlvc.feasible(hyps, 3000):
            continue
        n_paths += 1
        ups = [e for e in s.effects if e.kind == 'upsert-select']
        writes = [e for e in s.effects if e.kind in ('insert', 'upsert', 'update', 'update-set', 'insert-select', 'delete', 'delete-set', 'upsert-select')]
        tabs = sorted(set(e.table for e in writes))
        ctx.add(core.decided('jobs_after_update/path%d/frame-writes-only-the-two-counter-tables' % pi, tabs == ['job_group_inst_coll_cancellable_resources', 'user_inst_coll_resources'] and len(ups) == 2, repr([(e.kind, e.table) for e in writes]), kind='frame'))
        for e in ups:
            d = e.data
            h = list(s.pc[: d['pc_len']]) + pre
            for col, goal in d['additivity_goals']:
                ctx.add(core.valid('jobs_after_update/path%d/%s/additive/%s' % (pi, e.table, col), h + [d['cond']], goal))
            if e.table == 'user_inst_coll_resources':
                key = d['key']
                user = batches.get([new['batch_id'].v], 'user')
                ctx.add(core.valid('jobs_after_update/path%d/user-counters/key-is-(batch-user, inst_coll)' % pi, h, z3.And(z3.Not(key['user'].n), key['user'].v == user.v, sqlvc.sv_eq_values(key['inst_coll'], new['inst_coll']))))
                ctx.add(core.decided('jobs_after_update/path%d/user-counters/all-eight-columns-updated' % pi, sorted(d['updated_cols']) == sorted(USER_COLS), repr(d['updated_cols']), kind='scan'))
                for col in USER_COLS:
                    v = d['values'].get(col)
                    if v is None:
                        ctx.add(core.decided('jobs_after_update/path%d/user-counters/%s-written' % (pi, col), False, 'column missing', kind='scan'))
                        continue
                    ctx.add(core.valid('jobs_after_update/path%d/user-counters/delta-%s' % (pi, col), h, z3.And(z3.Not(v.n), v.v == g_new[col] - g_old[col])))
                    changed.append(z3.And(*h, v.v != 0))
            else:
                key = d['key']
                kv = d['kvars']
                jgsa = base.tab('job_group_self_and_ancestors')
                a = key['job_group_id']
                # rows are produced exactly for the ancestors a of the job's group
                want = jgsa.has([new['batch_id'].v, new['job_group_id'].v, a.v])
                ctx.add(core.valid('jobs_after_update/path%d/group-counters/rows-exactly-for-the-ancestors' % pi, h, z3.And(z3.Implies(d['cond'], want))))
                anc = z3.Int('anc_any')
                subst = [(k, anc) for k in kv if z3.is_int(k)]
                ctx.add(core.valid('jobs_after_update/path%d/group-counters/every-ancestor-gets-a-row' % pi, h + [jgsa.has([new['batch_id'].v, new['job_group_id'].v, anc])], z3.substitute(d['cond'], *subst) if subst else d['cond']))
                ctx.add(core.valid('jobs_after_update/path%d/group-counters/key-is-(batch, update, ancestor, inst_coll)' % pi, h + [d['cond']], z3.And(sqlvc.sv_eq_values(key['batch_id'], new['batch_id']), sqlvc.sv_eq_values(key['update_id'], new['update_id']), sqlvc.sv_eq_values(key['inst_coll'], new['inst_coll']))))
                ctx.add(core.decided('jobs_after_update/path%d/group-counters/all-five-columns-updated' % pi, sorted(d['updated_cols']) == sorted(GROUP_COLS), repr(d['updated_cols']), kind='scan'))
                for col in GROUP_COLS:
                    v = d['values'].get(col)
                    if v is None:
                        ctx.add(core.decided('jobs_after_update/path%d/group-counters/%s-written' % (pi, col), False, 'column missing', kind='scan'))
                        continue
                    ctx.add(core.valid('jobs_after_update/path%d/group-counters/delta-%s' % (pi, col), h + [d['cond']], z3.And(z3.Not(v.n), v.v == g_new[col] - g_old[col])))
    ctx.add(core.decided('jobs_after_update/paths-generated', n_paths >= 1, '%d feasible paths' % n_paths, kind='vacuity'))
    ctx.add(core.satisfiable('jobs_after_update/vacuity/some-update-changes-a-counter', z3.Or(*changed) if changed else z3.BoolVal(False)))
    # canary: the cancelled-ready delta is NOT always zero
    ctx.add(core.satisfiable('jobs_after_update/canary/cancelled-counter-can-change', z3.And(*pre, g_new['n_cancelled_ready_jobs'] - g_old['n_cancelled_ready_jobs'] != 0), kind='canary'))

    # ---- L2: closed world of writers of jobs
    allowed = {'state', 'attempt_id', 'status', 'n_pending_parents', 'cancelled', 'time_ready'}
    bad = []
    sites = []
    for name, r in ex.routines.items():
        for n in r.body.walk():
            if isinstance(n, A.Update):
                tabs = SP._tables_of(n.tables)
                if 'jobs' not in tabs:
                    continue
                for tg, _ in n.assignments:
                    owner = tg.parts[0] if len(tg.parts) == 2 else ([t for t in tabs if tg.parts[0] in ex.tables[t].columns] or [None])[0]
                    if owner == 'jobs':
                        sites.append((name, n.line, tg.parts[-1]))
                        if tg.parts[-1] not in allowed:
                            bad.append((name, n.line, tg.parts[-1]))
    py_sites = []
    for fp in sorted(glob.glob(os.path.join(core.REPO, 'batch', 'batch', '**', '*.py'), recursive=True)):
        try:
            tree = pyast.parse(open(fp).read())
        except SyntaxError:
            continue
        for n in pyast.walk(tree):
            if isinstance(n, pyast.Constant) and isinstance(n.value, str) and 'update jobs' in ' '.join(n.value.lower().split()):
                py_sites.append('%s:%d' % (os.path.relpath(fp, core.REPO), n.lineno))
    ctx.extra['routine_assignments_to_jobs'] = ['%s@L%d:%s' % x for x in sites]
    ctx.add(core.decided('closed-world/A2-immutable-job-columns-never-assigned', not bad and len(sites) >= 8, 'bad=%r' % bad, kind='scan'))
    ctx.add(core.decided('closed-world/no-python-statement-updates-jobs', not py_sites, repr(py_sites), kind='scan'))
    from contracts import sqlspec as _SP
    _SP.engine_obligations(ctx, ex)
    # ---- L3: bulk operations
    from contracts import cancel_counters, create_jobs_frag
    ex3 = SP.proc_exec(inline_after=False)
    cancel_counters.analyze(ctx, ex3, 'cancel_job_group')
    SP.engine_obligations(ctx, ex3)
    create_jobs_frag.add(ctx, a=['staged-n_jobs', 'staged-ready-count', 'staged-ready-cores', 'staged-cancellable-count', 'staged-cancellable-cores', 'ready-iff-first-update-and-no-parents'], b=())
    ctx.assume('each trigger invocation sees one consistent database (statement atomicity); the group-cancellation relation does not change within a jobs UPDATE statement (no statement writes jobs and job_groups_cancelled together)')
    ctx.assume('token abstraction: readers aggregate the counters over `token`; one shard changed by e changes the total by e (meta-lemma L1)')
    ctx.assume('MySQL evaluates select-list expressions left to right before the ON DUPLICATE KEY UPDATE clause of the same row')
    # ---- L3, second part (wave 4): bunch transaction, staging transfer at commit, cleanup loops, closed world of the writers
    from contracts import counter_bulk
    counter_bulk.insert_jobs_contract(ctx)
    counter_bulk.commit_transfer(ctx, ex3)
    counter_bulk.cleanup_loops(ctx)
    counter_bulk.closed_world(ctx, ex3)
    # each procedure call is treated as one atomic step; that rests on the row locks its first reads take (a commit or a
    # cancellation racing with itself would otherwise move the same totals twice)
    SP.lock_discipline(ctx, ex3, ['commit_batch_update', 'cancel_job_group'])
    SP.engine_obligations(ctx, ex3)
    ctx.undecided('commit_batch_update for updates other than the first: the set-oriented re-evaluation of the update\'s job rows (UPDATE jobs ... through the trigger contract) is not stated here (C05 covers the recomputed state); the step from per-statement deltas to the global invariant is the paper induction with meta-lemmas L1/L2')
    ctx.undecided('layer-2 clause (iii): every jobs UPDATE touches only committed jobs or leaves the summands unchanged (ties C01 to C41; mark_job_complete children statement is the known exception F1)')
