"""The canceller's selection queries (batch/batch/driver/canceller.py), shared spec for C05 (wave 4).

The three loop bodies of Canceller each contain an async generator (`user_cancelled_<state>_jobs`) that runs embedded SELECTs and
yields job records; every yielded record is handed to mark_job_complete(.., 'Cancelled', ..) / the attempt is killed.  The
generator is executed by pyvc (real AST, all paths); every `select_and_fetchall(sql, args)` is parsed by vc.sqlparse (the text
may be assembled by an f-string: the pieces are concrete on each path) and looping over its result binds ONE ARBITRARY ROW
satisfying the query's FROM/WHERE over an abstract database (vc.sqlvc.bind_from - the same evaluator as for the stored
programs; LIMIT only drops rows, which is sound for `every selected row ...`).  At each `yield` the obligations are, for the
jobs row behind the yielded record (property C05: a job whose parent did not succeed is marked cancelled and never runs unless
it is always-run; always-run jobs run regardless):
  * it is a row of the jobs table in the state the loop is about ('Ready' / 'Creating' / 'Running');
  * it is NOT an always-run job;
  * it is marked: its own `cancelled` flag is set (a parent did not succeed) or its job group or an ancestor group is cancelled
    (sqlspec.job_marked, written against the tables - not read off the query);
  * the ids yielded are those of that row.
"""
from __future__ import annotations

import ast as pyast
import re

import z3

from contracts import sqlspec as SP
from vc import core, pyvc, sqlast as A, sqlparse, sqlvc
from vc.pyvc import Contract, LoopSpec, SRecord

PATH = 'batch/batch/driver/canceller.py'
GENERATORS = [
    ('Canceller.cancel_cancelled_ready_jobs_loop_body', 'user_cancelled_ready_jobs', 'Ready'),
    ('Canceller.cancel_cancelled_creating_jobs_loop_body', 'user_cancelled_creating_jobs', 'Creating'),
    ('Canceller.cancel_cancelled_running_jobs_loop_body', 'user_cancelled_running_jobs', 'Running'),
]


def _text(v, lineno):
    """the SQL text of this path: a literal, or an f-string / concatenation whose pieces are all concrete on the path"""
    if isinstance(v, str):
        return v
    if isinstance(v, z3.ExprRef) and v.sort() == z3.StringSort():
        s = z3.simplify(v)
        if z3.is_string_value(s):
            t = s.as_string()
            return re.sub(r'\\u\{([0-9a-fA-F]+)\}', lambda m: chr(int(m.group(1), 16)), t)
    raise core.Undecided('embedded SQL at line %d is not a concrete text on this path' % lineno)


def _sv_of(eng, v):
    if isinstance(v, (bool, int)) or v is None:
        return sqlvc.lit(v)
    if isinstance(v, str):
        return sqlvc.lit(v)
    if isinstance(v, z3.ExprRef) and z3.is_int(v):
        return sqlvc.SV(False, v)
    if isinstance(v, z3.ExprRef) and v.sort() == pyvc.U:
        return sqlvc.SV(False, eng.uf('sql_code_of', ['U'], 'int')(v))  # an opaque Python value (user name): some string code
    raise core.Undecided('query argument %r has no SQL encoding' % (v,))


def _select_model(eng, st, args, kw, node):
    """db.select_and_fetchall(sql, args): the rows of the query, as a list of opaque elements registered with the parsed query;
    binding an element (loop target) constrains it to an arbitrary row of the result (see _bind)"""
    sql = _text(args[0], node.lineno)
    pyargs = args[1] if len(args) > 1 else ()
    if not isinstance(pyargs, tuple):
        pyargs = (pyargs,)
    try:
        stn = sqlparse.parse_statement(sql)
    except Exception as e:  # noqa: BLE001
        raise core.Undecided('embedded SQL at line %d does not parse: %s' % (node.lineno, str(e)[:120]))
    if not isinstance(stn, A.SelectStmt) or not isinstance(stn.select, A.Select) or eng.sqlex.has_aggregate(stn.select):
        raise core.Undecided('embedded SQL at line %d is not a plain SELECT' % node.lineno)
    nparams = len([n for n in stn.walk() if isinstance(n, A.Param)])
    if nparams != len(pyargs):
        raise core.Undecided('query at line %d: %d placeholders but %d arguments' % (node.lineno, nparams, len(pyargs)))
    L = pyvc.fresh_value(('list', 'U'), 'rows_L%d' % node.lineno)
    st.assume(L.len >= 0)
    eng.queries.append({'list': L, 'select': stn.select, 'args': pyargs, 'line': node.lineno, 'sql': ' '.join(sql.split())})
    return L


def _query_of(eng, v):
    if isinstance(v, z3.ExprRef) and z3.is_app(v) and v.decl().kind() == z3.Z3_OP_SELECT:
        for q in eng.queries:
            if v.arg(0).eq(q['list'].arr):
                return q
    return None


def _bind(eng, st, q):
    """one arbitrary row of the result of q: fresh key variables for the tables of its FROM clause, its FROM/WHERE condition
    assumed on the path, the selected columns as fields of a record"""
    sel, sst, ex = q['select'], eng.sqlst, eng.sqlex
    for k_ in [k for k in sst.uservars if k.startswith('%param')]:
        del sst.uservars[k_]
    for i_, v in enumerate(q['args']):
        sst.uservars['%%param%d' % i_] = _sv_of(eng, v)
    try:
        aliases, cond, kv = ex.bind_from(sel.from_, sel.where, sqlvc.Scope(sst), sst)
        sc = sqlvc.Scope(sst, aliases)
        fields = {}
        for i_, c in enumerate(sel.columns):
            if isinstance(c.expr, A.Star):
                raise core.Undecided('SELECT * in the query at line %d' % q['line'])
            nm = c.alias or (c.expr.parts[-1] if isinstance(c.expr, A.Name) else 'col%d' % i_)
            sv = ex.ev(c.expr, sc)
            # a NULL column arrives as None in Python: over-approximated by an arbitrary integer (only truthiness / equality is used)
            fields[nm] = sv.v if z3.is_false(z3.simplify(sv.n)) else z3.If(sv.n, z3.Int(sqlvc.fresh('sql_null_as_any')), sv.v)
    except sqlvc.Undecided as e:
        raise core.Undecided('query at line %d outside the sqlvc subset: %s' % (q['line'], e))
    st.assume(cond)
    eng.bound.append({'query': q, 'aliases': aliases, 'cond': cond, 'kv': kv})
    fields['__origin__'] = len(eng.bound) - 1
    return SRecord('row', fields)


def generator_contract(outer, gen, state):
    def on_yield(eng, st, args, kw, node):
        v = args[0]
        tag = 'yield@%s' % eng.yield_tag(node)
        ok = isinstance(v, SRecord) and isinstance(v.fields.get('__origin__'), int)
        b = eng.bound[v.fields['__origin__']] if ok else None
        refs = [r for r in b['aliases'].values() if isinstance(r, sqlvc.RowRef) and r.tab.meta.name == 'jobs'] if ok else []
        eng.ctx.add(core.decided('%s/%s/the-yielded-value-is-a-row-of-a-query-over-jobs' % (eng.label, tag), ok and len(refs) == 1, 'yielded %r' % (v,), kind='scan'))
        if not (ok and len(refs) == 1):
            return
        key = refs[0].key
        db = eng.sqlst.db
        jobs = db.tab('jobs')
        ar, canc, grp = jobs.get(key, 'always_run'), jobs.get(key, 'cancelled'), jobs.get(key, 'job_group_id')
        eng.oblige(st, '%s/only-%s-jobs-are-selected' % (tag, state.lower()), z3.And(jobs.has(key), SP.is_state(jobs.get(key, 'state'), state)))
        eng.oblige(st, '%s/an-always-run-job-is-never-selected-for-cancellation' % tag, z3.And(z3.Not(ar.n), ar.v == 0))
        eng.oblige(st, '%s/only-jobs-marked-cancelled-or-in-a-cancelled-group-are-selected' % tag, SP.job_marked(db, key[0], key[1]))
        # batch_id and job_id must be handed out; job_group_id (not selected by the Running query, which does not use it) must be right where present
        same = [v.fields.get('batch_id') is not None and v.fields['batch_id'] == key[0], v.fields.get('job_id') is not None and v.fields['job_id'] == key[1], v.fields.get('job_group_id') is None or v.fields['job_group_id'] == grp.v]
        eng.oblige(st, '%s/the-ids-yielded-are-those-of-the-selected-row' % tag, z3.And(*[x if isinstance(x, z3.ExprRef) else z3.BoolVal(bool(x)) for x in same]))
        flag = z3.And(z3.Not(canc.n), canc.v != 0)
        gc = SP.grp_cancelled(db, key[0], grp.v)
        eng.reached.append(z3.And(*st.pc))
        eng.reach_flag.append(z3.And(*st.pc, flag, z3.Not(gc)))
        eng.reach_group.append(z3.And(*st.pc, gc, z3.Not(flag)))
        eng.canary.append(z3.And(*st.pc, z3.Not(flag)))

    return Contract(
        path=PATH,
        qualname='%s.%s' % (outer, gen),
        label='canceller/%s' % gen,
        types={'user': 'U', 'remaining': 'U', '.value': 'int'},
        strings=True,
        calls={'self.db.select_and_fetchall': _select_model, 'yield': on_yield},
        loops={'re:^async for ': LoopSpec(index='k_rows', invariants=[]), 're:^for ': LoopSpec(index='k_rows', invariants=[])},
    )


def _engine(ctx, outer, gen, state, ex):
    eng = pyvc.Engine(ctx, generator_contract(outer, gen, state))
    eng.sqlex, eng.sqlst = ex, ex.new_state()
    eng.queries, eng.bound, eng.reached, eng.reach_flag, eng.reach_group, eng.canary = [], [], [], [], [], []
    tags = {}

    def yield_tag(node):
        return tags.setdefault(id(node), 'L%d' % node.lineno)

    eng.yield_tag = yield_tag
    orig_assign = eng.assign

    def assign(target, v, st):
        q = _query_of(eng, v)
        if q is not None:
            v = _bind(eng, st, q)
        return orig_assign(target, v, st)

    eng.assign = assign
    # nested loops share one LoopSpec: give each loop its own index name
    n = [0]
    orig_loop = eng.exec_loop

    def exec_loop(node, st):
        n[0] += 1
        for k_, spec in list(eng.c.loops.items()):
            eng.c.loops[k_] = LoopSpec(index='k_rows_%d' % n[0], invariants=[])
        return orig_loop(node, st)

    eng.exec_loop = exec_loop
    return eng


def _same_job_is_cancelled(ctx, tree, outer, gen):
    """AST: in the loop body, every record of the generator is the job handed to mark_job_complete with new state 'Cancelled'
    (ids taken from the record, passed through unchanged).  Only for the Ready loop (the other two kill the attempt's VM)."""
    cls, meth = outer.split('.')
    fn = pyvc.find_function(tree, outer)
    loops = [n for n in pyast.walk(fn) if isinstance(n, pyast.AsyncFor) and pyast.unparse(n.iter).startswith(gen + '(')]
    ok, detail = False, '%d loops over %s' % (len(loops), gen)
    if len(loops) == 1:
        lp = loops[0]
        rec = pyast.unparse(lp.target)
        binds = {pyast.unparse(s.targets[0]): pyast.unparse(s.value) for s in lp.body if isinstance(s, pyast.Assign) and len(s.targets) == 1}
        ids_ok = all(binds.get(k) == "%s['%s']" % (rec, k) for k in ('batch_id', 'job_id', 'job_group_id'))
        inner = [s for s in lp.body if isinstance(s, pyast.AsyncFunctionDef)]
        calls = [n for s in inner for n in pyast.walk(s) if isinstance(n, pyast.Call) and pyast.unparse(n.func) == 'mark_job_complete']
        all_calls = [n for n in pyast.walk(fn) if isinstance(n, pyast.Call) and pyast.unparse(n.func) == 'mark_job_complete']
        call_ok = len(calls) == 1 == len(all_calls) and len(calls[0].args) >= 7 and [pyast.unparse(a) for a in calls[0].args[1:3]] == ['batch_id', 'job_id'] and pyast.unparse(calls[0].args[4]) == 'job_group_id' and pyast.unparse(calls[0].args[6]) == "'Cancelled'"
        params = [a.arg for a in inner[0].args.args] if len(inner) == 1 else []
        spawns = [n for s in lp.body for n in pyast.walk(s) if isinstance(n, pyast.Call) and n.args and len(inner) == 1 and pyast.unparse(n.args[0]) == inner[0].name]
        pass_ok = len(spawns) == 1 and len(spawns[0].args) == len(params) + 1 and all(pyast.unparse(a) == p for a, p in zip(spawns[0].args[1:], params) if p in ('batch_id', 'job_id', 'job_group_id')) and {'batch_id', 'job_id', 'job_group_id'} <= set(params)
        rebinds = [pyast.unparse(n)[:40] for s in inner for n in pyast.walk(s) if isinstance(n, pyast.Name) and isinstance(n.ctx, pyast.Store) and n.id in ('batch_id', 'job_id', 'job_group_id')]
        ok = ids_ok and call_ok and pass_ok and not rebinds
        detail = 'ids from the record: %s; one mark_job_complete(.., batch_id, job_id, .., job_group_id, .., \'Cancelled\'): %s; passed through unchanged: %s' % (ids_ok, call_ok, pass_ok and not rebinds)
    ctx.add(core.decided('canceller/%s/the-job-completed-as-Cancelled-is-the-job-selected' % meth, ok, detail, kind='scan'))


def add(ctx, ex=None, run=None):
    """obligations for the three generators; `run(eng)` runs an engine (C05 passes its guarded runner)"""
    ex = ex or SP.proc_exec(inline_after=False)
    tree = pyast.parse(core.read_repo(PATH))
    for outer, gen, state in GENERATORS:
        eng = _engine(ctx, outer, gen, state, ex)
        (run or (lambda e: e.run()))(eng)
        lab = eng.label
        ctx.add(core.decided('%s/vacuity/some-yield-is-checked' % lab, len(eng.reached) >= 1, '%d yields on %d bound rows of %d queries' % (len(eng.reached), len(eng.bound), len(eng.queries)), kind='vacuity'))
        ctx.add(core.satisfiable('%s/vacuity/a-yield-is-reachable' % lab, z3.Or(*eng.reached) if eng.reached else z3.BoolVal(False)))
        ctx.add(core.satisfiable('%s/vacuity/jobs-of-a-cancelled-group-are-reached' % lab, z3.Or(*eng.reach_group) if eng.reach_group else z3.BoolVal(False)))
        if state == 'Ready':
            # the Ready loop is also the one that disposes of the children of failed parents (cancelled = 1 in a live group)
            ctx.add(core.satisfiable('%s/vacuity/jobs-marked-cancelled-in-a-live-group-are-reached' % lab, z3.Or(*eng.reach_flag) if eng.reach_flag else z3.BoolVal(False)))
            _same_job_is_cancelled(ctx, tree, outer, gen)
        ctx.add(core.satisfiable('%s/canary/every-selected-job-has-its-own-cancelled-flag-set' % lab, z3.Or(*eng.canary) if eng.canary else z3.BoolVal(False), kind='canary'))
    ctx.assume('canceller: the queries of one generator iteration (job group, then jobs of the group) are evaluated over one database state; what a selection relies on is monotone (job_groups_cancelled rows, jobs.cancelled = 1 and jobs.always_run are never reset by any routine), and mark_job_complete re-reads the job under lock')
    ctx.assume('canceller: LIMIT and index hints only drop rows / choose a plan; select_and_fetchall yields exactly the rows of its query')
