"""C34 - genotype call packing agrees with the engine.

Python side: hail/python/hail/expr/types.py  _tcall._convert_to_encoding / _convert_from_encoding, allele_pair,
allele_pair_sqrt, small_allele_pair; hail/python/hail/genetics/call.py  Call.__init__ (normalisation of unphased calls).
Engine side (real Scala text, parsed by vc/scvc.py): Call0/Call1/Call2.apply, Call.apply, Call.ploidy / isPhased / alleleRepr /
allelePairUnchecked, AllelePair, Genotype.diploidGtIndex / diploidGtIndexWithSwap / allelePair / smallAllelePair / allelePairSqrt.

Python ints are modelled as signed 64-bit vectors with a no-overflow obligation on every arithmetic step (pyvc bv_checked);
Scala Int is a 32-bit vector with JVM wrap-around.  Domain ("allele indices in range"): every allele >= 0; haploid allele
< 2^29; diploid: with k the larger allele (phased: the sum of the two) and j the first one, k <= 32767 and k(k+1)/2 + j < 2^29,
i.e. exactly the calls whose allele representation fits the 29 bits of the packed form.  Outside that domain the engine's own 32-bit arithmetic wraps; no claim.

 (E) for ploidy 0, 1, 2 and both phasings: the int32 the front end writes is bit-for-bit the Call the engine builds, neither
     side raises, and it is the specification value  phased | ploidy << 1 | repr << 3  with repr = k(k+1)/2 + j (VCF order).
 (D) _convert_from_encoding applied to that int32 rebuilds the same alleles and phasing (round trip), the engine's
     ploidy / isPhased / alleleRepr / allelePairUnchecked read the same fields back.
 (G) genotype index <-> allele pair: diploidGtIndex(j, k) = k(k+1)/2 + j; the index determines (j, k) uniquely (lemma);
     both cached tables hold exactly the pairs of their indices (every entry evaluated from the real table expressions);
     allele_pair_sqrt / allelePairSqrt are floating point: BOUNDED stand-in - the real Python function and the real Scala
     function (exact JVM double semantics in scvc) are evaluated at the first and last index of every row k (all k <= 32767 in the
     thorough tier, a stride in the quick tier); completeness for every index rests on the monotonicity of IEEE-754 operations.
 (N) hl.Call.__init__ orders the alleles of an unphased diploid call (precondition of (E)).
 (Q) wave 4: the decoded call EQUALS the packed call under the real Call.__eq__, both built by the real Call.__init__ (the packed one
     from a list); the KIND of the stored sequence counts (a list never equals a tuple) and _should_freeze is a free Boolean, so
     the positions decoded as set elements / dict keys are covered.
 (S) wave 4: the codec is a function of the 32 bits alone - AST obligation over the two _tcall methods and every module-level
     function they reach: nothing written outlives the invocation, no memoising decorator, no mutable default, every module-level
     value read is bound once and never written.
 (T) wave 4: the staged twin of the engine's decoder, SCanonicalCallValue.forEachAllele / ploidy / isPhased (SCanonicalCall.scala),
     parsed from the real text and executed by vc/scstaged.py on the engine's own packed values (BOUNDED like (G)): same alleles,
     ploidy, phasing, no wrapping Int operation; AST: Int -> Double conversions apply to the allele representation itself.
"""
from __future__ import annotations

import ast as pyast
import os
import re

import z3

from vc import core, pyvc, scstaged, scvc
from vc.pyclass import ClassIndex, Inliner
from vc.pyvc import Contract, Fork, SExc, SRecord, to_z3

TYPES = 'hail/python/hail/expr/types.py'
CALLPY = 'hail/python/hail/genetics/call.py'
SCALA = ['hail/hail/src/is/hail/variant/Call.scala', 'hail/hail/src/is/hail/variant/Genotype.scala']
SCALL = 'hail/hail/src/is/hail/types/physical/stypes/concrete/SCanonicalCall.scala'
MAXK = 32767


def bv64(x):
    return z3.SignExt(32, x) if x.size() == 32 else x


def small_table_python():
    """the real small_allele_pair list, evaluated from its source expression with the real allele_pair"""
    tree = pyast.parse(core.read_repo(TYPES))
    fn = [n for n in tree.body if isinstance(n, pyast.FunctionDef) and n.name == 'allele_pair'][0]
    tab = [n for n in tree.body if isinstance(n, pyast.Assign) and isinstance(n.targets[0], pyast.Name) and n.targets[0].id == 'small_allele_pair'][0]
    ns = {}
    exec(compile(pyast.Module(body=[fn, tab], type_ignores=[]), 'types-extract', 'exec'), ns)
    return list(ns['small_allele_pair'])


def tri(k):
    return k * (k + 1) // 2


def pair_of_index(i):
    k = 0
    while tri(k + 1) <= i:
        k += 1
    return i - tri(k), k


# ---- Python contracts ---------------------------------------------------------------------------------------------------------

SQRT_SPEC = Contract(
    path=TYPES,
    qualname='allele_pair_sqrt',
    types={'i': 'bv64', 'result': 'bv64'},
    requires=['i >= 0', 'i < 536870912'],
    ensures=[
        ('is-the-pair-of-the-index', '(result & 65535) <= ((result >> 16) & 65535) and ((result >> 16) & 65535) * (((result >> 16) & 65535) + 1) // 2 + (result & 65535) == i and result == ((result & 65535) | (((result >> 16) & 65535) << 16))'),
    ],
)


def _call_value(ploidy, phased, a0, a1):
    alleles = () if ploidy == 0 else ((a0,) if ploidy == 1 else (a0, a1))
    return SRecord('Call', {'ploidy': ploidy, 'phased': phased, 'alleles': alleles})


def encode_contract(ploidy, a0, a1, phased, cap, dom=()):
    def setup(eng, st):
        st.env['value'] = _call_value(ploidy, phased, a0, a1)
        for d in dom:
            st.assume(d)

    def write(eng, st, args, kw, node):
        cap.append((list(st.pc), args[0]))
        return None

    return Contract(
        path=TYPES, qualname='_tcall._convert_to_encoding', label='_tcall._convert_to_encoding[ploidy=%d]' % ploidy,
        types={'int_rep': 'bv64'}, bv_checked=True, setup=setup,
        calls={'byte_writer.write_int32': write},
        raises={'*': True},
    )


_INL = {}


def _inline_allele_pair(ctx):
    """call model: the real module-level allele_pair, executed on the caller's arguments"""
    if 'inl' not in _INL:
        inl = Inliner(ctx, ClassIndex([TYPES]), types={'j': 'bv64', 'k': 'bv64'})
        inl.contract_kw = {'bv_checked': True}
        _INL['inl'] = inl
    inl = _INL['inl']
    return lambda eng, st, args, kw, node: inl.call_function('allele_pair', args, kw, st, node)


def _sqrt_model(hint):
    """modular call of allele_pair_sqrt: for every (j, k) with 0 <= j <= k <= 65535 and k(k+1)/2 + j == i the result is
    j | k << 16  (contract discharged for the real function in (G)).  The universally quantified postcondition is assumed at the
    instance the caller's obligation talks about (hint = the caller's own j, k)."""

    def model(eng, st, args, kw, node):
        i = to_z3(args[0], 'bv64')
        eng.oblige(st, 'call/allele_pair_sqrt/index-in-range@L%d' % node.lineno, z3.And(i >= 0, i < (1 << 29)))
        res = z3.BitVec(pyvc.fresh_name('pair_of_index'), 64)
        if hint is not None:
            J, K = hint
            st.assume(z3.Implies(z3.And(J >= 0, J <= K, K <= 65535, z3.UDiv(K * (K + 1), z3.BitVecVal(2, 64)) + J == i), res == (J | (K << 16))))
        return res

    return model


def decode_contract(ploidy, r32, cap, table, ctx=None, dom=(), hint=None):
    def setup(eng, st):
        for d in dom:
            st.assume(d)

    def read(eng, st, args, kw, node):
        return z3.SignExt(32, r32)  # read_int32: the signed value of the 32 bits

    def ctor(eng, st, args, kw, node):
        cap.append((list(st.pc), args[0], args[1] if len(args) > 1 else kw.get('phased', False)))
        return SRecord('Call', {})

    def as_tuple(eng, st, args, kw, node):
        # tuple(xs): the KIND of the sequence matters to Call.__eq__ ([1, 2] != (1, 2)); a list of known length becomes a Python
        # tuple of its elements (pyvc's own `tuple(...)` keeps the list value)
        v = args[0] if len(args) == 1 and not kw else None
        if isinstance(v, tuple):
            return v
        if isinstance(v, pyvc.SList):
            n = z3.simplify(v.len)
            if z3.is_int_value(n):
                return tuple(z3.Select(v.arr, i_) for i_ in range(n.as_long()))
        raise pyvc.Undecided('tuple(...) of a sequence of unknown length in the call decoder')

    return Contract(
        path=TYPES, qualname='_tcall._convert_from_encoding', label='_tcall._convert_from_encoding[ploidy=%d]' % ploidy,
        types={}, bv_checked=True, setup=setup,
        consts={'small_allele_pair': tuple(table)},
        calls={'byte_reader.read_int32': read, 'genetics.Call': ctor, 'allele_pair': _inline_allele_pair(ctx), 'allele_pair_sqrt': _sqrt_model(hint), 'tuple': as_tuple},
        raises={'*': True},
    )


class _KindEngine(pyvc.Engine):
    """pyvc engine for hl.Call's own methods: `==` between sequences is Python's - a list never equals a tuple, two sequences of
    the same kind are equal when they have the same length and equal elements (lengths are known here)"""

    def equal(self, a, b):
        def elems(v):
            if isinstance(v, tuple):
                return 'tuple', list(v)
            if isinstance(v, pyvc.SList):
                n = z3.simplify(v.len)
                if z3.is_int_value(n):
                    return 'list', [z3.Select(v.arr, i_) for i_ in range(n.as_long())]
                raise pyvc.Undecided('equality of sequences of unknown length')
            return None, None

        (ka, xa), (kb, xb) = elems(a), elems(b)
        if ka is not None and kb is not None:
            if ka != kb or len(xa) != len(xb):
                return z3.BoolVal(False)
            return z3.And(*[pyvc.Engine.equal(self, x, y) for x, y in zip(xa, xb)]) if xa else z3.BoolVal(True)
        return pyvc.Engine.equal(self, a, b)


def _call_inliner(ctx):
    """the real hl.Call (hail/python/hail/genetics/call.py): __init__ and __eq__ executed on the caller's values"""
    if 'call' not in _INL:
        inl = Inliner(ctx, ClassIndex([CALLPY]), calls={'isinstance': lambda eng, st, args, kw, node: True})
        inl.engine_cls = _KindEngine
        _INL['call'] = inl
    return _INL['call']


def _list_value(vals):
    if not vals:
        return pyvc.SList(z3.IntVal(0), None, None)
    arr = z3.Const(pyvc.fresh_name('packed_alleles'), z3.ArraySort(z3.IntSort(), z3.BitVecSort(64)))
    for i_, v in enumerate(vals):
        arr = z3.Store(arr, i_, v)
    return pyvc.SList(z3.IntVal(len(vals)), arr, 'bv64')


def equal_calls_goal(ctx, ploidy, a0, a1, phased, dcap, hyps):
    """the decoded call EQUALS the packed one under the real Call.__eq__, both built by the real Call.__init__: the packed call
    from a list of its alleles (the documented parameter type), the decoded one from whatever the decoder hands to the
    constructor on each of its paths (frozen positions - set elements, dict keys - included: _should_freeze is a free Boolean).
    -> (goal, number of constructor paths, number of __eq__ evaluations, disjunction of the path conditions)"""
    inl = _call_inliner(ctx)
    # the bodies are run without path condition (their branches depend on `phased` and on known lengths only); every outcome is
    # guarded by its own path condition below, so an infeasible combination is a true conjunct
    packed = [(k_, rec, list(s.pc)) for k_, rec, s in inl.run_ctor('Call', args=[_list_value([bv64(a0), bv64(a1)][:ploidy]), phased], label='Call.__init__[packed ploidy=%d]' % ploidy)]
    goals, feasible, n_eq = [], [], 0
    for pi, (pc_, alleles, ph) in enumerate(dcap):
        for kd, drec, ds in inl.run_ctor('Call', args=[alleles, ph], label='Call.__init__[decoded ploidy=%d path %d]' % (ploidy, pi)):
            dpc = list(pc_) + list(ds.pc)
            if kd != 'value':
                goals.append(z3.Not(z3.And(*dpc)) if dpc else z3.BoolVal(False))
                continue
            for kp, prec, ppc in packed:
                if kp != 'value':
                    goals.append(z3.Not(z3.And(*ppc)) if ppc else z3.BoolVal(False))
                    continue
                if z3.is_false(z3.simplify(z3.And(*(dpc + ppc)))):
                    continue  # e.g. decoded as phased, packed as unphased
                for ke, res, es in inl.run_method(drec, '__eq__', args=[prec], label='Call.__eq__[ploidy=%d path %d]' % (ploidy, pi)):
                    n_eq += 1
                    guard = z3.And(*(dpc + ppc + list(es.pc))) if dpc + ppc + list(es.pc) else z3.BoolVal(True)
                    feasible.append(guard)
                    if ke == 'value' and isinstance(res, bool):
                        res = z3.BoolVal(res)
                    if ke != 'value' or not (isinstance(res, z3.ExprRef) and z3.is_bool(res)):
                        goals.append(z3.Not(guard))  # raises / NotImplemented / not a Boolean
                    else:
                        goals.append(z3.Implies(guard, res))
    return (z3.And(*goals) if goals else z3.BoolVal(False)), len(dcap), n_eq, (z3.Or(*feasible) if feasible else z3.BoolVal(False))


def _domain(ploidy, a0, a1, phased):
    d = [a0 >= 0, a1 >= 0]
    if ploidy == 1:
        d.append(z3.ULT(a0, z3.BitVecVal(1 << 29, 32)))
    if ploidy == 2:
        k = z3.If(phased, a0 + a1, a1)
        # k <= 32767 keeps k(k+1)/2 inside 31 bits; the representation itself must fit 29 bits
        d += [a0 <= MAXK, a1 <= MAXK, z3.If(phased, a0 + a1 <= MAXK, a0 <= a1), z3.ULT(z3.UDiv(k * (k + 1), z3.BitVecVal(2, 32)) + a0, z3.BitVecVal(1 << 29, 32))]
    return d


def encode_decode(ctx, objs):
    a0, a1 = z3.BitVecs('a0 a1', 32)
    phased = z3.Bool('phased')
    table = small_table_python()
    for ploidy in (0, 1, 2):
        if ploidy == 2:
            # diploid alleles in range are 15-bit values: declaring them so lets the bit-blaster drop the upper half of every
            # multiplier (the domain below still states the bound)
            a0, a1 = z3.ZeroExt(17, z3.BitVec('a0', 15)), z3.ZeroExt(17, z3.BitVec('a1', 15))
        dom = _domain(ploidy, a0, a1, phased)
        # ---- engine side
        if ploidy == 0:
            sres = objs['Call0'].funcs['apply'].sym(phased)
        elif ploidy == 1:
            sres = objs['Call1'].funcs['apply'].sym(a0, phased)
        else:
            sres = objs['Call2'].funcs['apply'].sym(a0, a1, phased)
        ctx.under_contract(SCALA[0], 'Call%d.apply' % ploidy)
        ctx.add(core.valid('C34/encode/ploidy=%d/engine-accepts-every-call-in-range' % ploidy, dom, z3.Not(sres.throws), cvc5_first=(ploidy == 2)))
        # ---- front end
        cap = []
        eng = pyvc.Engine(ctx, encode_contract(ploidy, bv64(a0), bv64(a1), phased, cap, dom))
        raised = []
        eng.at_raise = lambda st, exc, raised=raised: raised.append(z3.And(*st.pc) if st.pc else z3.BoolVal(True))
        eng.run()
        if not cap:
            raise pyvc.Undecided('write_int32 not reached for ploidy %d' % ploidy)
        ctx.add(core.valid('C34/encode/ploidy=%d/front-end-accepts-every-call-in-range' % ploidy, dom, z3.Not(z3.Or(*raised)) if raised else z3.BoolVal(True)))
        written = to_z3(cap[-1][1], 'bv64')
        for pc_, v in cap[:-1]:
            written = z3.If(z3.And(*pc_) if pc_ else z3.BoolVal(True), to_z3(v, 'bv64'), written)
        j, k = (a0, z3.If(phased, a0 + a1, a1)) if ploidy == 2 else (a0, a0)
        rep = {0: z3.BitVecVal(0, 32), 1: a0, 2: z3.UDiv(k * (k + 1), z3.BitVecVal(2, 32)) + j}[ploidy]
        spec = z3.If(phased, z3.BitVecVal(1, 32), z3.BitVecVal(0, 32)) | z3.BitVecVal(ploidy << 1, 32) | (rep << 3)
        ctx.add(core.valid('C34/encode/ploidy=%d/front-end-writes-the-int32-the-engine-builds' % ploidy, dom, z3.And(z3.Extract(31, 0, written) == sres.value, written == z3.SignExt(32, sres.value))))
        ctx.add(core.valid('C34/encode/ploidy=%d/engine-call-is-the-specified-packing (VCF-ordered pair index)' % ploidy, dom, sres.value == spec, cvc5_first=(ploidy == 2)))
        ctx.add(core.satisfiable('C34/encode/ploidy=%d/canary/domain-non-trivial' % ploidy, dom + [a0 > 100, a1 > 100, phased]))
        # ---- decode of exactly that int32 (written as the specification term: equal to the engine's term by the obligation above)
        r = spec
        dcap = []
        deng = pyvc.Engine(ctx, decode_contract(ploidy, r, dcap, table, ctx, dom, hint=(bv64(j), bv64(k)) if ploidy == 2 else None))
        draised = []
        deng.at_raise = lambda st, exc, draised=draised: draised.append(z3.And(*st.pc) if st.pc else z3.BoolVal(True))
        deng.run()
        ctx.add(core.valid('C34/decode/ploidy=%d/front-end-decodes-every-engine-call-in-range' % ploidy, dom, z3.Not(z3.Or(*draised)) if draised else z3.BoolVal(True), cvc5_first=(ploidy == 2)))
        goals = []
        for pc_, alleles, ph in dcap:
            cond = z3.And(*pc_) if pc_ else z3.BoolVal(True)
            al = list(alleles) if isinstance(alleles, (tuple, list)) else None
            if isinstance(alleles, pyvc.SList):
                n = z3.simplify(alleles.len)
                if z3.is_int_value(n):
                    al = [z3.Select(alleles.arr, i_) for i_ in range(n.as_long())]
            if al is None or len(al) != ploidy:
                goals.append(z3.Not(cond))
                continue
            want = [bv64(a0), bv64(a1)][:ploidy]
            eq = [to_z3(x, 'bv64') == w for x, w in zip(al, want)] + [deng.truthy(ph) == phased]
            goals.append(z3.Implies(cond, z3.And(*eq)))
        ctx.add(core.decided('C34/decode/ploidy=%d/decoder-reaches-the-Call-constructor' % ploidy, bool(dcap), '%d paths' % len(dcap), kind='vacuity'))
        ctx.add(core.valid('C34/decode/ploidy=%d/round-trip-same-alleles-and-phasing' % ploidy, dom, z3.And(*goals) if goals else z3.BoolVal(False), cvc5_first=(ploidy == 2)))
        # the same round trip stated with the real hl.Call: decoded == packed under Call.__eq__ (element-wise agreement, just
        # proved, is a hypothesis here: what is added is the constructor's normalisation and the KIND of the stored sequence)
        eq_goal, n_paths, n_eq, eq_feasible = equal_calls_goal(ctx, ploidy, a0, a1, phased, dcap, dom + list(goals))
        ctx.add(core.decided('C34/decode/ploidy=%d/Call.__eq__-evaluated-on-every-constructor-path' % ploidy, n_paths >= 1 and n_eq >= n_paths, '%d constructor paths, %d evaluations of Call.__eq__' % (n_paths, n_eq), kind='vacuity'))
        ctx.add(core.satisfiable('C34/decode/ploidy=%d/vacuity/some-equality-path-is-feasible' % ploidy, dom + [eq_feasible]))
        ctx.add(core.valid('C34/decode/ploidy=%d/decoded-call-equals-the-packed-call-under-the-real-Call.__eq__ (frozen positions included)' % ploidy, dom + list(goals), eq_goal))
        # ---- the engine reads the same fields back
        cobj = objs['Call']
        ctx.add(core.valid('C34/decode/ploidy=%d/engine-reads-back-ploidy-phasing-representation' % ploidy, dom, z3.And(cobj.funcs['ploidy'].sym(r).value == ploidy, cobj.funcs['isPhased'].sym(r).value == phased, cobj.funcs['alleleRepr'].sym(r).value == rep)))
        if ploidy == 2:
            gp = scvc.ScUFStub('Genotype.allelePair', 1)
            ap = cobj.funcs['allelePairUnchecked'].sym(r, stubs={'Genotype.allelePair': gp})
            AP = objs['AllelePair'].funcs
            pj, pk = z3.BitVecs('pj pk', 32)
            # contract of Genotype.allelePair assumed here (discharged in (G)): the pair of the index
            erep = cobj.funcs['alleleRepr'].sym(r).value  # == rep by the previous obligation; the same term the engine passes on
            stub_terms = gp.value_fn(erep)
            hyp = dom + [AP['j'].sym(stub_terms).value == j, AP['k'].sym(stub_terms).value == k, z3.Not(gp.throws_fn(erep))]
            ctx.add(core.valid('C34/decode/ploidy=2/engine-allele-pair-is-the-original-pair', hyp, z3.And(z3.Not(ap.throws), AP['j'].sym(ap.value).value == a0, AP['k'].sym(ap.value).value == a1)))
    ctx.under_contract(SCALA[0], 'Call.ploidy / isPhased / alleleRepr / allelePairUnchecked')
    ctx.under_contract(TYPES, 'small_allele_pair')
    ctx.under_contract(CALLPY, 'Call.__eq__')


# ---- (G) genotype index <-> allele pair ------------------------------------------------------------------------------------


def _py_functions():
    """the real allele_pair / allele_pair_sqrt / small_allele_pair, extracted from the module text"""
    import math

    tree = pyast.parse(core.read_repo(TYPES))
    body = [n for n in tree.body if (isinstance(n, pyast.FunctionDef) and n.name in ('allele_pair', 'allele_pair_sqrt')) or (isinstance(n, pyast.Assign) and isinstance(n.targets[0], pyast.Name) and n.targets[0].id == 'small_allele_pair')]
    ns = {'math': math}
    exec(compile(pyast.Module(body=body, type_ignores=[]), 'types-extract', 'exec'), ns)
    # every other module-level value the codec functions read (none today): bound as the module binds it
    codec = [n for n in tree.body if isinstance(n, pyast.FunctionDef) and n.name in ('allele_pair', 'allele_pair_sqrt')]
    for c_ in tree.body:
        if isinstance(c_, pyast.ClassDef) and c_.name == '_tcall':
            codec += [n for n in c_.body if isinstance(n, pyast.FunctionDef) and n.name in ('_convert_to_encoding', '_convert_from_encoding')]
    read = {n.id for f in codec for n in pyast.walk(f) if isinstance(n, pyast.Name) and isinstance(n.ctx, pyast.Load)}
    for n in tree.body:
        tg = n.targets[0] if isinstance(n, pyast.Assign) and len(n.targets) == 1 else (n.target if isinstance(n, pyast.AnnAssign) and n.value is not None else None)
        if isinstance(tg, pyast.Name) and tg.id in read and tg.id not in ns:
            if isinstance(n, pyast.AnnAssign):
                n = pyast.copy_location(pyast.Assign(targets=[tg], value=n.value), n)
            try:
                exec(compile(pyast.fix_missing_locations(pyast.Module(body=[n], type_ignores=[])), 'types-extract', 'exec'), ns)
            except Exception:  # pylint: disable=broad-except
                pass  # not evaluable in isolation: a NameError in the codec then counts as a harness error, not as a witness
    return ns


def _py_codec():
    """the real _tcall encoder / decoder as plain functions (class body extracted; hl.Call replaced by a tuple)"""
    import math

    tree = pyast.parse(core.read_repo(TYPES))
    cls = [n for n in tree.body if isinstance(n, pyast.ClassDef) and n.name == '_tcall'][0]
    fns = [n for n in cls.body if isinstance(n, pyast.FunctionDef) and n.name in ('_convert_to_encoding', '_convert_from_encoding')]
    for f in fns:
        f.args.args[-1].annotation = None if f.name == '_convert_to_encoding' else f.args.args[-1].annotation
        f.returns = None
        for a in f.args.args:
            a.annotation = None
    ns = dict(_py_functions())

    # the real hl.Call: __init__, __eq__, __hash__, __repr__ and the three properties, taken from call.py
    ctree = pyast.parse(core.read_repo(CALLPY))
    ccls = [n for n in ctree.body if isinstance(n, pyast.ClassDef) and n.name == 'Call'][0]
    keep = [n for n in ccls.body if isinstance(n, pyast.FunctionDef) and n.name in ('__init__', '__eq__', '__hash__', '__repr__', 'alleles', 'ploidy', 'phased') and all(isinstance(d, pyast.Name) and d.id == 'property' for d in n.decorator_list)]
    for f in keep:
        f.returns = None
    from collections.abc import Sequence

    cns = {'Sequence': Sequence}
    exec(compile(pyast.fix_missing_locations(pyast.Module(body=[pyast.ClassDef(name='Call', bases=[], keywords=[], body=keep, decorator_list=[])], type_ignores=[])), 'call-extract', 'exec'), cns)
    Call = cns['Call']
    ns['genetics'] = type('G', (), {'Call': Call})
    exec(compile(pyast.Module(body=fns, type_ignores=[]), 'tcall-extract', 'exec'), ns)

    class W:
        def write_int32(self, v):
            self.v = v

    class R:
        def __init__(self, v):
            self.v = v

        def read_int32(self):
            return self.v

    def enc(alleles, phased):
        w = W()
        ns['_convert_to_encoding'](None, w, Call(alleles, phased))
        return w.v

    freezable = '_should_freeze' in [a.arg for f in fns if f.name == '_convert_from_encoding' for a in f.args.args + f.args.kwonlyargs]

    def dec(v, freeze=False):
        """-> the decoded hl.Call (decoded as a set element / dict key when freeze)"""
        if freeze and freezable:
            return ns['_convert_from_encoding'](None, R(v), _should_freeze=True)
        return ns['_convert_from_encoding'](None, R(v))

    dec.Call = Call
    return enc, dec


def _expect_pair(i):
    j, k = pair_of_index(i)
    return j | (k << 16)


def _i32(x):
    x &= 0xFFFFFFFF
    return x - (1 << 32) if x >= (1 << 31) else x


def concrete_search(objs):
    """witness search on the real code of both sides (Python functions in-process, Scala through scvc's exact JVM evaluator)"""
    enc, dec = _py_codec()
    S = {o: objs[o].funcs for o in ('Call0', 'Call1', 'Call2', 'Call', 'Genotype', 'AllelePair')}
    ks = [0, 1, 2, 3, 7, 8, 9, 10, 44, 45, 46, 255, 256, 1000, 23169, 23170, 32766, 32767]
    cases = [((), False), ((), True)] + [((a,), ph) for a in (0, 1, 5, 65535, 65536, (1 << 28) - 1, 1 << 28, (1 << 29) - 1) for ph in (False, True)]
    for k in ks:
        for j in sorted({0, 1, k // 2, max(k - 1, 0), k}):
            if j <= k and tri(k) + j < (1 << 29):
                cases.append(((j, k), False))
                cases.append(((j, k - j), True))
    scls = _staged_class()
    for second_pass, (alleles, ph) in [(False, c_) for c_ in cases] + [(True, c_) for c_ in reversed(cases)]:
        want_rep = 0 if not alleles else (alleles[0] if len(alleles) == 1 else (tri(alleles[1]) + alleles[0] if not ph else tri(alleles[0] + alleles[1]) + alleles[0]))
        want = _i32(int(ph) | (len(alleles) << 1) | (want_rep << 3))
        rec = {'alleles': list(alleles), 'phased': ph, 'specified_int32': want}
        try:
            got_py = enc(list(alleles), ph)
        except Exception as e:  # pylint: disable=broad-except
            return dict(rec, confirmed=True, what='front end cannot encode a call in range: %r' % e)
        try:
            sc = {0: lambda: S['Call0']['apply'].eval(ph), 1: lambda: S['Call1']['apply'].eval(alleles[0], ph), 2: lambda: S['Call2']['apply'].eval(alleles[0], alleles[1], ph)}[len(alleles)]()
        except scvc.ScThrow as e:
            return dict(rec, confirmed=True, what='engine rejects a call in range: %s' % e)
        if got_py != sc or sc != want:
            return dict(rec, confirmed=True, what='front end and engine pack the call differently (or not as specified)', front_end_int32=got_py, engine_int32=sc)
        packed = dec.Call(list(alleles), ph)
        for freeze in (False, True):
            try:
                back = dec(sc, freeze)
            except NameError:
                raise  # the extraction misses a module-level name: harness error, not a witness
            except Exception as e:  # pylint: disable=broad-except
                return dict(rec, confirmed=True, what='front end cannot decode the engine call: %r' % e, engine_int32=sc, decoded_as_set_element_or_dict_key=freeze)
            if not (back == packed and packed == back and hash(back) == hash(packed)):
                return dict(rec, confirmed=True, what='the decoded call does not equal the packed call (hl.Call.__eq__)' + (' - decoding depends on what was decoded before in the same process' if second_pass else ''), decoded=repr(back), packed=repr(packed), decoded_as_set_element_or_dict_key=freeze, engine_int32=sc)
        C = S['Call']
        fields = (C['ploidy'].eval(sc), C['isPhased'].eval(sc), C['alleleRepr'].eval(sc))
        if fields != (len(alleles), ph, want_rep):
            return dict(rec, confirmed=True, what='engine reads other fields back from its own call', engine_ploidy_phased_repr=list(fields), expected=[len(alleles), ph, want_rep])
        if len(alleles) == 2:
            p = C['allelePairUnchecked'].eval(sc)
            if (S['AllelePair']['j'].eval(p), S['AllelePair']['k'].eval(p)) != tuple(alleles):
                return dict(rec, confirmed=True, what='engine unpacks a different allele pair', engine_pair=[S['AllelePair']['j'].eval(p), S['AllelePair']['k'].eval(p)])
        if not second_pass:
            bad = _staged_mismatch(scls, objs, alleles, ph, sc)
            if bad is not None:
                return bad
    return {'confirmed': False}


def native_witness(ctx):
    """used by vc.check when the contracts no longer fit a changed source: a failing input replayed on the real code"""
    objs = scvc.load_objects([os.path.join(core.REPO, p) for p in SCALA])
    return concrete_search(objs)


def pairs(ctx, objs, tier):
    G, AP = objs['Genotype'].funcs, objs['AllelePair'].funcs
    # G1: diploidGtIndex is the VCF index
    a, b = z3.BitVec('gj', 15), z3.BitVec('gk', 15)
    j, k = z3.ZeroExt(17, a), z3.ZeroExt(17, b)
    r = G['diploidGtIndex/2'].sym(j, k)
    ctx.add(core.valid('C34/pairs/engine-diploidGtIndex-is-k(k+1)/2+j', [z3.ULE(j, k)], z3.And(z3.Not(r.throws), r.value == z3.UDiv(k * (k + 1), z3.BitVecVal(2, 32)) + j)))
    rs = G['diploidGtIndexWithSwap'].sym(k, j)
    ctx.add(core.valid('C34/pairs/engine-diploidGtIndexWithSwap-orders-the-alleles', [z3.ULE(j, k)], z3.And(z3.Not(rs.throws), rs.value == r.value)))
    ctx.under_contract(SCALA[1], 'Genotype.diploidGtIndex / diploidGtIndexWithSwap')
    # G2: the index determines the pair (integers; the bit-vector terms above do not overflow for k <= 32767)
    J, K, J2, K2 = z3.Ints('J K J2 K2')
    ctx.add(core.valid('C34/pairs/lemma/index-determines-the-pair (bijection)', [0 <= J, J <= K, 0 <= J2, J2 <= K2, K * (K + 1) + 2 * J == K2 * (K2 + 1) + 2 * J2], z3.And(J == J2, K == K2)))
    ctx.add(core.valid('C34/pairs/lemma/every-index-has-a-pair-step', [0 <= J, J <= K], z3.Or(z3.And(J + 1 <= K, K * (K + 1) + 2 * (J + 1) == K * (K + 1) + 2 * J + 2), z3.And(J == K, (K + 1) * (K + 2) + 0 == K * (K + 1) + 2 * J + 2))))
    # G3: cached tables (every entry of the real tables)
    pyf = _py_functions()
    bad = [(i, v, _expect_pair(i)) for i, v in enumerate(pyf['small_allele_pair']) if v != _expect_pair(i)]
    ctx.add(core.decided('C34/pairs/front-end-table-holds-the-pair-of-each-index', not bad and len(pyf['small_allele_pair']) >= 1, 'entries=%d bad=%r' % (len(pyf['small_allele_pair']), bad[:3]), kind='validation'))
    n = objs['Genotype'].get_val('nCachedAllelePairs')
    tab = objs['Genotype'].get_val('smallAllelePair')
    tab = list(tab) if not isinstance(tab, list) else tab
    bad = [(i, int(v), _expect_pair(i)) for i, v in enumerate(tab) if int(v) != _expect_pair(i)]
    ctx.add(core.decided('C34/pairs/engine-table-holds-the-pair-of-each-index', not bad and n == len(tab) >= 1, 'entries=%d bad=%r' % (len(tab), bad[:3]), kind='validation'))
    # G5: Genotype.allelePair dispatches to the table below its length and to allelePairSqrt (same index) above
    st = scvc.ScUFStub('Genotype.allelePairSqrt', 1)
    i = z3.BitVec('gi', 32)
    ap = G['allelePair'].sym(i, stubs={'Genotype.allelePairSqrt': st})
    tabv = z3.BitVecVal(int(tab[-1]), 32)
    for t in range(len(tab) - 2, -1, -1):
        tabv = z3.If(i == t, z3.BitVecVal(int(tab[t]), 32), tabv)
    ctx.add(core.valid('C34/pairs/engine-allelePair-uses-the-table-then-the-closed-form-on-the-same-index', [i >= 0], z3.And(ap.value == z3.If(i < len(tab), tabv, st.value_fn(i)), ap.throws == z3.If(i < len(tab), z3.BoolVal(False), st.throws_fn(i)))))
    ctx.under_contract(SCALA[1], 'Genotype.allelePair / smallAllelePair')
    # G4: the floating-point closed forms - bounded stand-in
    ks = list(range(0, MAXK + 1)) if tier == 'thorough' else sorted(set(list(range(0, 1500)) + list(range(1500, MAXK + 1, 41)) + [23169, 23170, 23171, 32766, 32767]))
    worst = None
    n_eval = 0
    for k_ in ks:
        for j_ in (0, k_):
            idx = tri(k_) + j_
            if idx >= (1 << 29):
                continue
            want = j_ | (k_ << 16)
            try:
                gp = pyf['allele_pair_sqrt'](idx)
            except Exception as e:  # pylint: disable=broad-except
                gp = 'raises %r' % e
            try:
                gs = G['allelePairSqrt'].eval(idx)
            except scvc.ScThrow as e:
                gs = 'throws %s' % e
            n_eval += 2
            if (gp != want or gs != want) and worst is None:
                worst = {'index': idx, 'row_k': k_, 'position_j': j_, 'expected_pair': want, 'front_end_allele_pair_sqrt': gp, 'engine_allelePairSqrt': gs}
    last = (1 << 29) - 1
    if worst is None and (pyf['allele_pair_sqrt'](last) != _expect_pair(last) or G['allelePairSqrt'].eval(last) != _expect_pair(last)):
        worst = {'index': last, 'expected_pair': _expect_pair(last), 'front_end_allele_pair_sqrt': pyf['allele_pair_sqrt'](last), 'engine_allelePairSqrt': G['allelePairSqrt'].eval(last)}
    ctx.bounded_standin(
        'closed-form-pair-at-the-first-and-last-index-of-every-row',
        'allele_pair_sqrt (Python, native) and Genotype.allelePairSqrt (Scala, scvc exact JVM evaluator) at the first and last index of %d of the %d rows k <= 32767 (%s tier) and at index 2^29 - 1; indices in between follow only with the monotonicity of IEEE-754 double operations' % (len(ks), MAXK + 1, tier),
        n_eval, worst is None, dict(worst, confirmed=True, what='closed-form index -> allele pair conversion returns a wrong pair') if worst else '',
    )
    ctx.under_contract(TYPES, 'allele_pair_sqrt (bounded)')
    ctx.under_contract(SCALA[1], 'Genotype.allelePairSqrt (bounded)')


# ---- (T) the staged twin of the engine's decoder ----------------------------------------------------------------------------------


def _staged_class():
    try:
        return scstaged.load_staged_class(core.read_repo(SCALL), SCALL, 'SCanonicalCallValue')
    except scvc.ScUnsupported as e:
        raise pyvc.Undecided('staged call value: %s' % e)


def _staged_mismatch(cls, objs, alleles, phased, c):
    """SCanonicalCallValue(c).forEachAllele / ploidy / isPhased (real staged text, vc/scstaged.py) against the call that the
    engine packed into c; None when they agree"""
    rec = {'alleles': list(alleles), 'phased': phased, 'engine_int32': c}
    run = scstaged.StagedRun(cls, objs, {'call': c})
    out = []
    try:
        run.call('forEachAllele', {'alleleCode': out.append})
        pl, ph = run.call('ploidy'), run.call('isPhased')
    except scvc.ScThrow as e:
        return dict(rec, confirmed=True, what='staged forEachAllele / ploidy / isPhased (generated code) throws on a call in range: %s' % e)
    if out != list(alleles):
        return dict(rec, confirmed=True, what='staged forEachAllele (generated code) yields other alleles than the call holds', staged_alleles=out, int_arithmetic_wrapped=run.overflows[:2])
    if (pl, ph) != (len(alleles), phased):
        return dict(rec, confirmed=True, what='staged ploidy / isPhased (generated code) read other fields than the call holds', staged_ploidy_phased=[pl, ph])
    if run.overflows:
        return dict(rec, confirmed=True, what='32-bit Int arithmetic of the staged decoder wraps around on a call in range', int_arithmetic_wrapped=run.overflows[:2], staged_alleles=out)
    return None


def staged_twin(ctx, objs, tier):
    """SCanonicalCallValue.forEachAllele is the decoder the generated code runs (the interpreter's is Call.allelePairUnchecked,
    verified above).  (a) AST: every Int -> Double conversion in it applies to a value (the allele representation), never to
    the result of 32-bit arithmetic, and the narrowing back (.toI) is applied to Double arithmetic - `8 * i + 1` is computed in
    doubles as in the verified Genotype.allelePairSqrt; (b) BOUNDED: the real staged text is executed (vc/scstaged.py, exact JVM
    semantics) on the engine's own Call0/1/2.apply values at the first and last index of the rows, both phasings, and must
    yield exactly the alleles, ploidy and phasing of the call, without any wrapping Int operation."""
    cls = _staged_class()
    try:
        nodes = cls.walk('forEachAllele')
        for m in ('ploidy', 'isPhased'):
            cls.walk(m)
    except scvc.ScUnsupported as e:
        raise pyvc.Undecided('staged call value: %s' % e)
    ctx.under_contract(SCALL, 'SCanonicalCallValue.forEachAllele / ploidy / isPhased (staged; bounded)')
    conv = [n for n in nodes if n.kind == 'Select' and n.name in ('toD', 'toDouble')]
    bad = ['line %d: .%s of a %s expression' % (n.line, n.name, n.obj.kind) for n in conv if n.obj.kind != 'Ident']
    sq = [n for n in nodes if n.kind == 'Apply' and any(a.kind == 'Lit' and a.ty == 'String' and a.value.strip('"') == 'sqrt' for _, a in n.args)]
    ctx.add(core.decided('C34/staged/forEachAllele/int-to-double-conversion-applies-to-the-allele-representation-itself (double arithmetic before any narrowing)', not bad, '; '.join(bad) or '%d conversion(s), receivers: %s' % (len(conv), ', '.join(sorted({n.obj.name for n in conv}))), kind='scan'))
    ctx.add(core.decided('C34/staged/forEachAllele/closed-form-found (sqrt call and Int->Double conversion present)', bool(conv) and bool(sq), 'toD at lines %s, sqrt at lines %s' % ([n.line for n in conv], [n.line for n in sq]), kind='vacuity'))
    # (b) bounded execution
    S = {o: objs[o].funcs for o in ('Call0', 'Call1', 'Call2')}
    ncached = objs['Genotype'].get_val('nCachedAllelePairs')
    ks = list(range(0, MAXK + 1)) if tier == 'thorough' else sorted(set(list(range(0, 600)) + list(range(600, MAXK + 1, 97)) + [23169, 23170, 23171, 32766, 32767]))
    cases = [((), False), ((), True)] + [((a,), ph) for a in (0, 1, 7, 65535, 65536, (1 << 28) - 1, 1 << 28, (1 << 29) - 1) for ph in (False, True)]
    for k_ in ks:
        for j_ in (0, k_):
            if tri(k_) + j_ < (1 << 29):
                cases.append(((j_, k_), False))
                cases.append(((j_, k_ - j_), True))
    last = pair_of_index((1 << 29) - 1)
    cases += [(last, False), ((last[0], last[1] - last[0]), True)]
    worst, n_closed = None, 0
    try:
        for alleles, ph in cases:
            c = {0: lambda: S['Call0']['apply'].eval(ph), 1: lambda: S['Call1']['apply'].eval(alleles[0], ph), 2: lambda: S['Call2']['apply'].eval(alleles[0], alleles[1], ph)}[len(alleles)]()
            if len(alleles) == 2 and ((c & 0xFFFFFFFF) >> 3) >= ncached:
                n_closed += 1
            worst = _staged_mismatch(cls, objs, alleles, ph, c)
            if worst is not None:
                break
    except scvc.ScUnsupported as e:
        raise pyvc.Undecided('staged call value: %s' % e)
    except scvc.ScThrow as e:
        raise core.CheckerBug('engine rejects a call in range while checking the staged twin: %s' % e)
    ctx.add(core.decided('C34/staged/forEachAllele/bounded-run-reaches-the-closed-form-branch', worst is not None or n_closed > 100, '%d of %d calls beyond the %d cached pairs' % (n_closed, len(cases), ncached), kind='vacuity'))
    ctx.bounded_standin(
        'staged-forEachAllele-yields-the-alleles-of-the-engine-call',
        'SCanonicalCallValue.forEachAllele / ploidy / isPhased (real staged Scala text, vc/scstaged.py) on Call0/1/2.apply of the first and last index of %d of the %d rows k <= 32767 (%s tier), both phasings, haploid and empty calls, and index 2^29 - 1; no Int operation may wrap' % (len(ks), MAXK + 1, tier),
        len(cases), worst is None, worst or '',
    )


# ---- (S) the codec is a function of the 32 bits alone: no process-wide state -------------------------------------------------

MUTATORS = frozenset('append extend insert add update setdefault pop popitem clear remove discard sort reverse appendleft popleft extendleft __setitem__ __delitem__ __setattr__ cache_clear'.split())
CODEC_ROOTS = ('_tcall._convert_from_encoding', '_tcall._convert_to_encoding')


def _root_name(n):
    while isinstance(n, (pyast.Subscript, pyast.Attribute, pyast.Starred)):
        n = n.value
    return n.id if isinstance(n, pyast.Name) else None


def _bound_names(fn):
    """names local to one invocation of fn (its nested defs included): parameters and everything bound by a statement"""
    out, glob = set(), set()
    for n in pyast.walk(fn):
        if isinstance(n, (pyast.FunctionDef, pyast.AsyncFunctionDef, pyast.Lambda)):
            a = n.args
            out.update(x.arg for x in a.posonlyargs + a.args + a.kwonlyargs + ([a.vararg] if a.vararg else []) + ([a.kwarg] if a.kwarg else []))
            if not isinstance(n, pyast.Lambda) and n is not fn:
                out.add(n.name)
        elif isinstance(n, pyast.Name) and isinstance(n.ctx, (pyast.Store, pyast.Del)):
            out.add(n.id)
        elif isinstance(n, pyast.ClassDef):
            out.add(n.name)
        elif isinstance(n, pyast.alias):
            out.add((n.asname or n.name).split('.')[0])
        elif isinstance(n, pyast.ExceptHandler) and n.name:
            out.add(n.name)
        elif isinstance(n, pyast.Global):
            glob.update(n.names)
    return out - glob, glob


def _writes(tree):
    """(root name, line, what) of every store through a subscript / attribute, augmented assignment, del and call of a mutating
    method in `tree`"""
    out = []
    for n in pyast.walk(tree):
        tg = []
        if isinstance(n, pyast.Assign):
            tg = list(n.targets)
        elif isinstance(n, (pyast.AugAssign, pyast.AnnAssign)):
            tg = [n.target]
        elif isinstance(n, pyast.Delete):
            tg = list(n.targets)
        elif isinstance(n, (pyast.For, pyast.AsyncFor)):
            tg = [n.target]
        for t in tg:
            for e in (t.elts if isinstance(t, (pyast.Tuple, pyast.List)) else [t]):
                if isinstance(e, (pyast.Subscript, pyast.Attribute)):
                    out.append((_root_name(e), e.lineno, 'store through %s' % pyast.unparse(e)))
                elif isinstance(e, pyast.Name) and isinstance(n, pyast.AugAssign):
                    out.append((e.id, e.lineno, 'augmented assignment to %s' % e.id))
        if isinstance(n, pyast.Call) and isinstance(n.func, pyast.Attribute) and n.func.attr in MUTATORS:
            out.append((_root_name(n.func.value), n.lineno, 'call of the mutating method %s' % pyast.unparse(n.func)))
    return out


def stateless_codec(ctx):
    """Decoding / encoding is a function of the 32 bits (of the call) alone: the codec functions and every module-level function
    they reach keep no state between two invocations.  Decided on the real AST of types.py on every run:
      * no `global` declaration, no store / augmented assignment / del / mutating-method call whose root is a name that is not
        local to the invocation (module-level objects, and `self`: tcall is one process-wide instance);
      * no memoising decorator on any of them, no mutable parameter default (created once per process);
      * every module-level VALUE they read (small_allele_pair) is bound exactly once at module level and is not written through
        anywhere in the module.
    Returns the names of the module-level values read (the native witness search binds exactly these)."""
    import builtins

    tree = pyast.parse(core.read_repo(TYPES))
    top_funcs = {n.name: n for n in tree.body if isinstance(n, (pyast.FunctionDef, pyast.AsyncFunctionDef))}
    top_classes = {n.name: n for n in tree.body if isinstance(n, pyast.ClassDef)}
    top_imports = set()
    star = False
    for n in tree.body:
        if isinstance(n, (pyast.Import, pyast.ImportFrom)):
            for a in n.names:
                if a.name == '*':
                    star = True
                top_imports.add((a.asname or a.name).split('.')[0])
    top_values = {}
    for n in tree.body:
        tg = n.targets if isinstance(n, pyast.Assign) else ([n.target] if isinstance(n, (pyast.AnnAssign, pyast.AugAssign)) else [])
        for t in tg:
            for e in (t.elts if isinstance(t, (pyast.Tuple, pyast.List)) else [t]):
                if isinstance(e, pyast.Name):
                    top_values.setdefault(e.id, []).append(n.lineno)
    tc = top_classes.get('_tcall')
    if tc is None:
        raise pyvc.Undecided('class _tcall not found in %s' % TYPES)
    work, seen = [], {}
    for q in CODEC_ROOTS:
        m = [n for n in tc.body if isinstance(n, pyast.FunctionDef) and n.name == q.split('.')[1]]
        if len(m) != 1:
            raise pyvc.Undecided('%s not found exactly once' % q)
        work.append((q, m[0]))
    problems, value_reads, unresolved = [], {}, []
    while work:
        q, fn = work.pop()
        if q in seen:
            continue
        seen[q] = fn
        ctx.under_contract(TYPES, q + ' (no process-wide state)')
        local, glob = _bound_names(fn)
        for g in sorted(glob):
            problems.append('%s declares `global %s`' % (q, g))
        is_method = '.' in q
        for d in fn.decorator_list:
            txt = pyast.unparse(d)
            if re.search(r'cache|memo|lru', txt, re.I):
                problems.append('%s is wrapped by the memoising decorator @%s' % (q, txt))
            else:
                raise pyvc.Undecided('%s carries the decorator @%s, whose effect on the codec is not modelled' % (q, txt))
        for d in list(fn.args.defaults) + [d for d in fn.args.kw_defaults if d is not None]:
            # a default value is created once, when the function is defined: a mutable one is state shared by all invocations
            if not all(isinstance(x, (pyast.Constant, pyast.Tuple, pyast.UnaryOp, pyast.USub, pyast.UAdd, pyast.Load, pyast.Name, pyast.Attribute)) for x in pyast.walk(d)):
                problems.append('%s has the parameter default %s, an object shared by all invocations' % (q, pyast.unparse(d)))
        for root, line, what in _writes(fn):
            if root is None:
                problems.append('%s:%d %s (root is not a name)' % (q, line, what))
            elif root not in local or (is_method and root == 'self'):
                problems.append('%s line %d: %s - `%s` outlives the invocation' % (q, line, what, root))
        for n in pyast.walk(fn):
            if isinstance(n, pyast.Name) and isinstance(n.ctx, pyast.Load) and n.id not in local:
                nm = n.id
                if nm in top_funcs:
                    work.append((nm, top_funcs[nm]))
                elif nm in top_values:
                    value_reads.setdefault(nm, set()).add(q)
                elif nm in top_classes or nm in top_imports or hasattr(builtins, nm):
                    pass
                else:
                    unresolved.append('%s reads `%s`' % (q, nm))
    all_writes = _writes(tree)
    for nm, users in sorted(value_reads.items()):
        if len(top_values[nm]) != 1:
            problems.append('module-level `%s` (read by %s) is bound %d times (lines %s)' % (nm, ', '.join(sorted(users)), len(top_values[nm]), top_values[nm]))
        for root, line, what in all_writes:
            if root == nm:
                problems.append('module-level `%s` (read by %s) is written at line %d: %s' % (nm, ', '.join(sorted(users)), line, what))
        for n in pyast.walk(tree):
            if isinstance(n, pyast.Global) and nm in n.names:
                problems.append('module-level `%s` (read by %s) is rebound through `global` at line %d' % (nm, ', '.join(sorted(users)), n.lineno))
    if unresolved and star:
        raise pyvc.Undecided('names of unknown origin (star import) in the codec: %s' % unresolved[:4])
    if unresolved:
        raise pyvc.Undecided('free names of the codec that resolve to nothing in %s: %s' % (TYPES, unresolved[:4]))
    ctx.add(core.decided('C34/stateless/codec-reads-and-writes-no-process-wide-mutable-state (decoding is a function of the 32 bits alone)', not problems, '; '.join(problems[:6]) or 'functions scanned: %s; module-level values read: %s' % (', '.join(sorted(seen)), ', '.join(sorted(value_reads)) or 'none'), kind='scan'))
    ctx.add(core.decided('C34/stateless/scan-reaches-both-codec-methods-and-the-pair-helpers', all(q in seen for q in CODEC_ROOTS + ('allele_pair', 'allele_pair_sqrt')), 'scanned: %s' % ', '.join(sorted(seen)), kind='vacuity'))
    return sorted(value_reads)


def call_init():
    """hl.Call.__init__: an unphased diploid call stores its alleles in ascending order"""
    return Contract(
        path=CALLPY, qualname='Call.__init__',
        types={'alleles': 'List[int]', 'phased': 'bool'},
        self_fields={},
        requires=['len(alleles) <= 2', 'forall(lambda i: implies(0 <= i < len(alleles), alleles[i] >= 0))'],
        calls={'isinstance': lambda eng, st, args, kw, node: True},
        ensures=[
            ('unphased-diploid-alleles-ascending', 'implies(len(alleles) == 2 and not phased, len(self._alleles) == 2 and self._alleles[0] <= self._alleles[1] and ((self._alleles[0] == alleles[0] and self._alleles[1] == alleles[1]) or (self._alleles[0] == alleles[1] and self._alleles[1] == alleles[0])))'),
            ('otherwise-alleles-kept-in-order', 'implies(len(alleles) < 2 or phased, len(self._alleles) == len(alleles) and forall(lambda i: implies(0 <= i < len(alleles), self._alleles[i] == alleles[i])))'),
            ('phasing-kept', 'self._phased == phased'),
        ],
        raises={},
    )


def build(ctx):
    # decided on the AST first: these obligations stand even when a later contract no longer fits a changed source
    stateless_codec(ctx)
    objs = scvc.load_objects([os.path.join(core.REPO, p) for p in SCALA])
    encode_decode(ctx, objs)
    pairs(ctx, objs, ctx.tier if hasattr(ctx, 'tier') else 'quick')
    staged_twin(ctx, objs, ctx.tier if hasattr(ctx, 'tier') else 'quick')
    pyvc.Engine(ctx, call_init()).run()
    found = {}

    def search():
        if 'r' not in found:
            try:
                found['r'] = concrete_search(objs)
            except Exception as e:  # pylint: disable=broad-except
                found['r'] = {'confirmed': False, 'harness_error': repr(e)}
        return found['r']

    ctx.witness_search = search
    ctx.assume('Scala subset semantics as implemented by vc/scvc.py (32-bit two\'s complement Int, truncating division, 5-bit shift counts); Python ints as 64-bit vectors with no-overflow obligations')
    ctx.assume('allele indices in range: k(k+1)/2 + j < 2^29 with k <= 32767 (haploid: allele < 2^29); outside it the engine\'s 32-bit arithmetic wraps and nothing is claimed')
    ctx.assume('the packed hl.Call was built from a list of alleles (the documented parameter type): a phased / haploid call built from a tuple already differs, under Call.__eq__, from the list-based call the decoder returns')
    ctx.assume('staged Scala (SCanonicalCall.scala): the meaning given by vc/scstaged.py to the asm4s builder calls (cb.memoize / newLocal / assign / if_ / append, Code.invokeScalaObjectN / invokeStatic1 Math.sqrt / _fatal, toD / toI, no numeric promotion); the class-file generation itself is not modelled')
    ctx.undecided('Call.__hash__ (dict / set lookups of decoded calls) and the other staged methods of SCanonicalCallValue (unphase, containsAllele, lgtToGT) are not under contract')
    ctx.assume('contract of allele_pair_sqrt / allelePairSqrt used by the decoders (pair of the index) rests on the bounded stand-in plus monotonicity of IEEE-754 sqrt, division, subtraction and float->int truncation')
