"""C15 (b): BatchFormatVersion.db_spec against the get_spec_* readers - symbolic execution of the real writer followed by the
real readers on the writer's symbolic result, for every format version in [2, 7] (version 1 stores the spec itself).

Input space: a job spec dict whose 'secrets' key is absent or a list (any length) of {namespace, name, mount_path[, mount_in_copy]},
'service_account' absent or {namespace, name}, 'resources' with or without a (non-empty) machine_type (+ preemptible, storage_gib),
'input_files' / 'output_files' absent or lists of any length.  The case split over absent/present keys is enumerated (2*2*2*2*2
shapes); everything inside a shape is symbolic.
"""
from __future__ import annotations

import itertools

import z3

from vc import core, pyvc
from vc.pyvc import Contract, SRecord, rec_type

BFV = 'batch/batch/batch_format_version.py'
SECRET_T = rec_type(namespace='U', name='U', mount_path='U', has_mount_in_copy='bool', mount_in_copy='bool')
SA_T = rec_type(namespace='U', name='U')


def make_spec(shape):
    """shape = (has_secrets, has_sa, has_machine_type, has_inputs, has_outputs) -> (SRecord spec, facts)"""
    has_secrets, has_sa, has_mt, has_in, has_out = shape
    f = {}
    facts = []
    if has_secrets:
        f['secrets'] = pyvc.fresh_value(('list', SECRET_T), 'secrets')
        facts += pyvc.wf_constraints(f['secrets'])
    if has_sa:
        f['service_account'] = pyvc.fresh_value(SA_T, 'service_account')
    res = {'preemptible': z3.Bool('res_preemptible'), 'storage_gib': z3.Int('res_storage_gib')}
    if has_mt:
        res['machine_type'] = z3.Const('res_machine_type', pyvc.U)
    f['resources'] = SRecord('dict', res)
    if has_in:
        f['input_files'] = pyvc.fresh_value(('list', 'U'), 'input_files')
        facts += pyvc.wf_constraints(f['input_files'])
    if has_out:
        f['output_files'] = pyvc.fresh_value(('list', 'U'), 'output_files')
        facts += pyvc.wf_constraints(f['output_files'])
    return SRecord('dict', f), facts


def build(ctx):
    V = z3.Int('format_version')
    n_pairs = 0
    for shape in itertools.product((False, True), repeat=5):
        spec, facts = make_spec(shape)
        tag = 'shape-' + ''.join('1' if b else '0' for b in shape)

        def setup_w(eng, st, spec=spec, facts=facts):
            st.env['spec'] = spec
            st.env['self'] = SRecord('BatchFormatVersion', {'format_version': V})
            for x in facts:
                st.assume(x)
            st.assume(z3.And(V >= 2, V <= 7))
            if 'machine_type' in spec.fields['resources'].fields:
                st.assume(eng.truthy(spec.fields['resources'].fields['machine_type']))

        w = Contract(path=BFV, qualname='BatchFormatVersion.db_spec', label='db_spec[%s]' % tag, types={'self': 'U', 'spec': 'U'}, setup=setup_w, raises={})
        weng = pyvc.Engine(ctx, w)
        results = []
        orig_at_return = weng.at_return

        def grab(st, res, results=results):
            results.append((list(st.pc), res))

        weng.at_return = grab
        weng.run()
        if not results:
            raise core.CheckerBug('db_spec produced no result for %s' % tag)
        for ri, (pc, stored) in enumerate(results):
            for getter, ens in READERS.items():
                n_pairs += 1

                def setup_r(eng, st, pc=pc, stored=stored, spec=spec):
                    st.env['spec'] = stored
                    st.env['self'] = SRecord('BatchFormatVersion', {'format_version': V})
                    st.env['ORIG'] = spec
                    for x in pc:
                        st.assume(x)

                r = Contract(path=BFV, qualname='BatchFormatVersion.' + getter, label='%s(db_spec)[%s/%d]' % (getter, tag, ri), types={'self': 'U', 'spec': 'U'}, setup=setup_r, ensures=ens(shape), raises={})
                pyvc.Engine(ctx, r).run()
    ctx.extra['spec_roundtrip_writer_reader_pairs'] = n_pairs
    ctx.assume('job specs have the shape enforced by the front-end validator (keys as listed in contracts/C15_spec.py); machine_type, when present, is a non-empty string')
    ctx.assume('format version 1 stores the spec unchanged and the readers index the same dict (identity); versions 2..7 are verified symbolically')


def _secrets(shape):
    if not shape[0]:
        return [('absent-secrets-read-back-as-None', 'result is None')]
    return [
        ('secrets-read-back', "(result is None and len(ORIG['secrets']) == 0) or (result is not None and len(ORIG['secrets']) > 0 and len(result) == len(ORIG['secrets']) and forall(lambda i: implies(0 <= i < len(result), "
         "result[i]['namespace'] == ORIG['secrets'][i]['namespace'] and result[i]['name'] == ORIG['secrets'][i]['name'] and result[i]['mount_path'] == ORIG['secrets'][i]['mount_path'] and "
         "result[i]['mount_in_copy'] == (ORIG['secrets'][i]['has_mount_in_copy'] and ORIG['secrets'][i]['mount_in_copy']))))"),
    ]


def _sa(shape):
    if not shape[1]:
        return [('absent-service-account-read-back-as-None', 'result is None')]
    return [('service-account-read-back', "result is not None and result['namespace'] == ORIG['service_account']['namespace'] and result['name'] == ORIG['service_account']['name']")]


def _inputs(shape):
    return [('has-input-files-flag', "result == (len(ORIG['input_files']) > 0)" if shape[3] else 'result == False')]


def _outputs(shape):
    return [('has-output-files-flag', "result == (len(ORIG['output_files']) > 0)" if shape[4] else 'result == False')]


def _machine(shape):
    if not shape[2]:
        return [('no-machine-type-reads-back-None', 'result is None')]
    return [('machine-spec-read-back-from-version-5', "(result is None and self.format_version < 5) or (result is not None and self.format_version >= 5 and result['machine_type'] == ORIG['resources']['machine_type'] and result['preemptible'] == ORIG['resources']['preemptible'] and result['storage_gib'] == ORIG['resources']['storage_gib'])")]


READERS = {
    'get_spec_secrets': _secrets,
    'get_spec_service_account': _sa,
    'get_spec_has_input_files': _inputs,
    'get_spec_has_output_files': _outputs,
    'get_spec_machine_spec': _machine,
}
